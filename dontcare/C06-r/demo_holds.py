#!/usr/bin/env python
"""Independent check of property C06 (molecule assignment equals the ground-truth duplicate structure).

Simulates a few hundred small libraries with known truth, runs the MoleculeIterator + write_tags over
them (clean input, input that already carries duplicate flags / RC tags, and a re-tag of the tagged
output), and checks the property with an oracle that does not use the library's own site / UMI logic.

Prints "PROPERTY HOLDS" and exits 0 when everything agrees, and a "BEHAVIOUR DIGEST" over all raw outputs.
"""
import sys
import os
import random
import hashlib
import tempfile
import itertools
import collections
import pysam

from singlecellmultiomics.molecule import MoleculeIterator, Molecule, NlaIIIMolecule, CHICMolecule
from singlecellmultiomics.fragment import Fragment, NlaIIIFragment, CHICFragment

N_LIBRARIES = 260
CONTIGS = [('chr1', 80_000), ('chr2', 80_000)]
DIGEST = hashlib.sha256()
PROBLEMS = []


def digest(*parts):
    for p in parts:
        DIGEST.update(str(p).encode())
        DIGEST.update(b'\x1f')


def problem(lib, msg):
    PROBLEMS.append(f'library {lib}: {msg}')


# ----------------------------------------------------------------------------------------------
# Simulation
# ----------------------------------------------------------------------------------------------
def rand_seq(rng, n):
    return ''.join(rng.choice('ACGT') for _ in range(n))


def mutate(rng, seq, n, protect_start=0, protect_end=0):
    seq = list(seq)
    for _ in range(n):
        i = rng.randrange(protect_start, len(seq) - protect_end)
        seq[i] = rng.choice([b for b in 'ACGT' if b != seq[i]])
    return ''.join(seq)


def umi_neighbour(rng, umi, d):
    umi = list(umi)
    for i in rng.sample(range(len(umi)), d):
        umi[i] = rng.choice([b for b in 'ACGT' if b != umi[i]])
    return ''.join(umi)


def own_distance(a, b):
    """Hamming distance of two UMIs, an N is compatible with every base"""
    if len(a) != len(b):
        return 10 ** 6
    return sum(1 for x, y in zip(a, b) if x != y and x != 'N' and y != 'N')


def make_read(header, name, tid, start, cigar, seq, reverse, read1, mq, mate_start, mate_reverse, tags, qcfail=False):
    r = pysam.AlignedSegment(header)
    r.query_name = name
    r.reference_id = tid
    r.reference_start = start
    r.query_sequence = seq
    r.query_qualities = pysam.qualitystring_to_array('I' * len(seq))
    r.cigarstring = cigar
    r.mapping_quality = mq
    r.is_paired = True
    r.is_proper_pair = True
    r.is_reverse = reverse
    r.mate_is_reverse = mate_reverse
    r.is_read1 = read1
    r.is_read2 = not read1
    r.next_reference_id = tid
    r.next_reference_start = mate_start
    r.is_qcfail = qcfail
    for k, v in tags.items():
        r.set_tag(k, v)
    return r


def simulate_library(rng, lib, header):
    """Returns config, reads (coordinate sorted), truth {fragment name: dict}"""
    protocol = rng.choice(['nla', 'chic', 'plain'])
    hd = rng.choice([0, 0, 1, 2])
    radius = rng.choice([0, 0, 4, 10])
    cap = rng.choice([None, None, None, 1, 2, 3])
    pooling = rng.choice([1, 1, 0])
    eject = rng.choice(['default', None, 25])
    jitter = radius // 2 if (radius > 0 and protocol in ('chic', 'plain')) else 0
    mx = rng.choice([None, 'scCHIC384C8U3']) if protocol == 'chic' else None
    config = dict(protocol=protocol, hd=hd, radius=radius, cap=cap, pooling=pooling, eject=eject, jitter=jitter)

    n_cells = rng.randint(1, 8)
    n_sites = rng.randint(1, 40)
    umi_len = rng.randint(3, 8)
    # Sites: (contig, coordinate). Plain fragments and radius > 0 need well separated sites,
    # otherwise some sites are put right next to each other
    sites = []
    spacing = 400 if (protocol == 'plain' or jitter > 0) else 230
    pos = {tid: 1000 for tid in range(len(CONTIGS))}
    for s in range(n_sites):
        tid = rng.randrange(len(CONTIGS))
        if spacing == 230 and s > 0 and rng.random() < 0.25:
            pos[tid] += rng.choice([1, 2, 3])  # neighbouring site, must stay separate
        else:
            pos[tid] += spacing + rng.randint(0, 1500)
        sites.append((tid, pos[tid]))

    budget = rng.randint(40, 420)
    reads = []
    truth = {}
    fragment_index = 0
    combos = [(c, s, strand) for c in range(n_cells) for s in range(n_sites) for strand in (False, True)]
    rng.shuffle(combos)
    for cell, s, strand in combos:
        if fragment_index >= budget:
            break
        tid, coordinate = sites[s]
        # 1..6 UMIs on this site, some at distance 1 / 2 of each other, some with an N
        umis = []
        for u in range(rng.randint(1, 6)):
            if umis and rng.random() < 0.5:
                umi = umi_neighbour(rng, rng.choice(umis).replace('N', 'A'), rng.choice([1, 2]))
            else:
                umi = rand_seq(rng, umi_len)
            if rng.random() < 0.15:
                i = rng.randrange(umi_len)
                umi = umi[:i] + 'N' + umi[i + 1:]
            umis.append(umi)
        for umi in umis:
            for copy in range(rng.randint(1, 5)):
                observed_umi = umi
                if rng.random() < 0.12:  # sequencing error in the UMI
                    observed_umi = umi_neighbour(rng, umi.replace('N', 'C'), 1)
                name = f'F{fragment_index:05d}_c{cell}_s{s}_{"rev" if strand else "fwd"}_{umi}'
                fragment_index += 1
                l1, l2 = rng.randint(30, 45), rng.randint(30, 45)
                fragment_length = rng.randint(90, 200)
                shift = rng.randint(0, jitter) if jitter else 0
                clip = rng.choice([0, 0, 0, 2, 5]) if protocol != 'plain' else 0
                far_clip = rng.choice([0, 0, 3])
                mq1 = rng.choice([60, 60, 60, 60, 42, 30, 17, 3])
                mq2 = rng.choice([60, 60, 60, 42, 20, 0])
                seq1 = rand_seq(rng, l1)
                seq2 = mutate(rng, rand_seq(rng, l2), rng.choice([0, 0, 1, 2]))
                tags = {'SM': f'LIB{lib}_{cell}', 'RX': observed_umi, 'BC': f'BC{cell:03d}', 'bc': f'BC{cell:03d}',
                        'LY': f'LIB{lib}'}
                if mx is not None:
                    tags['MX'] = mx
                if not strand:
                    # forward: the unclipped start of R1 defines the site
                    anchor = coordinate + shift
                    if protocol == 'nla':
                        seq1 = 'CATG' + seq1[4:]
                    seq1 = mutate(rng, seq1, rng.choice([0, 0, 1, 2]), protect_start=4)
                    cigar1 = (f'{clip}S' if clip else '') + f'{l1 - clip - far_clip}M' + (f'{far_clip}S' if far_clip else '')
                    start1 = anchor + clip
                    start2 = anchor + fragment_length - l2
                    r1 = make_read(header, name, tid, start1, cigar1, seq1, False, True, mq1, start2, True, tags)
                    r2 = make_read(header, name, tid, start2, f'{l2}M', seq2, True, False, mq2, start1, False, tags)
                else:
                    # reverse: the unclipped end of R1 defines the site
                    anchor = coordinate - shift
                    if protocol == 'nla':
                        seq1 = seq1[:-4] + 'CATG'
                    seq1 = mutate(rng, seq1, rng.choice([0, 0, 1, 2]), protect_end=4)
                    cigar1 = (f'{far_clip}S' if far_clip else '') + f'{l1 - clip - far_clip}M' + (f'{clip}S' if clip else '')
                    start1 = anchor - clip - (l1 - clip - far_clip)
                    start2 = anchor - fragment_length
                    r1 = make_read(header, name, tid, start1, cigar1, seq1, True, True, mq1, start2, False, tags)
                    r2 = make_read(header, name, tid, start2, f'{l2}M', seq2, False, False, mq2, start1, True, tags)
                reads += [r1, r2]
                truth[name] = dict(cell=cell, tid=tid, strand=strand, anchor=anchor, site=s, umi=observed_umi)

    # A few fragments which are not valid, they are no part of the property
    for i in range(rng.randint(0, 4)):
        tid, coordinate = rng.choice(sites)
        name = f'INVALID{i}'
        tags = {'SM': f'LIB{lib}_0', 'RX': rand_seq(rng, umi_len), 'BC': 'BC000', 'bc': 'BC000', 'LY': f'LIB{lib}'}
        seq1 = 'GGGG' + rand_seq(rng, 30)
        r1 = make_read(header, name, tid, coordinate, '34M', seq1, False, True, 60, coordinate + 80, True, tags, qcfail=True)
        r2 = make_read(header, name, tid, coordinate + 80, '30M', rand_seq(rng, 30), True, False, 60, coordinate, False, tags,
                       qcfail=True)
        reads += [r1, r2]

    rng.shuffle(reads)
    reads.sort(key=lambda r: (r.reference_id, r.reference_start))  # stable: ties stay shuffled
    return config, reads, truth


# ----------------------------------------------------------------------------------------------
# Running the code under test
# ----------------------------------------------------------------------------------------------
def write_bam(path, header, reads):
    with pysam.AlignmentFile(path, 'wb', header=header) as out:
        for r in reads:
            out.write(r)
    pysam.index(path)


def run_tagging(config, in_path, out_path, header):
    """Tag in_path, write the result (in emission order) to out_path, return list of raw record strings"""
    fragment_class, molecule_class = {'nla': (NlaIIIFragment, NlaIIIMolecule),
                                      'chic': (CHICFragment, CHICMolecule),
                                      'plain': (Fragment, Molecule)}[config['protocol']]
    fragment_args = {'umi_hamming_distance': config['hd'], 'assignment_radius': config['radius']}
    molecule_args = {}
    if config['cap'] is not None:
        molecule_args['max_associated_fragments'] = config['cap']
    iterator_args = {}
    if config['eject'] != 'default':
        iterator_args['check_eject_every'] = config['eject']
    first_repr = None
    with pysam.AlignmentFile(in_path) as alignments, pysam.AlignmentFile(out_path, 'wb', header=header) as out:
        for i, molecule in enumerate(MoleculeIterator(alignments,
                                                      molecule_class=molecule_class,
                                                      fragment_class=fragment_class,
                                                      molecule_class_args=molecule_args,
                                                      fragment_class_args=fragment_args,
                                                      pooling_method=config['pooling'],
                                                      **iterator_args)):
            molecule.write_tags()
            molecule.set_meta('mi', i)
            molecule.write_pysam(out)
            if first_repr is None:
                first_repr = repr(molecule).split('\n')[1].strip()
    records = []
    with pysam.AlignmentFile(out_path) as f:
        for r in f:
            records.append(r)
    return records, first_repr


# ----------------------------------------------------------------------------------------------
# Oracle
# ----------------------------------------------------------------------------------------------
def connected(umis, hd):
    umis = list(umis)
    seen = {0}
    todo = [0]
    while todo:
        i = todo.pop()
        for j in range(len(umis)):
            if j not in seen and (umis[i] == umis[j] or (hd > 0 and own_distance(umis[i], umis[j]) <= hd)):
                seen.add(j)
                todo.append(j)
    return len(seen) == len(umis)


def analyse(lib, label, config, records, truth, exact_classes=True):
    """Check the property on one tagged output. Returns {fragment name: (molecule key, is_duplicate, RC, af, TF)}"""
    per_fragment = collections.defaultdict(list)
    for r in records:
        if r.query_name in truth:
            per_fragment[r.query_name].append(r)
    state = {}
    molecules = collections.defaultdict(list)
    for name in truth:
        rs = per_fragment.get(name, [])
        if len(rs) != 2 or {r.is_read1 for r in rs} != {True, False}:
            problem(lib, f'{label}: valid fragment {name} is written {len(rs)} times instead of once (R1+R2)')
            continue
        values = set()
        for r in rs:
            values.add((r.get_tag('mi') if r.has_tag('mi') else None, r.is_duplicate,
                        r.get_tag('RC') if r.has_tag('RC') else None,
                        r.get_tag('af') if r.has_tag('af') else None,
                        r.get_tag('TF') if r.has_tag('TF') else None,
                        r.get_tag('RR') if r.has_tag('RR') else None))
        if len(values) != 1:
            problem(lib, f'{label}: mates of {name} disagree: {values}')
            continue
        v = values.pop()
        if v[0] is None:
            problem(lib, f'{label}: {name} has no molecule')
            continue
        state[name] = v
        molecules[v[0]].append(name)

    radius, hd, cap = config['radius'], config['hd'], config['cap']
    for mi, names in molecules.items():
        size = len(names)
        t = [truth[n] for n in names]
        if len({(x['cell'], x['tid'], x['strand']) for x in t}) != 1:
            problem(lib, f'{label}: molecule {mi} mixes cells / strands / contigs: {names}')
        anchors = [x['anchor'] for x in t]
        if max(anchors) - min(anchors) > radius:
            problem(lib, f'{label}: molecule {mi} mixes cut sites further apart than the radius {radius}: {names}')
        if config['protocol'] == 'nla' and len(set(anchors)) != 1:
            problem(lib, f'{label}: NLA molecule {mi} mixes cut sites: {names}')
        if not connected([x['umi'] for x in t], hd):
            problem(lib, f'{label}: UMIs of molecule {mi} are not linked within distance {hd}: {names}')
        if cap is not None and size > cap:
            problem(lib, f'{label}: molecule {mi} has {size} fragments, cap is {cap}')
        primaries = [n for n in names if not state[n][1]]
        if len(primaries) != 1:
            problem(lib, f'{label}: molecule {mi} of size {size} has {len(primaries)} fragments not flagged duplicate')
        if sorted(state[n][2] for n in names) != list(range(size)):
            problem(lib, f'{label}: RC of molecule {mi} of size {size}: {sorted(str(state[n][2]) for n in names)}')
        if any(state[n][3] != size for n in names):
            problem(lib, f'{label}: af of molecule {mi} of size {size}: {[state[n][3] for n in names]}')
        tfs = {state[n][4] for n in names}
        if len(tfs) != 1 or (cap is None and tfs != {size}) or (cap is not None and min(tfs) < size):
            problem(lib, f'{label}: TF of molecule {mi} of size {size}: {tfs}')

    if hd == 0 and exact_classes:
        classes = collections.defaultdict(set)
        for name, x in truth.items():
            site_key = x['site'] if config['jitter'] else x['anchor']
            classes[(x['cell'], x['tid'], x['strand'], site_key, x['umi'])].add(name)
        found = collections.defaultdict(list)
        for mi, names in molecules.items():
            x = truth[names[0]]
            site_key = x['site'] if config['jitter'] else x['anchor']
            found[(x['cell'], x['tid'], x['strand'], site_key, x['umi'])].append(set(names))
        for key, members in classes.items():
            parts = found.get(key, [])
            union = set().union(*parts) if parts else set()
            if union != members:
                problem(lib, f'{label}: class {key} expected {sorted(members)} found {[sorted(p) for p in parts]}')
                continue
            sizes = sorted((len(p) for p in parts), reverse=True)
            if cap is None:
                if len(parts) != 1:
                    problem(lib, f'{label}: class {key} is split over {len(parts)} molecules')
            else:
                expected = [min(cap, len(members))] + [1] * max(0, len(members) - cap)
                if sizes != expected:
                    problem(lib, f'{label}: class {key} with cap {cap}: molecule sizes {sizes}, expected {expected}')
                else:
                    tfs = sorted(state[next(iter(p))][4] for p in parts)
                    expected_tf = sorted([len(members)] + [1] * max(0, len(members) - cap))
                    if tfs != expected_tf:
                        problem(lib, f'{label}: class {key} with cap {cap}: TF per molecule {tfs}, expected {expected_tf}')
    partition = {name: frozenset(molecules[v[0]]) for name, v in state.items()}
    return state, partition


def main():
    rng = random.Random(20260928)
    header = pysam.AlignmentHeader.from_dict({'HD': {'VN': '1.6', 'SO': 'coordinate'},
                                              'SQ': [{'SN': n, 'LN': l} for n, l in CONTIGS]})
    n_fragments = 0
    n_multi = 0
    with tempfile.TemporaryDirectory(prefix='c06_demo_') as tmp:
        for lib in range(N_LIBRARIES):
            config, reads, truth = simulate_library(rng, lib, header)
            n_fragments += len(truth)
            clean = os.path.join(tmp, f'lib{lib}.bam')
            write_bam(clean, header, reads)
            digest('LIBRARY', lib, sorted(config.items(), key=str), len(truth))

            # 1. clean input
            records, first_repr = run_tagging(config, clean, os.path.join(tmp, f'lib{lib}.tagged.bam'), header)
            digest('CLEAN', first_repr, *[r.to_string() for r in records])
            state, partition = analyse(lib, 'clean', config, records, truth)

            # 2. history: the input already carries duplicate flags and RC / af / TF tags of some earlier run
            dirty_reads = []
            with pysam.AlignmentFile(clean) as f:
                for r in f:
                    if rng.random() < 0.5:
                        r.is_duplicate = True
                    if rng.random() < 0.5:
                        r.set_tag('RC', rng.randint(0, 9))
                        r.set_tag('af', rng.randint(1, 9))
                        r.set_tag('TF', rng.randint(1, 9))
                    dirty_reads.append(r)
            dirty = os.path.join(tmp, f'lib{lib}.dirty.bam')
            write_bam(dirty, header, dirty_reads)
            records_dirty, _ = run_tagging(config, dirty, os.path.join(tmp, f'lib{lib}.dirty.tagged.bam'), header)
            digest('DIRTY', *[r.to_string() for r in records_dirty])
            state_dirty, partition_dirty = analyse(lib, 'history', config, records_dirty, truth)
            if partition_dirty != partition:
                problem(lib, 'molecules depend on the duplicate flags / RC tags the input carried')
            if {n: v[1:5] for n, v in state_dirty.items()} != {n: v[1:5] for n, v in state.items()}:
                problem(lib, 'duplicate flags / RC / af / TF depend on the duplicate flags / RC tags the input carried')

            # 3. re-tag the tagged output (coordinate sorted again)
            resorted = sorted(records, key=lambda r: (r.reference_id, r.reference_start))
            retag_in = os.path.join(tmp, f'lib{lib}.retag_in.bam')
            write_bam(retag_in, header, resorted)
            records_retag, _ = run_tagging(config, retag_in, os.path.join(tmp, f'lib{lib}.retagged.bam'), header)
            digest('RETAG', *[r.to_string() for r in records_retag])
            state_retag, partition_retag = analyse(lib, 'retag', config, records_retag, truth)
            if config['cap'] is None and config['hd'] == 0:
                # the molecules are fully determined, so the complete result must be reproduced
                if partition_retag != partition:
                    problem(lib, 're-tagging changed the molecules')
                if {n: v[1:5] for n, v in state_retag.items()} != {n: v[1:5] for n, v in state.items()}:
                    problem(lib, 're-tagging changed duplicate flags / RC / af / TF')
            # count molecules with duplicates (informative only)
            for members in set(partition.values()):
                if len(members) > 1:
                    n_multi += 1

    # Things the property does not speak about: argument validation and text representations
    for label, call in (('cap0', lambda: Molecule(max_associated_fragments=0)),
                        ('buffer0', lambda: MoleculeIterator([], max_buffer_size=0))):
        try:
            call()
            digest('PROBE', label, 'accepted')
        except Exception as e:
            digest('PROBE', label, type(e).__name__, str(e))

    print(f'{N_LIBRARIES} libraries, {n_fragments} valid fragments, {n_multi} molecules with more than one fragment')
    print('BEHAVIOUR DIGEST', DIGEST.hexdigest())
    if PROBLEMS:
        for p in PROBLEMS[:40]:
            print('VIOLATION', p)
        print(f'PROPERTY VIOLATED ({len(PROBLEMS)} problems)')
        return 1
    print('PROPERTY HOLDS')
    return 0


if __name__ == '__main__':
    sys.exit(main())
