#!/usr/bin/env python3
"""Independent check of property C03 (barcode correction assigns the unique
nearest whitelisted barcode or nothing) plus a digest over all raw outputs."""
import gzip
import hashlib
import itertools
import os
import random
import sys
import tempfile

import singlecellmultiomics
from singlecellmultiomics.barcodeFileParser.barcodeFileParser import BarcodeParser

ALPHABET = 'ACGTN'
RAW = []          # everything observable that goes into the digest
FAILURES = []
N_CHECKED = 0


def raw(*items):
    RAW.append('\t'.join(str(x) for x in items))


def hamming(a, b):
    return sum(x != y for x, y in zip(a, b))


def oracle(whitelist, k, observed):
    """whitelist: dict barcode -> index. Brute force, no enumeration tricks."""
    if observed in whitelist:
        return (whitelist[observed], observed, 0)
    dists = sorted((hamming(observed, bc), bc) for bc in whitelist if len(bc) == len(observed))
    if not dists:
        return (None, None, None)
    d, bc = dists[0]
    if d > k:
        return (None, None, None)
    if len(dists) > 1 and dists[1][0] == d:
        return (None, None, None)
    return (whitelist[bc], bc, d)


def check(parser, alias, whitelist, k, observed, label):
    global N_CHECKED
    got = parser.getIndexCorrectedBarcodeAndHammingDistance(observed, alias)
    got = tuple(got)
    want = oracle(whitelist, k, observed)
    N_CHECKED += 1
    raw('LOOKUP', label, alias, k, observed, repr(got))
    if got != want:
        FAILURES.append((label, alias, k, observed, got, want))


def write_whitelist(path, entries, layout):
    """entries: list of (barcode, index). layout: bc_first | idx_first | single | bc_first_space"""
    opener = gzip.open if path.endswith('.gz') else open
    with opener(path, 'wt') as f:
        for bc, idx in entries:
            if layout == 'bc_first':
                f.write(f'{bc}\t{idx}\n')
            elif layout == 'bc_first_space':
                f.write(f'{bc} {idx}\n')
            elif layout == 'idx_first':
                f.write(f'{idx}\t{bc}\n')
            elif layout == 'single':
                f.write(f'{bc}\n')
            else:
                raise ValueError(layout)


def expected_mapping(entries, layout):
    if layout == 'single':
        return {bc: i + 1 for i, (bc, _) in enumerate(entries)}
    return {bc: idx for bc, idx in entries}


def random_whitelist(rng, length, n, with_n, near_dup):
    letters = ALPHABET if with_n else 'ACGT'
    chosen = []
    seen = set()
    while len(chosen) < n:
        if near_dup and chosen and rng.random() < 0.5:
            base = list(rng.choice(chosen))
            pos = rng.randrange(length)
            base[pos] = rng.choice(letters)
            bc = ''.join(base)
        else:
            bc = ''.join(rng.choice(letters) for _ in range(length))
        if bc in seen:
            continue
        seen.add(bc)
        chosen.append(bc)
    return chosen


def main():
    rng = random.Random(20260928)
    tmp = tempfile.mkdtemp(prefix='c03_demo_')

    # ------------------------------------------------------------------
    # 1. exhaustive, short barcodes, own whitelist directory
    # ------------------------------------------------------------------
    wl_dir = os.path.join(tmp, 'whitelists')
    os.makedirs(wl_dir)
    specs = [
        # alias,       ext,      layout,           len, n, with_n, near_dup
        ('a_plain',    '.bc',    'bc_first',        3,  4, False, False),
        ('b_neardup',  '.bc',    'bc_first',        3,  6, False, True),
        ('c_withN',    '.bc',    'idx_first',       3,  5, True,  True),
        ('d_single',   '.bc',    'single',          3,  5, False, True),
        ('e_gz',       '.bc.gz', 'bc_first',        4,  8, True,  True),
        ('f_space',    '.bc',    'bc_first_space',  4,  6, False, False),
        ('g_idxfirst', '.tsv',   'idx_first',       4, 10, True,  True),
        ('h_dense',    '.bc',    'bc_first',        3, 20, True,  True),
        ('i_two',      '.bc',    'bc_first',        4,  2, False, True),
        ('j_one',      '.bc',    'single',          4,  1, False, False),
        ('k_named',    '.bc',    'idx_first',       3,  5, False, True),
        ('l_lazy',     '.bc',    'bc_first',        4,  7, True,  True),
    ]
    whitelists = {}
    lengths = {}
    for alias, ext, layout, length, n, with_n, near_dup in specs:
        bcs = random_whitelist(rng, length, n, with_n, near_dup)
        if alias == 'k_named':
            entries = [(bc, f'cell{i}x') for i, bc in enumerate(bcs)]   # non numeric index
        else:
            entries = [(bc, 100 + i) for i, bc in enumerate(bcs)]
        write_whitelist(os.path.join(wl_dir, alias + ext), entries, layout)
        whitelists[alias] = expected_mapping(entries, layout)
        lengths[alias] = length

    for k in (0, 1, 2):
        for lazy in (None, '*', ('l_lazy', 'c_withN')):
            parser = BarcodeParser(barcodeDirectory=wl_dir, hammingDistanceExpansion=k, lazyLoad=lazy)
            label = f'exhaustive/lazy={lazy!r}'
            for alias in sorted(whitelists):
                if lazy is not None and alias not in ('l_lazy', 'c_withN', 'a_plain', 'h_dense', 'e_gz'):
                    continue   # keep the run time small
                for observed in map(''.join, itertools.product(ALPHABET, repeat=lengths[alias])):
                    check(parser, alias, whitelists[alias], k, observed, label)
            # free aspect: order in which the aliases were loaded
            if lazy is None:
                order = list(parser.getBarcodeMapping().keys())
                raw('ALIAS_ORDER_IS_SORTED', k, order == sorted(order))
                print(f'k={k} alias order: {order}')

    # in-memory whitelist (addBarcode + expand), as the unit tests do
    for k in (0, 1, 2):
        parser = BarcodeParser()
        wl = {'AAA': 'TEST1', 'AAT': 'TEST2', 'TTT': 'TEST3', 'NAC': 'TEST4'}
        for bc, idx in wl.items():
            parser.addBarcode(barcodeFileAlias='mem', barcode=bc, index=idx)
        parser.expand(k, 'mem')
        for observed in map(''.join, itertools.product(ALPHABET, repeat=3)):
            check(parser, 'mem', wl, k, observed, 'in-memory')

    # ------------------------------------------------------------------
    # 2. sampled, shipped 8-16 nt whitelists (lazily loaded)
    # ------------------------------------------------------------------
    pkg = os.path.dirname(os.path.realpath(singlecellmultiomics.__file__))
    for sub, aliases in (('modularDemultiplexer/barcodes', ('celseq1', 'celseq2', 'maya_384NLA')),
                         ('modularDemultiplexer/indices', ('illumina_i7_indices', 'illumina_RP_indices'))):
        directory = os.path.join(pkg, sub)
        for k in (0, 1, 2):
            parser = BarcodeParser(barcodeDirectory=directory, hammingDistanceExpansion=k, lazyLoad='*')
            for alias in aliases:
                path = [p for p in os.listdir(directory) if p.split('.')[0] == alias]
                if not path:
                    continue
                # own parse of the shipped file
                wl = {}
                with open(os.path.join(directory, path[0])) as f:
                    for i, line in enumerate(f):
                        parts = line.split()
                        if len(parts) == 1:
                            wl[parts[0]] = i + 1
                        elif all(c in 'ACGTNX' for c in parts[0]):
                            wl[parts[0]] = parts[1]
                        else:
                            wl[parts[1]] = parts[0]
                wl = {bc: (int(v) if isinstance(v, str) and v.isdigit() else v) for bc, v in wl.items()}
                members = sorted(wl)
                for _ in range(60):
                    base = list(rng.choice(members))
                    nmut = rng.choice((0, 1, 1, 2, 2, 3))
                    for pos in rng.sample(range(len(base)), nmut):
                        base[pos] = rng.choice(ALPHABET)
                    check(parser, alias, wl, k, ''.join(base), 'shipped/' + sub.split('/')[-1])

    # ------------------------------------------------------------------
    # 3. aspects the property does NOT constrain (only recorded, never judged)
    # ------------------------------------------------------------------
    def scrub(text):
        return str(text).replace(tmp, '<TMP>')

    odd_dir = os.path.join(tmp, 'odd')
    os.makedirs(odd_dir)
    commented = os.path.join(odd_dir, 'commented.bc')
    with open(commented, 'w') as f:
        f.write('# plate 7 barcodes\nAAC\t1\n\nGGT\t2\n   \nTTA\t3\n')
    threecol = os.path.join(odd_dir, 'threecol.bc')
    with open(threecol, 'w') as f:
        f.write('AAC\t1\nGGT\t2\nTTA\t3\textra\nCCA\t4\n')

    for name, path in (('commented', commented), ('threecol', threecol)):
        parser = BarcodeParser(hammingDistanceExpansion=1)
        try:
            parser.parse_barcode_file(path)
            outcome = 'parsed'
        except Exception as e:  # noqa
            outcome = f'{type(e).__name__}: {scrub(e)}'
        registered = dict(parser.getBarcodeMapping().get(name, {}))
        raw('ODD_FILE', name, outcome, sorted(registered.items()))
        print(f'odd file {name}: {outcome}; registered={sorted(registered.items())}')

    try:
        parser = BarcodeParser(barcodeDirectory=wl_dir, hammingDistanceExpansion=-1)
        outcome = 'constructed; a_plain has %d barcodes' % len(parser['a_plain'])
    except Exception as e:  # noqa
        outcome = f'{type(e).__name__}: {scrub(e)}'
    raw('NEGATIVE_K', outcome)
    print('negative k:', outcome)

    parser = BarcodeParser(barcodeDirectory=wl_dir, hammingDistanceExpansion=0)
    paths = getattr(parser, 'barcodeFilePaths', None)
    paths = None if paths is None else sorted((a, scrub(p)) for a, p in paths.items())
    raw('EXTRA_ATTRIBUTE_barcodeFilePaths', paths)
    print('barcodeFilePaths:', paths)

    # ------------------------------------------------------------------
    digest = hashlib.sha256('\n'.join(RAW).encode()).hexdigest()
    print(f'{N_CHECKED} lookups compared with the oracle, {len(FAILURES)} disagreements')
    print(f'BEHAVIOUR DIGEST {digest}')
    if FAILURES:
        for failure in FAILURES[:20]:
            print('MISMATCH', failure)
        print('PROPERTY VIOLATED')
        return 1
    print('PROPERTY HOLDS')
    return 0


if __name__ == '__main__':
    sys.exit(main())
