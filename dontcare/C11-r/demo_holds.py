#!/usr/bin/env python3
# -*- coding: utf-8 -*-
"""
Independent check of property C11 (count tables count exactly the reads passing
the filters, at documented weights) for
singlecellmultiomics.bamProcessing.bamToCountTable.create_count_table

The oracle below works on the *records the script generated itself* (it never
asks pysam or the package what a read looks like), builds the expected
sample x feature table and compares it with the table produced by the package.

Prints "PROPERTY HOLDS" and exits 0 when every comparison succeeded, and
"BEHAVIOUR DIGEST <sha256>" over all raw outputs (stdout of the tool, written
files, tables, exceptions raised for inputs outside the scope of the property)
"""
import contextlib
import collections
import gzip
import hashlib
import io
import math
import os
import random
import shutil
import sys
import tempfile
from types import SimpleNamespace

import pandas as pd
import pysam

import singlecellmultiomics.bamProcessing.bamToCountTable as b2c

CONTIGS = [('chr1', 6000), ('chr2', 4000), ('chrUn_alt', 2000)]
CIGARS = ['40M', '36M', '10S30M', '30M10S', '20M2I18M', '15M3D25M',
          '5S15M1I10M2D10M4S', '25M1D15M', '8S32M', '12M1I27M', '50M']
SAMPLES = ['cellA', 'cellB', 'cellC']

digest = hashlib.sha256()
failures = []
n_checked = 0
n_probe = 0
n_nonempty = 0
n_cells = 0


def feed(label, data):
    if isinstance(data, str):
        data = data.encode()
    digest.update(label.encode() + b'\x00' + data + b'\x01')


# ----------------------------------------------------------------------------
# Generation of synthetic tagged reads
# ----------------------------------------------------------------------------
def parse_cigar(cigar):
    ops, num = [], ''
    for c in cigar:
        if c.isdigit():
            num += c
        else:
            ops.append((c, int(num)))
            num = ''
    return ops


def ref_len(cigar):
    return sum(n for op, n in parse_cigar(cigar) if op in 'MD')


def query_len(cigar):
    return sum(n for op, n in parse_cigar(cigar) if op in 'MIS')


def random_tags(rng):
    tags = {}
    if rng.random() < 0.9:
        tags['SM'] = rng.choice(SAMPLES)
    if rng.random() < 0.8:
        tags['DS'] = rng.randint(1, 3000)
    if rng.random() < 0.8:
        tags['RC'] = rng.randint(1, 4)
    if rng.random() < 0.15:
        tags['RR'] = rng.choice(['NoCutSite', 'Mapq'])
    n_alt = None
    if rng.random() < 0.3:
        n_alt = rng.randint(1, 3)
        alts = []
        only_alt_contigs = rng.random() < 0.4
        for _ in range(n_alt):
            c = 'chrUn_alt' if only_alt_contigs else rng.choice(['chr1', 'chr2', 'chrUn_alt'])
            alts.append(f'{c},{rng.choice("+-")}{rng.randint(1, 1500)},40M,{rng.randint(0, 3)}')
        tags['XA'] = ';'.join(alts) + ';'
    if rng.random() < 0.4:
        tags['NH'] = (n_alt + 1) if n_alt is not None else rng.randint(1, 4)
    r = rng.random()
    if r < 0.6:
        tags['mp'] = 'unique'
    elif r < 0.8:
        tags['mp'] = 'multi'
    if rng.random() < 0.8:
        tags['NM'] = rng.randint(0, 5)
    return tags


def make_reads(rng, n_fragments, prefix):
    reads = []
    for fi in range(n_fragments):
        kind = rng.choices(['single', 'pair', 'pair_one_unmapped', 'pair_unmapped', 'single_unmapped'],
                           weights=[3, 6, 2, 1, 1])[0]
        name = f'{prefix}_{fi}'
        contig_i = rng.choices([0, 1, 2], weights=[5, 4, 1])[0]
        contig_len = CONTIGS[contig_i][1]
        base_tags = random_tags(rng)

        def mapped_record(flag_extra, near=None):
            cigar = rng.choice(CIGARS)
            if near is None:
                pos = rng.randint(0, contig_len - 200)
            else:
                pos = min(contig_len - 100, near + rng.randint(0, 120))
            tags = dict(base_tags)
            if rng.random() < 0.3:   # the mates do not always carry the same values
                tags = random_tags(rng)
            flag = flag_extra
            if rng.random() < 0.5:
                flag |= 0x10
            if rng.random() < 0.1:
                flag |= 0x200
            if rng.random() < 0.2:
                flag |= 0x400
            if rng.random() < 0.05:
                flag |= 0x100
            if rng.random() < 0.05:
                flag |= 0x800
            return dict(name=name, flag=flag, tid=contig_i, pos=pos, cigar=cigar,
                        mapq=rng.choice([0, 3, 9, 10, 20, 29, 30, 42, 60]), tags=tags)

        def unmapped_record(flag_extra, placed_at=None):
            tags = {k: v for k, v in base_tags.items() if k in ('SM', 'RC', 'mp')}
            rec = dict(name=name, flag=flag_extra | 0x4, tid=-1, pos=-1, cigar=None, mapq=0, tags=tags)
            if placed_at is not None:
                rec['tid'], rec['pos'] = placed_at
            if rng.random() < 0.1:
                rec['flag'] |= 0x200
            return rec

        if kind == 'single':
            reads.append(mapped_record(0))
        elif kind == 'single_unmapped':
            reads.append(unmapped_record(0))
        elif kind == 'pair':
            proper = 0x2 if rng.random() < 0.7 else 0
            r1 = mapped_record(0x1 | 0x40 | proper)
            r2 = mapped_record(0x1 | 0x80 | proper, near=r1['pos'])
            reads += [r1, r2]
        elif kind == 'pair_one_unmapped':
            first_mapped = rng.random() < 0.5
            if first_mapped:
                r1 = mapped_record(0x1 | 0x40 | 0x8)
                r2 = unmapped_record(0x1 | 0x80, placed_at=(r1['tid'], r1['pos']))
            else:
                r2 = mapped_record(0x1 | 0x80 | 0x8)
                r1 = unmapped_record(0x1 | 0x40, placed_at=(r2['tid'], r2['pos']))
            reads += [r1, r2]
        else:
            reads += [unmapped_record(0x1 | 0x40 | 0x8), unmapped_record(0x1 | 0x80 | 0x8)]
    for i, r in enumerate(reads):
        r['uid'] = f'{prefix}:{i}'
    return reads


def write_bam(path, reads, rng):
    header = {'HD': {'VN': '1.6', 'SO': 'coordinate'},
              'SQ': [{'SN': n, 'LN': l} for n, l in CONTIGS]}
    ordered = sorted(reads, key=lambda r: (r['tid'] if r['tid'] >= 0 else 10 ** 6, r['pos']))
    by_name = collections.defaultdict(list)
    for r in reads:
        by_name[r['name']].append(r)
    with pysam.AlignmentFile(path, 'wb', header=header) as out:
        for r in ordered:
            a = pysam.AlignedSegment(out.header)
            a.query_name = r['name']
            qlen = query_len(r['cigar']) if r['cigar'] else 30
            a.query_sequence = ''.join(rng.choice('ACGT') for _ in range(qlen))
            a.query_qualities = pysam.qualitystring_to_array('I' * qlen)
            a.flag = r['flag']
            a.reference_id = r['tid']
            a.reference_start = r['pos']
            a.mapping_quality = r['mapq']
            if r['cigar']:
                a.cigarstring = r['cigar']
            mates = [m for m in by_name[r['name']] if m is not r]
            if mates:
                a.next_reference_id = mates[0]['tid']
                a.next_reference_start = mates[0]['pos']
                if mates[0]['flag'] & 0x10:
                    a.flag |= 0x20
            for k, v in r['tags'].items():
                a.set_tag(k, v)
            out.write(a)
    pysam.index(path)


# ----------------------------------------------------------------------------
# The oracle
# ----------------------------------------------------------------------------
def norm(x):
    # an absent tag: None, or the missing value pandas makes of it in a label
    if x is None or (not isinstance(x, str) and pd.isna(x)):
        return 'None'
    return str(x)


def passes_filters(r, o, blacklist):
    f = r['flag']
    if o['r1only'] and f & 0x80:
        return False
    if o['r2only'] and f & 0x40:
        return False
    if o['filterMP'] and r['tags'].get('mp') != 'unique':
        return False
    if f & 0x4 or f & 0x200:
        return False
    if r['mapq'] < o['minMQ']:
        return False
    if o['proper_pairs_only'] and not f & 0x2:
        return False
    ops = [op for op, n in parse_cigar(r['cigar'])]
    if o['no_indels'] and ('I' in ops or 'D' in ops):
        return False
    if o['no_softclips'] and 'S' in ops:
        return False
    if o['max_base_edits'] is not None and 'NM' in r['tags'] and r['tags']['NM'] > o['max_base_edits']:
        return False
    if o['filterXA'] and 'XA' in r['tags']:
        hits = [h for h in r['tags']['XA'].split(';') if h]
        if any(not h.split(',')[0].endswith('_alt') for h in hits):
            return False
    if o['dedup'] and ('RR' in r['tags'] or f & 0x400):
        return False
    if blacklist:
        contig = CONTIGS[r['tid']][0]
        start, end = r['pos'], r['pos'] + ref_len(r['cigar'])
        for c, s, e in blacklist:
            if c == contig and start < e and end > s:
                return False
    return True


def weight(r, o):
    if o['r1only'] or o['r2only']:
        w = 1.0
    elif o['doNotDivideFragments']:
        w = 1.0
    else:
        w = 0.5 if (r['flag'] & 0x1 and not r['flag'] & 0x8) else 1.0
    if o['divideMultimapping']:
        if 'XA' in r['tags']:
            w /= (len([h for h in r['tags']['XA'].split(';') if h]) + 1)  # alternative hits + this one
        elif 'NH' in r['tags']:
            w /= r['tags']['NH']
    return w


def value_of(r, tag):
    if tag in ('chrom', 'reference_name'):
        return CONTIGS[r['tid']][0]
    if tag == 'mapping_quality':
        return r['mapq']
    return r['tags'].get(tag)


def expected_table(read_sets, o, blacklist, bed):
    table = collections.defaultdict(float)
    contributions = collections.defaultdict(list)
    for reads in read_sets:
        for r in reads:
            if r['tid'] < 0:
                continue
            if o['contig'] is not None and CONTIGS[r['tid']][0] != o['contig']:
                continue
            if not passes_filters(r, o, blacklist):
                continue
            sample = tuple(norm(value_of(r, t)) for t in o['sampleTags'])
            w = weight(r, o)
            feats = o['features']
            incs = []
            if o['joined']:
                if o['byValue'] is not None:
                    key = tuple(norm(value_of(r, t)) for t in feats if t != o['byValue'])
                    v = value_of(r, o['byValue'])
                    incs.append((key, float(v) if v is not None else 0.0))
                else:
                    incs.append((tuple(norm(value_of(r, t)) for t in feats), w))
            else:
                for t in feats:
                    incs.append(((norm(value_of(r, t)),), w))
            if bed is None:
                regions = [()]
            else:
                contig = CONTIGS[r['tid']][0]
                start, end = r['pos'], r['pos'] + ref_len(r['cigar'])
                regions = [(str(s), str(e), n) for c, s, e, n in bed
                           if c == contig and start < e and end > s
                           and (o['contig'] is None or c == o['contig'])]
            for region in regions:
                for key, inc in incs:
                    table[(sample, key + region)] += inc
                    contributions[r['uid']].append((sample, key + region, inc))
    # The pair rule of the property, checked literally: two mapped and counted mates
    # contribute 1 in total unless division is disabled or one mate is selected
    if (o['joined'] and o['byValue'] is None and bed is None and not o['divideMultimapping']
            and not o['doNotDivideFragments'] and not (o['r1only'] or o['r2only'])):
        for reads in read_sets:
            by_name = collections.defaultdict(list)
            for r in reads:
                by_name[r['name']].append(r)
            for name, mates in by_name.items():
                if len(mates) == 2 and all(m['uid'] in contributions for m in mates):
                    total = sum(inc for m in mates for _, _, inc in contributions[m['uid']])
                    assert abs(total - 1) < 1e-12, (name, total)
    return dict(table)


def observed_table(df):
    table = {}
    for j, col in enumerate(df.columns):
        ckey = tuple(norm(x) for x in (col if isinstance(col, tuple) else (col,)))
        series = df.iloc[:, j]
        for idx, v in zip(df.index, series.values):
            if isinstance(v, float) and math.isnan(v):
                continue
            ikey = tuple(norm(x) for x in (idx if isinstance(idx, tuple) else (idx,)))
            table[(ckey, ikey)] = table.get((ckey, ikey), 0.0) + float(v)
    return table


def parse_noname_table(path, n_sample_tags, n_feat):
    """ Parse a table written with --noNames, the separator is taken from the file """
    opener = gzip.open if path.endswith('.gz') else open
    with opener(path, 'rt') as h:
        lines = [l.rstrip('\n') for l in h if l.strip('\n') != '']
    if not lines:
        return {}
    sep = '\t' if '\t' in lines[0] else ','
    rows = [l.split(sep) for l in lines]
    head = rows[:n_sample_tags]
    table = {}
    for row in rows[n_sample_tags:]:
        ikey = tuple(norm(x) for x in row[:n_feat])
        for j in range(n_feat, len(row)):
            if row[j] == '':
                continue
            # the label of a sample without the tag is written as an empty field or as nan
            ckey = tuple(norm(h[j]) if h[j] not in ('', 'nan') else 'None' for h in head)
            table[(ckey, ikey)] = float(row[j])
    return table


def compare(label, expected, observed):
    global n_checked, n_nonempty, n_cells
    n_checked += 1
    n_nonempty += 1 if expected else 0
    n_cells += len(expected)
    keys = set(expected) | set(observed)
    for k in keys:
        if abs(expected.get(k, 0.0) - observed.get(k, 0.0)) > 1e-9:
            failures.append(f'{label}: {k}: expected {expected.get(k)} observed {observed.get(k)}')
            return False
    return True


# ----------------------------------------------------------------------------
# Running the tool
# ----------------------------------------------------------------------------
def namespace(o, bams, out=None, blacklist_path=None, bed_path=None, no_names=False):
    feats = ','.join(t for t in o['features'])
    return SimpleNamespace(
        alignmentfiles=list(bams), o=out, head=None, bin=None, binTag='DS', sliding=None,
        bedfile=bed_path, showtags=False,
        featureTags=None if o['joined'] else feats,
        joinedFeatureTags=feats if o['joined'] else None,
        byValue=o['byValue'], sampleTags=','.join(o['sampleTags']),
        proper_pairs_only=o['proper_pairs_only'], no_indels=o['no_indels'],
        max_base_edits=o['max_base_edits'], no_softclips=o['no_softclips'], minMQ=o['minMQ'],
        filterXA=o['filterXA'], dedup=o['dedup'], divideMultimapping=o['divideMultimapping'],
        doNotDivideFragments=o['doNotDivideFragments'], contig=o['contig'], blacklist=blacklist_path,
        r1only=o['r1only'], r2only=o['r2only'], filterMP=o['filterMP'], splitFeatures=False,
        featureDelimiter=',', feature_delimiter=',', keepOverBounds=False, bulk=False, noNames=no_names)


def run(label, ns, return_df):
    """ returns (result or None, exception or None); everything observable goes in the digest """
    buf = io.StringIO()
    result, exc = None, None
    try:
        with contextlib.redirect_stdout(buf):
            result = b2c.create_count_table(ns, return_df=return_df)
    except Exception as e:  # noqa
        exc = e
        feed(label + ':exception', f'{type(e).__name__}')
    feed(label + ':stdout', buf.getvalue())
    if isinstance(result, pd.DataFrame):
        feed(label + ':table', result.to_csv())
    elif isinstance(result, str) and os.path.isfile(result):
        if result.endswith('.pickle') or result.endswith('.pickle.gz'):
            feed(label + ':file', pd.read_pickle(result).to_csv())
        elif result.endswith('.gz'):
            with gzip.open(result, 'rb') as h:
                feed(label + ':file', h.read())
        else:
            with open(result, 'rb') as h:
                feed(label + ':file', h.read())
    return result, exc


def random_options(rng, allow_bed=True):
    o = dict(
        r1only=rng.random() < 0.2, r2only=rng.random() < 0.15,
        filterMP=rng.random() < 0.25, minMQ=rng.choice([0, 0, 10, 30]),
        proper_pairs_only=rng.random() < 0.2, no_indels=rng.random() < 0.3,
        max_base_edits=rng.choice([None, None, 0, 2]), no_softclips=rng.random() < 0.3,
        filterXA=rng.random() < 0.3, dedup=rng.random() < 0.4,
        divideMultimapping=rng.random() < 0.35, doNotDivideFragments=rng.random() < 0.4,
        contig=rng.choice([None, None, 'chr1', 'chr2']),
        joined=rng.random() < 0.6, byValue=None,
        sampleTags=rng.choice([['SM'], ['SM'], ['SM'], ['SM', 'mp']]))
    pool = ['chrom', 'reference_name', 'DS', 'RC', 'NH', 'mapping_quality', 'NM']
    o['features'] = rng.sample(pool, rng.choice([1, 1, 2, 3]))
    use_bed = allow_bed and rng.random() < 0.25
    if o['joined'] and not use_bed and rng.random() < 0.3:
        o['byValue'] = rng.choice(['RC', 'NM', 'NH'])
        others = [t for t in o['features'] if t != o['byValue']] or ['chrom']
        o['features'] = others + [o['byValue']]   # the tool appends the value tag in the same way
    return o, use_bed


def random_blacklist(rng, read_sets):
    ends = collections.defaultdict(set)
    for reads in read_sets:
        for r in reads:
            if r['cigar'] and r['tid'] >= 0:
                ends[CONTIGS[r['tid']][0]].add(r['pos'] + ref_len(r['cigar']))
    regions = []
    while len(regions) < rng.randint(2, 5):
        c, l = rng.choice(CONTIGS[:2])
        s = rng.randint(0, l - 500)
        e = s + rng.randint(100, 450)
        # The property does not say on which side a read touching the first base of a
        # blacklisted region falls: such regions are not generated
        if s in ends[c]:
            continue
        regions.append((c, s, e))
    return regions


def random_bed(rng):
    regions = []
    for i in range(rng.randint(2, 6)):
        c, l = rng.choice(CONTIGS)
        s = rng.randint(0, l - 300)
        e = s + rng.randint(1, 1500)
        regions.append((c, s, min(e, l), f'region{i}'))
    return regions


def main():
    rng = random.Random(20260928)
    workdir = tempfile.mkdtemp(prefix='c11_demo_')
    start_dir = os.getcwd()
    os.chdir(workdir)   # relative paths only: the messages of the tool mention the paths
    try:
        # A pool of BAM files
        bam_pool = []
        for bi in range(12):
            reads = make_reads(rng, rng.randint(15, 60), f'b{bi}')
            path = f'in_{bi}.bam'
            write_bam(path, reads, rng)
            bam_pool.append((path, reads))
        # corner case: a file without any mapped read
        reads = [r for r in make_reads(rng, 30, 'bu') if r['flag'] & 0x4 and r['tid'] < 0]
        write_bam('in_unmapped.bam', reads, rng)
        bam_pool.append(('in_unmapped.bam', reads))

        # ------------------------------------------------------------------
        # Part 1: a few hundred random option combinations
        # ------------------------------------------------------------------
        for trial in range(420):
            label = f'trial{trial}'
            n_bams = 2 if rng.random() < 0.15 else 1
            chosen = rng.sample(bam_pool, n_bams)
            o, use_bed = random_options(rng)
            blacklist = bed = None
            bl_path = bed_path = None
            if rng.random() < 0.3:
                blacklist = random_blacklist(rng, [c[1] for c in chosen])
                bl_path = f'{label}.blacklist.bed'
                with open(bl_path, 'w') as h:
                    for c, s, e in blacklist:
                        h.write(f'{c}\t{s}\t{e}\n')
            if use_bed:
                bed = random_bed(rng)
                bed_path = f'{label}.regions.bed'
                with open(bed_path, 'w') as h:
                    for c, s, e, n in bed:
                        h.write(f'{c}\t{s}\t{e}\t{n}\n')
            expected = expected_table([c[1] for c in chosen], o, blacklist, bed)
            n_feat = (len([t for t in o['features'] if t != o['byValue']]) if o['joined'] else 1) + (3 if bed else 0)

            mode = rng.choice(['df', 'df', 'df', 'csv', 'pickle', 'tsv', 'pickle.gz'])
            if mode == 'df':
                ns = namespace(o, [c[0] for c in chosen], None, bl_path, bed_path, no_names=rng.random() < 0.3)
                result, exc = run(label, ns, True)
                if exc is not None:
                    failures.append(f'{label}: unexpected {exc!r}')
                    continue
                compare(label, expected, observed_table(result))
            else:
                out = f'{label}.out.{mode}'
                no_names = True if mode in ('csv', 'tsv') else rng.random() < 0.5
                ns = namespace(o, [c[0] for c in chosen], out, bl_path, bed_path, no_names=no_names)
                result, exc = run(label, ns, False)
                if exc is not None or not os.path.isfile(out):
                    failures.append(f'{label}: no output written {exc!r}')
                    continue
                if mode.startswith('pickle'):
                    compare(label, expected, observed_table(pd.read_pickle(out)))
                else:
                    compare(label, expected, parse_noname_table(out, len(o['sampleTags']), n_feat))

        # ------------------------------------------------------------------
        # Part 2: inputs and usages outside the scope of the property. Whatever the tool
        # does is recorded; when it yields a table, the table has to be the right one.
        # ------------------------------------------------------------------
        global n_probe
        for trial in range(40):
            label = f'probe{trial}'
            chosen = [rng.choice(bam_pool[:12])]
            o, _ = random_options(rng, allow_bed=False)
            o['byValue'] = None
            o['features'] = [t for t in o['features'] if t] or ['chrom']
            kind = ['blacklist_comments', 'blacklist_gz', 'bed_comments', 'missing_bed', 'missing_blacklist',
                    'new_folder', 'named_tsv', 'bed_gz'][trial % 8]
            blacklist = bed = None
            bl_path = bed_path = None
            out = None
            if kind in ('blacklist_comments', 'blacklist_gz'):
                blacklist = random_blacklist(rng, [chosen[0][1]])
                body = '# blacklisted regions\ntrack name=blacklist\n\n' + ''.join(
                    f'{c}\t{s}\t{e}\n' for c, s, e in blacklist) + '\n'
                if kind == 'blacklist_gz':
                    bl_path = f'{label}.blacklist.bed.gz'
                    with gzip.open(bl_path, 'wt') as h:
                        h.write(body)
                else:
                    bl_path = f'{label}.blacklist.bed'
                    with open(bl_path, 'w') as h:
                        h.write(body)
            elif kind in ('bed_comments', 'bed_gz'):
                bed = random_bed(rng)
                body = 'browser position chr1:1-1000\n#chrom\tstart\tend\tname\n' + ''.join(
                    f'{c}\t{s}\t{e}\t{n}\n' for c, s, e, n in bed) + '\n'
                if kind == 'bed_gz':
                    bed_path = f'{label}.regions.bed.gz'
                    with gzip.open(bed_path, 'wt') as h:
                        h.write(body)
                else:
                    bed_path = f'{label}.regions.bed'
                    with open(bed_path, 'w') as h:
                        h.write(body)
            elif kind == 'missing_bed':
                bed_path = f'{label}.does_not_exist.bed'
            elif kind == 'missing_blacklist':
                bl_path = f'{label}.does_not_exist.bed'
            elif kind == 'new_folder':
                out = f'{label}_results/tables/counts.csv'
            elif kind == 'named_tsv':
                out = f'{label}.named.tsv'
            expected = expected_table([chosen[0][1]], o, blacklist, bed)
            n_feat = (len(o['features']) if o['joined'] else 1) + (3 if bed else 0)
            ns = namespace(o, [chosen[0][0]], out, bl_path, bed_path,
                           no_names=(kind == 'new_folder'))
            result, exc = run(label, ns, out is None)
            n_probe += 1
            if exc is not None:
                continue   # out of scope input was refused
            if isinstance(result, pd.DataFrame):
                compare(label, expected, observed_table(result))
            elif kind == 'new_folder':
                compare(label, expected, parse_noname_table(out, len(o['sampleTags']), n_feat))
            elif kind == 'named_tsv':
                # names are written: compare with the table returned for the same call
                ns2 = namespace(o, [chosen[0][0]], None, None, None)
                df, exc2 = run(label + ':df', ns2, True)
                compare(label, expected, observed_table(df))
    finally:
        os.chdir(start_dir)
        shutil.rmtree(workdir, ignore_errors=True)

    print(f'{n_checked} tables compared with the oracle ({n_nonempty} not empty, {n_cells} cells), '
          f'{n_probe} out of scope usages recorded')
    print(f'BEHAVIOUR DIGEST {digest.hexdigest()}')
    if failures:
        for f in failures[:20]:
            print('FAILURE', f)
        print(f'PROPERTY VIOLATED ({len(failures)} failures)')
        sys.exit(1)
    print('PROPERTY HOLDS')
    sys.exit(0)


if __name__ == '__main__':
    main()
