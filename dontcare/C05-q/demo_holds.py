#!/usr/bin/env python3
# -*- coding: utf-8 -*-
"""
Independent check of property C05 - "Tagging conserves alignment records"

For a few hundred generated BAM files (1..12 contigs below/above the small
contig threshold in any header order, empty contigs, unmapped pairs, half
mapped pairs, orphan mates, mates on different contigs, invalid fragments,
QC failed reads, duplicates) bamtagmultiome is executed (nla / chic / qflag,
single process and --multiprocess with 1..4 workers and shuffled completion
order of the jobs). The oracle below is written from the property statement:

 * the output holds exactly the (primary) records of the input, each once, with the same name, sequence,
   qualities, contig, position and CIGAR, and the same mate number when both mates are in the input
 * the output is coordinate sorted and indexed
 * every record has a read group which is declared in the header
 * --no_rejects removes exactly the records of the invalid fragments (validity is known by construction)

Prints PROPERTY HOLDS and a digest over all raw outputs (status files, headers, records with all
their tags, console output).
"""
import os
import sys

if os.environ.get('PYTHONHASHSEED') != '0':
    # make the iteration order of sets of strings reproducible between runs
    os.environ['PYTHONHASHSEED'] = '0'
    os.execv(sys.executable, [sys.executable] + sys.argv)

import contextlib
import hashlib
import io
import multiprocessing
import random
import re
import shutil
import tempfile
from collections import Counter

import pysam

sys.argv = ['demo_holds.py']
import singlecellmultiomics.universalBamTagger.bamtagmultiome as tm

pysam.set_verbosity(0)
N_CASES = int(os.environ.get('C05_CASES', 300))
SMALL_CONTIG_THRESHOLD = 100_000
tm.sleep = lambda *args, **kwargs: None  # the tagger waits 5 seconds before it removes its temp folder

REAL_POOL = tm.Pool


class ShuffledCompletionPool:
    """ Pool which hands the results of the jobs back in a random order (any completion order)"""
    rng = random.Random(0)

    def __init__(self, n=None):
        self.pool = multiprocessing.Pool(n)

    def imap_unordered(self, function, tasks):
        results = list(self.pool.imap_unordered(function, tasks))
        # The results are (path with a random name, meta): shuffle with our own generator
        self.rng.shuffle(results)
        return iter(results)

    def close(self):
        self.pool.close()
        self.pool.join()


############ Input generation ############

def random_sequence(rng, n):
    return ''.join(rng.choice('ACGT') for _ in range(n))


class CaseBuilder:
    def __init__(self, rng, case_index):
        self.rng = rng
        self.case_index = case_index
        self.records = []  # dictionaries
        self.fragments = []  # (r1 or None, r2 or None) by construction
        self.n = 0
        n_contigs = rng.randint(1, 12)
        self.contigs = []
        for i in range(n_contigs):
            if rng.random() < 0.5:
                length = rng.randint(600, SMALL_CONTIG_THRESHOLD - 1)
            else:
                length = rng.choice([SMALL_CONTIG_THRESHOLD, SMALL_CONTIG_THRESHOLD + 1,
                                     rng.randint(SMALL_CONTIG_THRESHOLD, 3_000_000)])
            self.contigs.append((f'{rng.choice(["chr", "ctg", "", "scaffold_"])}{i}x{rng.randint(0, 99)}', length))
        rng.shuffle(self.contigs)
        # Some contigs stay empty:
        self.used_contigs = [i for i in range(n_contigs) if rng.random() < 0.7]
        self.samples = [f'LIB{rng.randint(1, 3)}_{rng.randint(1, 384)}' for _ in range(rng.randint(1, 5))]
        self.flowcell = rng.choice([None, 'HFLOWCELL', 'FC2'])
        # A library tag is present on all reads of a sample, or on none
        self.samples_with_library_tag = {sample for sample in self.samples if rng.random() < 0.5}

    def name(self):
        self.n += 1
        return f'NS500:{self.case_index}:{self.n}:{self.rng.randint(1000, 9999)}'

    def sample_tags(self):
        rng = self.rng
        sample = rng.choice(self.samples)
        tags = [('SM', sample), ('RX', random_sequence(rng, 3)), ('BC', random_sequence(rng, 8))]
        if self.flowcell is not None:
            tags.append(('Fc', self.flowcell))
            tags.append(('La', str(rng.randint(1, 2))))
        if sample in self.samples_with_library_tag:
            tags.append(('LY', sample.split('_')[0]))
        return tags

    def make_read(self, name, mate, contig, pos, reverse, mapped=True, paired=True, motif=None, length=None,
                  homopolymer=False, qcfail=False, tags=()):
        rng = self.rng
        if length is None:
            length = rng.randint(30, 75)
        seq = random_sequence(rng, length)
        while 'CATG' in seq[:5] or 'CATG' in seq[-5:]:
            seq = random_sequence(rng, length)
        if homopolymer:
            seq = seq[:5] + 'A' * 20 + seq[25:]
        if motif:
            if reverse:
                seq = seq[:-4] + 'CATG'
            else:
                seq = 'CATG' + seq[4:]
        cigar = None
        if mapped:
            style = rng.random()
            if style < 0.6:
                cigar = f'{length}M'
            elif style < 0.75:
                clip = rng.randint(1, 5)
                cigar = f'{clip}S{length - clip}M'
            elif style < 0.85:
                clip = rng.randint(1, 5)
                cigar = f'{length - clip}M{clip}S'
            elif style < 0.93:
                cigar = f'10M2I{length - 12}M'
            else:
                cigar = f'10M3D{length - 10}M'
        return dict(name=name, mate=mate, contig=contig, pos=pos, reverse=reverse, mapped=mapped, paired=paired,
                    seq=seq, qual=[rng.randint(2, 40) for _ in range(length)], cigar=cigar, qcfail=qcfail,
                    tags=list(tags), mate_contig=None, mate_pos=None, mate_mapped=None, mate_reverse=False,
                    mapq=rng.choice([0, 1, 30, 60]) if mapped else 0, proper=False)

    @staticmethod
    def link(a, b):
        for x, y in ((a, b), (b, a)):
            x['mate_contig'] = y['contig']
            x['mate_pos'] = y['pos']
            x['mate_mapped'] = y['mapped']
            x['mate_reverse'] = y['reverse']

    def random_location(self, room=400):
        contig_index = self.rng.choice(self.used_contigs)
        length = self.contigs[contig_index][1]
        return contig_index, self.rng.randint(0, max(0, length - room))

    def add(self, kind):
        rng = self.rng
        tags = self.sample_tags()
        name = self.name()
        motif = rng.random() < 0.7
        qcfail = rng.random() < 0.04

        if len(self.used_contigs) == 0 and kind not in ('unmapped_pair', 'unmapped_single'):
            kind = 'unmapped_pair'

        if kind in ('pair', 'pair_same_orientation', 'pair_homopolymer', 'duplicate_pair'):
            contig, pos = self.random_location()
            if kind == 'duplicate_pair' and len(self.fragments):
                # Put a fragment on the site of an earlier one, with the same sample and UMI
                earlier = [f for f in self.fragments if f[0] is not None and f[0]['mapped'] and f[1] is not None and f[1]['mapped']]
                if earlier:
                    e = rng.choice(earlier)[0]
                    contig, pos, tags = e['contig'], e['pos'], list(e['tags'])
            r1_reverse = rng.random() < 0.4
            distance = rng.randint(0, 250)
            if r1_reverse:
                r2_pos, r1_pos = pos, pos + distance
            else:
                r1_pos, r2_pos = pos, pos + distance
            r1 = self.make_read(name, 1, contig, r1_pos, r1_reverse, motif=motif, qcfail=qcfail, tags=tags,
                                homopolymer=(kind == 'pair_homopolymer'))
            r2 = self.make_read(name, 2, contig, r2_pos, (r1_reverse if kind == 'pair_same_orientation' else not r1_reverse),
                                tags=tags, qcfail=qcfail and rng.random() < 0.5)
            r1['proper'] = r2['proper'] = (kind != 'pair_same_orientation')
            self.link(r1, r2)
            self.records += [r1, r2]
            self.fragments.append((r1, r2))

        elif kind == 'single':
            contig, pos = self.random_location()
            r = self.make_read(name, 0, contig, pos, rng.random() < 0.5, paired=False, motif=motif, qcfail=qcfail, tags=tags,
                               homopolymer=rng.random() < 0.05)
            self.records.append(r)
            self.fragments.append((r, None))

        elif kind == 'different_contigs':
            contig, pos = self.random_location()
            others = [c for c in self.used_contigs if c != contig]
            if not others:
                return self.add('pair')
            contig2 = rng.choice(others)
            pos2 = rng.randint(0, max(0, self.contigs[contig2][1] - 400))
            r1 = self.make_read(name, 1, contig, pos, rng.random() < 0.5, motif=motif, tags=tags, qcfail=qcfail)
            r2 = self.make_read(name, 2, contig2, pos2, rng.random() < 0.5, tags=tags)
            self.link(r1, r2)
            self.records += [r1, r2]
            self.fragments += [(r1, None), (None, r2)]

        elif kind in ('half_mapped_r1', 'half_mapped_r2'):
            contig, pos = self.random_location()
            mapped_mate = 1 if kind == 'half_mapped_r1' else 2
            reads = {}
            for mate in (1, 2):
                reads[mate] = self.make_read(name, mate, contig, pos, rng.random() < 0.5 if mate == mapped_mate else False,
                                             mapped=(mate == mapped_mate), motif=motif, tags=tags)
            self.link(reads[1], reads[2])
            self.records += [reads[1], reads[2]]
            self.fragments += [(reads[1], None), (None, reads[2])]

        elif kind == 'unmapped_pair':
            r1 = self.make_read(name, 1, None, None, False, mapped=False, motif=motif, tags=tags)
            r2 = self.make_read(name, 2, None, None, False, mapped=False, tags=tags)
            self.link(r1, r2)
            self.records += [r1, r2]
            self.fragments += [(r1, None), (None, r2)]

        elif kind == 'unmapped_single':
            r = self.make_read(name, 0, None, None, False, mapped=False, paired=False, motif=motif, tags=tags)
            self.records.append(r)
            self.fragments.append((r, None))

        elif kind in ('orphan_r1', 'orphan_r2'):
            # The mate is said to be mapped close by, but is not in the file
            contig, pos = self.random_location()
            mate = 1 if kind == 'orphan_r1' else 2
            r = self.make_read(name, mate, contig, pos, rng.random() < 0.5, motif=motif, tags=tags, qcfail=qcfail)
            r['mate_contig'], r['mate_pos'], r['mate_mapped'] = contig, pos + rng.randint(0, 200), True
            r['mate_reverse'] = not r['reverse']
            r['proper'] = rng.random() < 0.5
            self.records.append(r)
            self.fragments.append((r, None) if mate == 1 else (None, r))
        else:
            raise ValueError(kind)

    def write(self, path):
        header = {'HD': {'VN': '1.6', 'SO': 'unsorted'},
                  'SQ': [{'SN': name, 'LN': length} for name, length in self.contigs]}
        order = list(range(len(self.records)))
        self.rng.shuffle(order)
        with pysam.AlignmentFile(path + '.unsorted.bam', 'wb', header=header) as out:
            for i in order:
                d = self.records[i]
                r = pysam.AlignedSegment(out.header)
                r.query_name = d['name']
                r.query_sequence = d['seq']
                r.query_qualities = pysam.qualitystring_to_array(''.join(chr(q + 33) for q in d['qual']))
                flag = 0
                if d['paired']:
                    flag |= 0x1
                    flag |= 0x40 if d['mate'] == 1 else 0x80
                    if d['proper']:
                        flag |= 0x2
                    if not d['mate_mapped']:
                        flag |= 0x8
                    if d['mate_reverse']:
                        flag |= 0x20
                if not d['mapped']:
                    flag |= 0x4
                if d['reverse']:
                    flag |= 0x10
                if d['qcfail']:
                    flag |= 0x200
                r.flag = flag
                r.reference_id = d['contig'] if d['contig'] is not None else -1
                r.reference_start = d['pos'] if d['pos'] is not None else -1
                r.mapping_quality = d['mapq']
                r.cigarstring = d['cigar']
                if d['paired']:
                    r.next_reference_id = d['mate_contig'] if d['mate_contig'] is not None else -1
                    r.next_reference_start = d['mate_pos'] if d['mate_pos'] is not None else -1
                else:
                    r.next_reference_id = -1
                    r.next_reference_start = -1
                for tag, value in d['tags']:
                    r.set_tag(tag, value)
                out.write(r)
        pysam.sort('-o', path, path + '.unsorted.bam')
        os.remove(path + '.unsorted.bam')
        pysam.index(path)


KINDS = ['pair'] * 6 + ['single'] * 2 + ['pair_same_orientation', 'pair_homopolymer', 'duplicate_pair', 'duplicate_pair',
         'different_contigs', 'half_mapped_r1', 'half_mapped_r2', 'unmapped_pair', 'unmapped_single', 'orphan_r1', 'orphan_r2']


def build_case(case_index):
    rng = random.Random(1000 + case_index)
    builder = CaseBuilder(rng, case_index)
    style = case_index % 10
    if style == 0:
        n, kinds = rng.randint(1, 8), ['unmapped_pair', 'unmapped_single']  # only unmapped reads
    elif style == 1:
        n, kinds = rng.randint(1, 4), KINDS  # tiny
    elif style == 2:
        n, kinds = rng.randint(20, 60), ['unmapped_pair'] * 4 + KINDS  # many unmapped reads
    elif style == 3:
        n, kinds = rng.randint(5, 30), ['orphan_r1', 'orphan_r2', 'half_mapped_r1', 'half_mapped_r2', 'different_contigs', 'pair']
    else:
        n, kinds = rng.randint(5, 45), KINDS
    for _ in range(n):
        builder.add(rng.choice(kinds))
    return builder


############ Oracle ############

def record_key(read, with_mate_number):
    key = (read.query_name, read.query_sequence, tuple(read.query_qualities), read.reference_id, read.reference_start,
           read.cigarstring)
    if with_mate_number:
        key += (read.is_read1, read.is_read2)
    return key


def construction_key(d, with_mate_number):
    key = (d['name'], d['seq'], tuple(d['qual']), d['contig'] if d['contig'] is not None else -1,
           d['pos'] if d['pos'] is not None else -1, d['cigar'])
    if with_mate_number:
        key += (d['mate'] == 1, d['mate'] == 2)
    return key


def fragment_is_valid(method, fragment):
    """ What the documentation of the methods says about rejected fragments """
    r1, r2 = fragment
    if any(r is not None and r['qcfail'] for r in fragment):
        return False
    if r1 is None or not r1['mapped']:
        return False
    if method == 'nla':
        # R1 has to start at the NlaIII site
        return r1['seq'][-4:] == 'CATG' if r1['reverse'] else r1['seq'][:4] == 'CATG'
    if method == 'chic':
        if any(r is not None and any(base * 18 in r['seq'] for base in 'ACGT') for r in fragment):
            return False
        if r2 is not None and r2['mapped'] and r1['reverse'] == r2['reverse']:
            return False
        return True
    raise ValueError(method)


class PropertyViolation(Exception):
    pass


def check_output(label, input_path, output_path, builder, method, no_rejects):
    def fail(message):
        raise PropertyViolation(f'{label}: {message}')

    with pysam.AlignmentFile(input_path) as f:
        input_records = list(f.fetch(until_eof=True))
    if any(r.is_secondary or r.is_supplementary for r in input_records):
        fail('generator error')
    mates_per_name = Counter(r.query_name for r in input_records)
    both_present = {name for name, n in mates_per_name.items() if n == 2}

    # The generated file has to hold what was constructed:
    if Counter(record_key(r, r.query_name in both_present) for r in input_records) != \
       Counter(construction_key(d, d['name'] in both_present) for d in builder.records):
        fail('generator error, the input file does not hold the constructed records')

    if no_rejects:
        expected = Counter()
        for fragment in builder.fragments:
            if fragment_is_valid(method, fragment):
                for d in fragment:
                    if d is not None:
                        expected[construction_key(d, d['name'] in both_present)] += 1
    else:
        expected = Counter(record_key(r, r.query_name in both_present) for r in input_records)

    if not os.path.exists(output_path):
        fail('no output file')
    if not os.path.exists(output_path + '.bai'):
        fail('the output is not indexed')
    if os.path.getmtime(output_path + '.bai') < os.path.getmtime(output_path):
        fail('the index is older than the output')

    with pysam.AlignmentFile(output_path) as f:
        header = f.header.to_dict()
        output_records = list(f.fetch(until_eof=True))
        if not f.check_index():
            fail('index not usable')
        # The index has to find every mapped record
        via_index = 0
        for contig in f.references:
            via_index += sum(1 for _ in f.fetch(contig))
        placed = sum(1 for r in output_records if r.reference_id >= 0)
        if via_index != placed:
            fail(f'index finds {via_index} of {placed} placed records')
        if [sq['SN'] for sq in header['SQ']] != [c[0] for c in builder.contigs] or \
           [sq['LN'] for sq in header['SQ']] != [c[1] for c in builder.contigs]:
            fail('contigs of the output differ from the input')

    observed = Counter(record_key(r, r.query_name in both_present) for r in output_records)
    if observed != expected:
        missing = expected - observed
        extra = observed - expected
        fail(f'records differ, {sum(missing.values())} missing, {sum(extra.values())} unexpected; '
             f'{[k[0] for k in list(missing)[:3]]} {[k[0] for k in list(extra)[:3]]}')
    if any(n != 1 for n in observed.values()):
        fail('a record is present more than once')
    if any(r.is_secondary or r.is_supplementary for r in output_records):
        fail('non primary record in output')

    # Coordinate sorted
    if header.get('HD', {}).get('SO') != 'coordinate':
        fail(f'header says {header.get("HD")}')
    previous = None
    for r in output_records:
        current = (r.reference_id if r.reference_id >= 0 else float('inf'), r.reference_start)
        if previous is not None and current < previous:
            fail('the output is not coordinate sorted')
        previous = current

    # Read groups
    declared = [rg['ID'] for rg in header.get('RG', [])]
    if len(set(declared)) != len(declared):
        fail('a read group is declared twice')
    for r in output_records:
        if not r.has_tag('RG'):
            fail(f'{r.query_name} has no read group')
        if r.get_tag('RG') not in declared:
            fail(f'read group {r.get_tag("RG")} is not declared')
    return header, output_records


############ Execution ############

UUID = re.compile(r'[0-9a-f]{8}-[0-9a-f]{4}-[0-9a-f]{4}-[0-9a-f]{4}-[0-9a-f]{12}')
STAMP = re.compile(r'\d\d/\d\d/\d{4} \d\d:\d\d:\d\d')
ADDRESS = re.compile(r'0x[0-9a-f]+')


def normalise(text, folder):
    text = text.replace(folder, '<TMP>')
    text = UUID.sub('<UUID>', text)
    text = STAMP.sub('<TIME>', text)
    text = ADDRESS.sub('<ADDRESS>', text)
    text = re.sub(r'SCMO\.<UUID>\S*', 'SCMO.<UUID>', text)
    return text


def raw_outputs(folder, output_path, console, multiprocess):
    """ Everything the tagger produced for this run as text """
    parts = []
    status_path = output_path.replace('.bam', '.status.txt')
    with open(status_path) as f:
        parts.append('STATUS ' + f.read())
    with pysam.AlignmentFile(output_path) as f:
        header_lines = str(f.header).rstrip('\n').split('\n')
        records = [r.to_string() for r in f.fetch(until_eof=True)]
    if multiprocess:
        # The order in which the per job files are merged depends on the scheduling of the worker processes:
        # the order of the read groups and of the program lines of the jobs is not reproducible
        head = [l for l in header_lines if l[:3] in ('@HD', '@SQ')]
        rest = sorted(l for l in header_lines if l[:3] not in ('@HD', '@SQ'))
        header_lines = head + rest
    parts.append('HEADER\n' + '\n'.join(header_lines))
    # records on the same coordinate have no defined order
    parts.append('RECORDS\n' + '\n'.join(sorted(records)))
    parts.append('CONSOLE\n' + console)
    parts.append('FILES ' + ' '.join(sorted(os.listdir(folder))))
    return normalise('\n'.join(parts), folder)


def run_tagger(folder, input_path, name, method, multiprocess, workers, shuffle, no_rejects):
    output_path = os.path.join(folder, f'{name}.bam')
    cmd = [input_path, '-method', method, '-o', output_path]
    if multiprocess:
        cmd += ['--multiprocess', '-tagthreads', str(workers)]
    if no_rejects:
        cmd.append('--no_rejects')
    tm.Pool = ShuffledCompletionPool if shuffle else REAL_POOL
    console = io.StringIO()
    with contextlib.redirect_stdout(console):
        tm.run_multiome_tagging_cmd(cmd)
    tm.Pool = REAL_POOL
    return output_path, console.getvalue()


def main():
    root = tempfile.mkdtemp(prefix='c05_demo_')
    digest = hashlib.sha256()
    runs = 0
    coverage = Counter()
    origin = os.getcwd()
    try:
        for case_index in range(N_CASES):
            folder = os.path.join(root, f'case_{case_index}')
            os.makedirs(folder)
            os.chdir(folder)  # the multiprocess tagger puts its temp folder in the working directory
            builder = build_case(case_index)
            input_path = os.path.join(folder, 'input.bam')
            builder.write(input_path)

            rng = random.Random(77 + case_index)
            method = ['nla', 'chic', 'qflag'][case_index % 3]
            # Every case: single process and multiprocess
            configurations = [(False, 1, False), (True, rng.randint(1, 4), rng.random() < 0.6)]
            for multiprocess, workers, shuffle in configurations:
                for no_rejects in ((False, True) if (method != 'qflag' and case_index % 2 == 0) else (False,)):
                    name = f'out_{"multi" if multiprocess else "single"}_{workers}_{int(shuffle)}_{int(no_rejects)}'
                    label = f'case {case_index} {method} {name}'
                    output_path, console = run_tagger(folder, input_path, name, method, multiprocess, workers, shuffle, no_rejects)
                    check_output(label, input_path, output_path, builder, method, no_rejects)
                    digest.update(label.encode())
                    raw = raw_outputs(folder, output_path, console, multiprocess)
                    digest.update(raw.encode())
                    if os.environ.get('C05_DUMP'):
                        with open(os.environ['C05_DUMP'], 'a') as dump:
                            dump.write(f'##### {label}\n{raw}\n')
                    runs += 1
                    coverage[(method, multiprocess, no_rejects)] += 1
            coverage['records'] += len(builder.records)
            coverage['invalid fragments (nla rules)'] += sum(not fragment_is_valid('nla', f) for f in builder.fragments)
            os.chdir(origin)
            shutil.rmtree(folder, ignore_errors=True)
    except PropertyViolation as e:
        print('PROPERTY VIOLATED', e)
        sys.exit(1)
    finally:
        os.chdir(origin)
        shutil.rmtree(root, ignore_errors=True)

    print(f'{N_CASES} inputs, {runs} tagging runs, {coverage["records"]} input records')
    print('runs per (method, multiprocess, no_rejects):',
          ', '.join(f'{k}:{v}' for k, v in sorted((k, v) for k, v in coverage.items() if isinstance(k, tuple))))
    print('PROPERTY HOLDS')
    print('BEHAVIOUR DIGEST', digest.hexdigest())


if __name__ == '__main__':
    main()
