#!/usr/bin/env python3
"""Independent check of property C06 (molecule assignment == ground-truth duplicate structure).

Simulates a few hundred small single-cell libraries with known truth, runs the molecule
assignment + tagging code of the repository over them (library level through MoleculeIterator /
write_tags / write_pysam and a handful through the bamtagmultiome command line), and verifies with
an oracle of its own:

  * molecules only contain fragments of one cell, one strand, one cut site (within radius) and the
    UMIs of the members are linked by edges of hamming distance <= allowed distance
  * with distance 0 (and no cap) the molecules are exactly the classes (cell, site, strand, UMI)
  * in the written BAM every molecule has exactly one fragment which is not flagged duplicate,
    whatever flags / RC tags the input carried, and re-tagging the tagged file gives the same
  * af / TF / RC agree with the size of the molecule

Prints "PROPERTY HOLDS" and a "BEHAVIOUR DIGEST" (sha256 over all raw output records).
"""
import contextlib
import hashlib
import io
import os
import random
import sys
import tempfile
from collections import defaultdict

import pysam

from singlecellmultiomics.molecule import MoleculeIterator, Molecule, NlaIIIMolecule, CHICMolecule
from singlecellmultiomics.fragment import Fragment, NlaIIIFragment, CHICFragment

READ_LEN = 50
CONTIGS = [('chr1', 2_000_000), ('chr2', 2_000_000)]
N_LIBRARIES = int(os.environ.get("C06_N", 300))
N_CLI = 8

digest = hashlib.sha256()
problems = []
stats = defaultdict(int)


def fail(msg):
    problems.append(msg)
    if len(problems) < 25:
        print('VIOLATION:', msg)


# ----------------------------------------------------------------------------------------------
# simulation
# ----------------------------------------------------------------------------------------------
def rand_seq(rng, n):
    return ''.join(rng.choice('ACGT') for _ in range(n))


def no_homopolymer(rng, n):
    # random sequence without long homopolymers (CHIC rejects 18-mers)
    out = []
    for i in range(n):
        c = rng.choice('ACGT')
        while len(out) >= 3 and out[-1] == out[-2] == out[-3] == c:
            c = rng.choice('ACGT')
        out.append(c)
    return ''.join(out)


def my_hamming_linked(a, b, h):
    """own definition of 'UMIs within the allowed hamming distance' (N matches anything when h>0)"""
    if a == b:
        return True
    if h == 0 or len(a) != len(b):
        return False
    return sum(1 for x, y in zip(a, b) if x != y and x != 'N' and y != 'N') <= h


def make_umis(rng, n, length):
    umis = [rand_seq(rng, length)]
    while len(umis) < n:
        kind = rng.random()
        base = list(rng.choice(umis))
        if kind < 0.3:  # distance 1
            i = rng.randrange(length)
            base[i] = rng.choice([c for c in 'ACGT' if c != base[i]])
        elif kind < 0.55 and length >= 2:  # distance 2
            for i in rng.sample(range(length), 2):
                base[i] = rng.choice([c for c in 'ACGT' if c != base[i]])
        elif kind < 0.75:  # with N
            base[rng.randrange(length)] = 'N'
        else:
            base = list(rand_seq(rng, length))
        u = ''.join(base)
        if u not in umis:
            umis.append(u)
    return umis


def simulate_library(rng, lib_index):
    """returns (params, records(list of dict), truth {qname: (cell, contig, site, strand, umi, valid)})"""
    mode = ['plain', 'nla', 'chic'][lib_index % 3]
    hamming = rng.choice([0, 0, 1, 2])
    radius = 0
    if mode in ('plain', 'chic') and rng.random() < 0.5:
        radius = rng.choice([1, 5, 20, 50])
    elif mode == 'nla':
        radius = rng.choice([0, 1000])  # NLA: sites are exact, the radius is not used
    n_cells = rng.randint(1, 8)
    n_sites = rng.choice([1, 2, 3, 4, 6, 8, 10, 15, 25, 40])
    umi_len = rng.choice([3, 4, 6, 8])
    paired = rng.random() < 0.8
    cap = rng.choice([None, None, None, 1, 2, 3])
    eject = rng.choice([None, 10_000, 5, 40])
    min_max_mq = rng.choice([None, None, 20])
    scramble_flags = rng.random() < 0.5
    params = dict(mode=mode, hamming=hamming, radius=radius, cap=cap, eject=eject,
                  min_max_mq=min_max_mq, paired=paired)

    records = []
    truth = {}
    qn = 0
    presence = min(1.0, 60.0 / (n_cells * n_sites * 2))
    for site_i in range(n_sites):
        contig_i = rng.randrange(len(CONTIGS))
        base_pos = 10_000 + site_i * 3_000  # twins on both contigs share coordinates
        for strand in (False, True):  # both strands at every site
            umis = make_umis(rng, rng.randint(1, 6), umi_len)
            for cell in range(n_cells):
                if rng.random() > max(presence, 0.15) and not (site_i == 0 and cell == 0):
                    continue
                cell_umis = rng.sample(umis, rng.randint(1, len(umis)))
                for umi in cell_umis:
                    class_mapq0 = rng.random() < 0.08
                    for copy in range(rng.randint(1, 5)):
                        qn += 1
                        qname = f'lib{lib_index}:r{qn}'
                        jitter = rng.randint(0, radius) if (radius > 0 and mode != 'nla') else 0
                        frag_len = rng.randint(120, 400)
                        valid = True
                        # R1
                        r1_seq = list(no_homopolymer(rng, READ_LEN))
                        clip5 = rng.choice([0, 0, 0, 2, 5]) if mode != 'plain' else 0
                        clip3 = rng.choice([0, 0, 0, 3, 7])
                        if mode == 'nla':
                            motif_ok = rng.random() > 0.06
                            motif = 'CATG' if motif_ok else rng.choice(['CTTG', 'AATG', 'CATC'])
                            valid = motif_ok
                            if not strand:
                                r1_seq[:4] = motif
                            else:
                                r1_seq[-4:] = motif
                        # sequencing errors outside of the motif
                        for _ in range(rng.choice([0, 0, 1, 2])):
                            i = rng.randrange(6, READ_LEN - 6)
                            r1_seq[i] = rng.choice('ACGTN')
                        r1_seq = ''.join(r1_seq)
                        qcfail_in = rng.random() < 0.03
                        if qcfail_in:
                            valid = False
                        mapq = 0 if (class_mapq0 or rng.random() < 0.03) else rng.choice([60, 60, 60, 30, 12, 5])
                        if not strand:
                            site = base_pos + jitter  # left end of the fragment
                            r1_start = site + clip5
                            r1_cigar = (f'{clip5}S' if clip5 else '') + f'{READ_LEN - clip5 - clip3}M' + (
                                f'{clip3}S' if clip3 else '')
                            r2_end = site + frag_len
                            r2_clip = rng.choice([0, 0, 4])
                            r2_start = r2_end - (READ_LEN - r2_clip)
                            r2_cigar = (f'{r2_clip}S' if r2_clip else '') + f'{READ_LEN - r2_clip}M'
                        else:
                            site = base_pos + 1_000 - jitter  # right end of the fragment
                            r1_end = site - clip5
                            r1_start = r1_end - (READ_LEN - clip5 - clip3)
                            r1_cigar = (f'{clip3}S' if clip3 else '') + f'{READ_LEN - clip5 - clip3}M' + (
                                f'{clip5}S' if clip5 else '')
                            r2_start = site - frag_len
                            r2_clip = rng.choice([0, 0, 4])
                            r2_cigar = f'{READ_LEN - r2_clip}M' + (f'{r2_clip}S' if r2_clip else '')
                        sm = f'LIB{lib_index}_{cell}'
                        common = dict(qname=qname, contig=contig_i, mapq=mapq, SM=sm, RX=umi,
                                      qcfail=qcfail_in, paired=paired)
                        if scramble_flags:
                            common['dup'] = rng.random() < 0.6
                            common['RC'] = rng.randint(0, 9)
                            common['af'] = rng.randint(1, 9)
                        records.append(dict(common, read1=True, reverse=strand, start=r1_start,
                                            cigar=r1_cigar, seq=r1_seq,
                                            mate_start=r2_start, mate_reverse=not strand))
                        if paired:
                            records.append(dict(common, read1=False, reverse=not strand, start=r2_start,
                                                cigar=r2_cigar, seq=no_homopolymer(rng, READ_LEN),
                                                mate_start=r1_start, mate_reverse=strand))
                        # the truth 'site' is the jitter free anchor
                        truth[qname] = (sm, contig_i, site_i, strand, umi, valid)
    return params, records, truth


def write_records(path, records):
    header = pysam.AlignmentHeader.from_dict({
        'HD': {'VN': '1.6', 'SO': 'coordinate'},
        'SQ': [{'SN': n, 'LN': l} for n, l in CONTIGS]})
    records = sorted(records, key=lambda r: (r['contig'], r['start']))
    with pysam.AlignmentFile(path, 'wb', header=header) as out:
        for r in records:
            a = pysam.AlignedSegment(header)
            a.query_name = r['qname']
            a.query_sequence = r['seq']
            a.query_qualities = pysam.qualitystring_to_array('I' * len(r['seq']))
            a.reference_id = r['contig']
            a.reference_start = r['start']
            a.cigarstring = r['cigar']
            a.mapping_quality = r['mapq']
            a.is_reverse = r['reverse']
            if r['paired']:
                a.is_paired = True
                a.is_proper_pair = True
                a.is_read1 = r['read1']
                a.is_read2 = not r['read1']
                a.next_reference_id = r['contig']
                a.next_reference_start = r['mate_start']
                a.mate_is_reverse = r['mate_reverse']
            a.is_qcfail = r['qcfail']
            a.set_tag('SM', r['SM'])
            a.set_tag('RX', r['RX'])
            if 'dup' in r:
                a.is_duplicate = r['dup']
                a.set_tag('RC', r['RC'])
                a.set_tag('af', r['af'])
                a.set_tag('TF', r['af'])
            out.write(a)


def resort(src, dst):
    """coordinate sort a written BAM into dst (own implementation, stable)"""
    with pysam.AlignmentFile(src) as f:
        header = f.header
        reads = list(f.fetch(until_eof=True))
    reads.sort(key=lambda r: (r.reference_id, r.reference_start))
    with pysam.AlignmentFile(dst, 'wb', header=header) as out:
        for r in reads:
            out.write(r)


# ----------------------------------------------------------------------------------------------
# running the code under test
# ----------------------------------------------------------------------------------------------
CLASSES = {'plain': (Molecule, Fragment), 'nla': (NlaIIIMolecule, NlaIIIFragment), 'chic': (CHICMolecule, CHICFragment)}


def tag_bam(in_path, out_path, params):
    """returns list of molecules, each a list of query names (as assigned by the iterator)"""
    mol_class, frag_class = CLASSES[params['mode']]
    frag_args = {'umi_hamming_distance': params['hamming'], 'assignment_radius': params['radius']}
    mol_args = {}
    if params['cap'] is not None:
        mol_args['max_associated_fragments'] = params['cap']
    if params['min_max_mq'] is not None:
        mol_args['min_max_mapping_quality'] = params['min_max_mq']
    molecules = []
    with pysam.AlignmentFile(in_path) as f, pysam.AlignmentFile(out_path, 'wb', header=f.header) as out:
        for m in MoleculeIterator(f, molecule_class=mol_class, fragment_class=frag_class,
                                  molecule_class_args=mol_args, fragment_class_args=frag_args,
                                  check_eject_every=params['eject'], yield_invalid=True):
            names = []
            for frag in m:
                names.append([r.query_name for r in frag if r is not None][0])
            molecules.append(names)
            m.write_tags()
            m.write_pysam(out)
    return molecules


def read_output(path):
    """raw view of the tagged file: {qname: [records]}, feeds the behaviour digest"""
    by_name = defaultdict(list)
    with pysam.AlignmentFile(path) as f:
        for r in f.fetch(until_eof=True):
            digest.update(r.to_string().encode())
            digest.update(b'\n')
            by_name[r.query_name].append(r)
    return by_name


# ----------------------------------------------------------------------------------------------
# oracle
# ----------------------------------------------------------------------------------------------
def check_partition(label, molecules, truth, params, n_expected_reads_per_fragment):
    h = params['hamming']
    seen = set()
    for names in molecules:
        for n in names:
            if n in seen:
                fail(f'{label}: fragment {n} is in two molecules')
            seen.add(n)
    if seen != set(truth):
        fail(f'{label}: fragments lost or invented: {len(seen)} vs {len(truth)}')

    valid_molecules = []
    for names in molecules:
        invalid = [n for n in names if not truth[n][5]]
        if invalid:
            if len(names) != 1:
                fail(f'{label}: an invalid fragment was pooled with others: {names}')
            continue
        valid_molecules.append(names)
        keys = {truth[n][:4] for n in names}  # cell, contig, site, strand
        if len(keys) != 1:
            fail(f'{label}: molecule mixes cell/site/strand: {sorted(keys)}')
        # linked by UMIs
        umis = [truth[n][4] for n in names]
        reached = {0}
        todo = [0]
        while todo:
            i = todo.pop()
            for j in range(len(umis)):
                if j not in reached and my_hamming_linked(umis[i], umis[j], h):
                    reached.add(j)
                    todo.append(j)
        if len(reached) != len(umis):
            fail(f'{label}: UMIs of a molecule are not linked within distance {h}: {umis}')
        if params['cap'] is not None and len(names) > params['cap']:
            fail(f'{label}: molecule exceeds the cap')

    if h == 0:
        classes = defaultdict(set)
        for n, t in truth.items():
            if t[5]:
                classes[t[:5]].add(n)
        if params['cap'] is None:
            got = {frozenset(m) for m in valid_molecules}
            want = {frozenset(c) for c in classes.values()}
            if got != want:
                fail(f'{label}: distance 0 molecules differ from the (cell,site,strand,UMI) classes '
                     f'({len(got)} vs {len(want)})')
        else:
            # capped: every class is one molecule of min(size, cap) fragments + singletons
            per_class = defaultdict(list)
            for m in valid_molecules:
                ks = {truth[n][:5] for n in m}
                if len(ks) != 1:
                    fail(f'{label}: capped molecule mixes classes')
                per_class[next(iter(ks))].append(len(m))
            for k, members in classes.items():
                sizes = sorted(per_class[k], reverse=True)
                want = [min(len(members), params['cap'])] + [1] * max(0, len(members) - params['cap'])
                if sizes != sorted(want, reverse=True):
                    fail(f'{label}: capped class of {len(members)} split as {sizes}')
    return valid_molecules


def check_tags(label, molecules, by_name, truth, params, reads_per_fragment):
    class_sizes = defaultdict(int)
    for t in truth.values():
        if t[5]:
            class_sizes[t[:5]] += 1
    for names in molecules:
        n_frag = len(names)
        non_dup = 0
        ranks = []
        for n in names:
            recs = by_name.get(n, [])
            if len(recs) != reads_per_fragment:
                fail(f'{label}: {n} written {len(recs)} times')
                continue
            flags = {r.is_duplicate for r in recs}
            if len(flags) != 1:
                fail(f'{label}: mates of {n} disagree about the duplicate flag')
            if not recs[0].is_duplicate:
                non_dup += 1
            for r in recs:
                if not (r.has_tag('af') and r.has_tag('TF') and r.has_tag('RC')):
                    fail(f'{label}: {n} lacks af/TF/RC')
                    continue
                if r.get_tag('af') != n_frag:
                    fail(f'{label}: af={r.get_tag("af")} for a molecule of {n_frag}')
                tf = r.get_tag('TF')
                if params['cap'] is None:
                    if tf != n_frag:
                        fail(f'{label}: TF={tf} for a molecule of {n_frag}')
                elif tf < n_frag:
                    fail(f'{label}: TF={tf} smaller than molecule of {n_frag}')
                elif params['hamming'] == 0 and truth[n][5]:
                    # TF additionally counts the fragments which did not fit under the cap
                    if tf not in (n_frag, class_sizes[truth[n][:5]]):
                        fail(f'{label}: TF={tf} for molecule of {n_frag}, class of {class_sizes[truth[n][:5]]}')
                if (r.get_tag('RC') == 0) != (not r.is_duplicate):
                    fail(f'{label}: rank {r.get_tag("RC")} but duplicate={r.is_duplicate}')
            ranks.append(recs[0].get_tag('RC') if recs[0].has_tag('RC') else None)
        if non_dup != 1:
            fail(f'{label}: molecule of {n_frag} fragments has {non_dup} non-duplicate fragments')
        if sorted(r for r in ranks if r is not None) != list(range(n_frag)):
            fail(f'{label}: ranks {sorted(ranks, key=str)} for a molecule of {n_frag}')
        stats['molecules'] += 1
        stats['fragments'] += n_frag


def run_library(tmp, rng, lib_index):
    params, records, truth = simulate_library(rng, lib_index)
    rpf = 2 if params['paired'] else 1
    label = f'lib{lib_index} {params}'
    inp = os.path.join(tmp, f'in_{lib_index}.bam')
    out1 = os.path.join(tmp, f'out1_{lib_index}.bam')
    srt = os.path.join(tmp, f'sorted_{lib_index}.bam')
    out2 = os.path.join(tmp, f'out2_{lib_index}.bam')
    write_records(inp, records)

    mols1 = tag_bam(inp, out1, params)
    valid1 = check_partition(label + ' [run 1]', mols1, truth, params, rpf)
    by_name1 = read_output(out1)
    check_tags(label + ' [run 1]', mols1, by_name1, truth, params, rpf)

    # history: tag the tagged file again
    resort(out1, srt)
    mols2 = tag_bam(srt, out2, params)
    valid2 = check_partition(label + ' [run 2]', mols2, truth, params, rpf)
    by_name2 = read_output(out2)
    check_tags(label + ' [run 2]', mols2, by_name2, truth, params, rpf)
    if params['hamming'] == 0 and params['cap'] is None:
        if {frozenset(m) for m in valid1} != {frozenset(m) for m in valid2}:
            fail(f'{label}: re-tagging changed the molecules')
    # idempotent: the amount of primary fragments did not change
    prim1 = sum(1 for recs in by_name1.values() if not recs[0].is_duplicate)
    prim2 = sum(1 for recs in by_name2.values() if not recs[0].is_duplicate)
    if len(mols1) == len(mols2) and prim1 != prim2:
        fail(f'{label}: re-tagging changed the amount of primary fragments {prim1} -> {prim2}')
    stats['libraries'] += 1
    stats[f'mode_{params["mode"]}'] += 1
    stats[f'hamming_{params["hamming"]}'] += 1
    stats['radius>0' if params['radius'] > 0 else 'radius0'] += 1
    if params['cap'] is not None:
        stats['capped'] += 1
    for p in (inp, out1, srt, out2):
        os.remove(p)


def run_cli(tmp, rng, idx):
    """a few libraries through the bamtagmultiome command line; molecules are read from the mi tag"""
    import singlecellmultiomics.universalBamTagger.bamtagmultiome as tm
    lib_index = 9_000 + idx
    while True:
        params, records, truth = simulate_library(rng, lib_index)
        if params['mode'] in ('nla', 'chic'):
            break
        lib_index += 100
    params['cap'] = None
    params['eject'] = None
    params['min_max_mq'] = None
    if params['mode'] == 'nla':
        params['radius'] = 0
    rpf = 2 if params['paired'] else 1
    label = f'cli{idx} {params}'
    inp = os.path.join(tmp, f'cli_in_{idx}.bam')
    out = os.path.join(tmp, f'cli_out_{idx}.bam')
    write_records(inp, records)
    pysam.index(inp)
    cmd = [inp, '-method', params['mode'], '-o', out, '-umi_hamming_distance', str(params['hamming'])]
    if params['mode'] == 'chic':
        cmd += ['-assignment_radius', str(params['radius'])]
    sink = io.StringIO()
    with contextlib.redirect_stdout(sink), contextlib.redirect_stderr(sink):
        tm.run_multiome_tagging_cmd(cmd)
    by_name = read_output(out)
    groups = defaultdict(list)
    for n, recs in by_name.items():
        mis = {r.get_tag('mi') if r.has_tag('mi') else None for r in recs}
        if len(mis) != 1 or None in mis:
            fail(f'{label}: {n} has no unique molecule identifier {mis}')
            continue
        groups[next(iter(mis))].append(n)
    mols = list(groups.values())
    check_partition(label, mols, truth, params, rpf)
    check_tags(label, mols, by_name, truth, params, rpf)
    stats['cli_runs'] += 1


def probe_messages(tmp, rng):
    """raw texts (exception of a full molecule, progress report of the iterator) for the digest;
    the fragment which does not fit has to be refused with an OverflowError"""
    params, records, truth = simulate_library(rng, 0)
    inp = os.path.join(tmp, 'probe.bam')
    write_records(inp, records)
    with pysam.AlignmentFile(inp) as f:
        it = MoleculeIterator(f, molecule_class_args={'max_associated_fragments': 1}, check_eject_every=None)
        for i, m in enumerate(it):
            if i == 0:
                digest.update(repr(it).split('Mate pair iterator')[0].encode())
                try:
                    m.add_fragment(m[0])
                    fail('probe: a full molecule accepted another fragment')
                except OverflowError as e:
                    digest.update(f'{type(e).__name__}:{e}'.encode())
                if len(m) != 1:
                    fail('probe: a full molecule grew')


def main():
    rng = random.Random(20240606)
    with tempfile.TemporaryDirectory(prefix='c06_demo_') as tmp:
        for lib_index in range(N_LIBRARIES):
            run_library(tmp, rng, lib_index)
        for idx in range(N_CLI):
            run_cli(tmp, rng, idx)
        probe_messages(tmp, rng)
    print('checked:', dict(sorted(stats.items())))
    print('BEHAVIOUR DIGEST', digest.hexdigest())
    if problems:
        print(f'PROPERTY VIOLATED ({len(problems)} problems)')
        return 1
    print('PROPERTY HOLDS')
    return 0


if __name__ == '__main__':
    sys.exit(main())
