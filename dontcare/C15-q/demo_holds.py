#!/usr/bin/env python3
"""Independent check of property C15 (molecule consensus pseudo-reads).

Builds a random reference and a few hundred synthetic scCHIC molecules (gapped coverage, gaps beyond
max_N_span, reverse strand, single fragment, conflicting bases with equal / unequal qualities),
requests the consensus through the API (deduplicate_majority, write_pysam with and without source reads)
and through the bamtagmultiome --consensus command line (with and without --no_source_reads) and verifies
every consensus record with an oracle which only uses the generated read specifications.

Prints "PROPERTY HOLDS" (exit 0) or the violations (exit 1), and a "BEHAVIOUR DIGEST" over the raw outputs.
"""
import sys
import os
import re
import math
import random
import hashlib
import shutil
import tempfile
import contextlib
import io
from collections import defaultdict

import pysam

import singlecellmultiomics.molecule
import singlecellmultiomics.fragment
from singlecellmultiomics.molecule import MoleculeIterator
import singlecellmultiomics.universalBamTagger.bamtagmultiome as tm

SEED = 20150915
N_MOLECULES = 320
CONTIGS = {'chr1': 60_000, 'chr2': 40_000}
QUALS = [2, 8, 12, 20, 20, 30, 30, 37, 37, 41]

violations = []
digest_lines = []
stats = defaultdict(int)


def fail(msg):
    violations.append(msg)


# ----------------------------------------------------------------------------------------------
# Input generation
# ----------------------------------------------------------------------------------------------

def make_reference(rng, folder):
    seqs = {}
    path = os.path.join(folder, 'ref.fa')
    with open(path, 'w') as o:
        for contig, length in CONTIGS.items():
            seq = [rng.choice('ACGT') for _ in range(length)]
            # some soft masked (lower case) stretches
            for _ in range(length // 3000):
                s = rng.randrange(0, length - 200)
                for k in range(s, s + rng.randrange(20, 200)):
                    seq[k] = seq[k].lower()
            seq = ''.join(seq)
            seqs[contig] = seq
            o.write(f'>{contig}\n')
            for k in range(0, length, 60):
                o.write(seq[k:k + 60] + '\n')
    pysam.faidx(path)
    return path, seqs


def walk_cigar(start, cigar):
    """own CIGAR walker: yields (query_index, reference_position) for aligned (M) bases"""
    q = 0
    r = start
    for amount, op in cigar:
        if op == 'M':
            for k in range(amount):
                yield q + k, r + k
            q += amount
            r += amount
        elif op == 'I' or op == 'S':
            q += amount
        elif op == 'D' or op == 'N':
            r += amount
        else:
            raise ValueError(op)


def cigar_ref_len(cigar):
    return sum(a for a, op in cigar if op in 'MDN')


def cigar_query_len(cigar):
    return sum(a for a, op in cigar if op in 'MIS')


def random_cigar(rng, length, allow_indel):
    """length: amount of query bases"""
    if not allow_indel or length < 30:
        return [(length, 'M')]
    kind = rng.choice(['D', 'I', 'S_end', 'S_start', 'M', 'M'])
    if kind == 'M':
        return [(length, 'M')]
    if kind == 'D':
        a = rng.randrange(8, length - 8)
        return [(a, 'M'), (rng.randrange(1, 6), 'D'), (length - a, 'M')]
    if kind == 'I':
        ins = rng.randrange(1, 4)
        a = rng.randrange(8, length - 8 - ins)
        return [(a, 'M'), (ins, 'I'), (length - a - ins, 'M')]
    clip = rng.randrange(1, 8)
    if kind == 'S_end':
        return [(length - clip, 'M'), (clip, 'S')]
    return [(clip, 'S'), (length - clip, 'M')]


def make_read_seq(rng, refseq, start, cigar, error_rate):
    qlen = cigar_query_len(cigar)
    seq = [rng.choice('ACGT') for _ in range(qlen)]
    quals = [rng.choice(QUALS) for _ in range(qlen)]
    for q, r in walk_cigar(start, cigar):
        base = refseq[r].upper()
        if rng.random() < error_rate:
            base = rng.choice([b for b in 'ACGT' if b != base])
        seq[q] = base
    return seq, quals


def generate_molecules(rng, refseqs):
    molecules = []
    for i in range(N_MOLECULES):
        contig = rng.choice(list(CONTIGS))
        refseq = refseqs[contig]
        reverse = rng.random() < 0.4
        anchor = rng.randrange(2000, CONTIGS[contig] - 2000)  # R1 start (forward) or R1 end, exclusive (reverse)
        if i % 9 == 0:
            n_frag = 1
        elif i == 100:
            n_frag = 9
        else:
            n_frag = rng.choice([1, 2, 2, 3, 3, 4])
        umi = ''.join(rng.choice('ACGT') for _ in range(rng.choice([3, 6, 8])))
        sample = f'cell{i:04d}'
        error_rate = rng.choice([0, 0.01, 0.05, 0.2])
        frags = []
        for f in range(n_frag):
            r1_len = rng.randrange(30, 76)
            r1_cigar = [(r1_len, 'M')]
            r1_start = anchor - r1_len if reverse else anchor
            r1_seq, r1_qual = make_read_seq(rng, refseq, r1_start, r1_cigar, error_rate)
            reads = [dict(name=f'src_{i}_{f}', start=r1_start, cigar=r1_cigar, seq=r1_seq, qual=r1_qual,
                          reverse=reverse, read1=True)]
            if rng.random() < 0.75:
                r2_qlen = rng.randrange(30, 76)
                r2_cigar = random_cigar(rng, r2_qlen, allow_indel=rng.random() < 0.3)
                r2_reflen = cigar_ref_len(r2_cigar)
                gap_kind = rng.choice(['overlap', 'small', 'small', 'medium', 'large', 'large'])
                if gap_kind == 'overlap':
                    gap = -rng.randrange(1, 25)
                elif gap_kind == 'small':
                    gap = rng.randrange(0, 45)
                elif gap_kind == 'medium':
                    gap = rng.randrange(45, 280)
                else:
                    gap = rng.randrange(301, 560)
                if reverse:
                    r2_start = r1_start - gap - r2_reflen
                else:
                    r2_start = r1_start + r1_len + gap
                r2_seq, r2_qual = make_read_seq(rng, refseq, r2_start, r2_cigar, error_rate)
                reads.append(dict(name=f'src_{i}_{f}', start=r2_start, cigar=r2_cigar, seq=r2_seq, qual=r2_qual,
                                  reverse=not reverse, read1=False))
            frags.append(reads)

        # Crafted conflicts in the part shared by all R1 reads
        if n_frag >= 2:
            shared = min(len(fr[0]['seq']) for fr in frags)
            for _ in range(3):
                off = rng.randrange(0, shared)  # offset from the anchor side
                ref_pos = (anchor - 1 - off) if reverse else (anchor + off)
                base_a, base_b = rng.sample('ACGT', 2)
                mode = rng.choice(['equal', 'unequal', 'equal'])
                qa = rng.choice([12, 20, 30, 37])
                qb = qa if mode == 'equal' else rng.choice([q for q in (2, 8, 20, 30, 41) if q != qa])
                for fr, (b, q) in zip(frags[:2], ((base_a, qa), (base_b, qb))):
                    r1 = fr[0]
                    qi = ref_pos - r1['start']
                    r1['seq'][qi] = b
                    r1['qual'][qi] = q
                if n_frag > 2 and mode == 'equal' and rng.random() < 0.5:
                    # the remaining fragments do not cover the site with a deciding vote: make them tie as well
                    for k, fr in enumerate(frags[2:]):
                        r1 = fr[0]
                        qi = ref_pos - r1['start']
                        r1['seq'][qi] = (base_a, base_b)[k % 2]
                        r1['qual'][qi] = qa

        site = (anchor + 1) if reverse else (anchor - 2)  # scCHIC, trimmed ligation base
        molecules.append(dict(index=i, sample=sample, umi=umi, contig=contig, reverse=reverse, site=site,
                              frags=frags))
    return molecules


def write_input_bam(molecules, folder):
    header = {'HD': {'VN': '1.6', 'SO': 'coordinate'},
              'SQ': [{'SN': c, 'LN': l} for c, l in CONTIGS.items()]}
    unsorted_path = os.path.join(folder, 'input.unsorted.bam')
    path = os.path.join(folder, 'input.bam')
    with pysam.AlignmentFile(unsorted_path, 'wb', header=header) as out:
        for m in molecules:
            for reads in m['frags']:
                for k, r in enumerate(reads):
                    a = pysam.AlignedSegment(out.header)
                    a.query_name = r['name']
                    a.reference_name = m['contig']
                    a.reference_start = r['start']
                    a.query_sequence = ''.join(r['seq'])
                    a.query_qualities = pysam.qualitystring_to_array(''.join(chr(q + 33) for q in r['qual']))
                    a.cigarstring = ''.join(f'{n}{op}' for n, op in r['cigar'])
                    a.mapping_quality = 60
                    a.is_reverse = r['reverse']
                    if len(reads) == 2:
                        mate = reads[1 - k]
                        a.is_paired = True
                        a.is_proper_pair = True
                        a.mate_is_reverse = mate['reverse']
                        a.next_reference_name = m['contig']
                        a.next_reference_start = mate['start']
                        lo = min(x['start'] for x in reads)
                        hi = max(x['start'] + cigar_ref_len(x['cigar']) for x in reads)
                        a.template_length = (hi - lo) * (1 if r['start'] == lo else -1)
                        a.is_read1 = r['read1']
                        a.is_read2 = not r['read1']
                    else:
                        a.is_paired = True
                        a.mate_is_unmapped = True
                        a.is_read1 = True
                    a.set_tag('SM', m['sample'])
                    a.set_tag('RX', m['umi'])
                    a.set_tag('BC', 'ACGTACGT')
                    a.set_tag('MX', 'scCHIC')
                    a.set_tag('MI', 'ACGTACGT' + m['umi'])
                    out.write(a)
    pysam.sort('-o', path, unsorted_path)
    pysam.index(path)
    os.remove(unsorted_path)
    return path


# ----------------------------------------------------------------------------------------------
# Oracle
# ----------------------------------------------------------------------------------------------

def expected_observations(m):
    """ reference position -> list of (base, phred) """
    obs = defaultdict(list)
    for reads in m['frags']:
        for r in reads:
            for q, ref_pos in walk_cigar(r['start'], r['cigar']):
                obs[ref_pos].append((r['seq'][q], r['qual'][q]))
    return obs


def acceptable_calls(observations):
    """Most likely call(s) for one position. Hypotheses: each observed base, and 'N' (every observation is wrong).
    likelihood(base) = prod(p_correct of the reads showing it) / 0.25^(n-1). Returns the set of acceptable
    letters: a single letter when the decision is clear, {'N'} for an exact tie and the tied letters plus N when
    the tie is only up to floating point noise."""
    per_base = defaultdict(list)
    for base, q in observations:
        per_base[base].append(1 - 10 ** (-q / 10))
    loglik = {}
    for base, ps in per_base.items():
        if any(p <= 0 for p in ps):
            loglik[base] = -math.inf
        else:
            loglik[base] = sum(math.log(p) for p in ps) - (len(ps) - 1) * math.log(0.25)
    wrong = [1 - p for ps in per_base.values() for p in ps]
    loglik['N'] = sum(math.log(p) for p in wrong) - (len(wrong) - 1) * math.log(0.25)
    ranked = sorted(loglik.items(), key=lambda kv: -kv[1])
    best, best_ll = ranked[0]
    ties = [b for b, ll in ranked if ll == best_ll or abs(ll - best_ll) < 1e-9]
    if len(ties) == 1:
        return {best}, False
    # exact tie (same multiset of qualities) has to be N, near ties are undecidable for a float implementation
    signature = {b: sorted(q for bb, q in observations if bb == b) for b in ties if b != 'N'}
    exact = 'N' not in ties and len(set(map(tuple, signature.values()))) == 1
    if exact:
        return {'N'}, True
    return set(ties) | {'N'}, True


def parse_md(md):
    """ -> list of reference letters / None (match) per aligned base; supports 5A0C3 as well as 5AC3 """
    out = []
    for number, deletion, letter in re.findall(r'(\d+)|(\^[A-Za-z]+)|([A-Za-z])', md):
        if number:
            out.extend([None] * int(number))
        elif deletion:
            raise ValueError('deletion in MD of a consensus read')
        else:
            out.append(letter)
    return out


def record_blocks(rec):
    """ own walk over the cigar of the record -> list of (query_index, reference_position) """
    pairs = []
    q = 0
    r = rec.reference_start
    for op, amount in rec.cigartuples:
        if op == 0:
            pairs.extend((q + k, r + k) for k in range(amount))
            q += amount
            r += amount
        elif op == 3 or op == 2:
            r += amount
        elif op in (1, 4):
            q += amount
        else:
            raise ValueError(f'unexpected cigar operation {op}')
    return pairs, q


def check_molecule(where, m, records, refseqs, max_N_span=None):
    tag = f'[{where}] molecule {m["sample"]}'
    if len(records) == 0:
        fail(f'{tag}: no consensus record')
        return
    obs = expected_observations(m)
    refseq = refseqs[m['contig']]
    covered = set()
    n_frags = len(m['frags'])
    for rec in records:
        if rec.is_unmapped or rec.reference_name != m['contig']:
            fail(f'{tag}: record not mapped to {m["contig"]}')
            continue
        pairs, qlen = record_blocks(rec)
        seq = rec.query_sequence
        quals = rec.query_qualities
        if seq is None or quals is None or not (len(seq) == len(quals) == qlen):
            fail(f'{tag}: sequence/quality/CIGAR lengths disagree '
                 f'({None if seq is None else len(seq)}, {None if quals is None else len(quals)}, {qlen})')
            continue
        positions = [r for q, r in pairs]
        if covered & set(positions):
            fail(f'{tag}: records overlap')
        covered.update(positions)
        # MD
        if not rec.has_tag('MD'):
            fail(f'{tag}: no MD tag')
        else:
            try:
                md = parse_md(rec.get_tag('MD'))
            except ValueError as e:
                fail(f'{tag}: {e}')
                md = None
            if md is not None:
                if len(md) != len(pairs):
                    fail(f'{tag}: MD describes {len(md)} bases, the alignment {len(pairs)}')
                else:
                    for (q, r), letter in zip(pairs, md):
                        ref_base = refseq[r].upper()
                        implied = seq[q].upper() if letter is None else letter.upper()
                        if implied != ref_base:
                            fail(f'{tag}: MD does not match the reference at {r}')
                            break
        # base calls
        for q, r in pairs:
            if r not in obs:
                continue  # reported as a coverage violation below
            ok, tie = acceptable_calls(obs[r])
            stats['positions'] += 1
            if tie:
                stats['tied_positions'] += 1
            if seq[q] == 'N':
                stats['N_calls'] += 1
            if seq[q] not in ok:
                fail(f'{tag}: base {seq[q]} at {r}, expected {sorted(ok)} given {obs[r]}')
                break
        # tags
        for key, expected in (('SM', m['sample']), ('RX', m['umi']), ('DS', m['site']), ('TF', n_frags)):
            if not rec.has_tag(key):
                fail(f'{tag}: tag {key} missing')
            elif rec.get_tag(key) != expected:
                fail(f'{tag}: tag {key}={rec.get_tag(key)!r}, expected {expected!r}')
        if rec.is_reverse != m['reverse']:
            stats['strand_flag_differs'] += 1
    if covered != set(obs):
        fail(f'{tag}: aligned blocks differ from the molecule coverage '
             f'(missing {len(set(obs) - covered)}, extra {len(covered - set(obs))})')
    stats['molecules_checked'] += 1
    stats['records_checked'] += len(records)
    if len(records) > 1:
        stats['molecules_with_multiple_records'] += 1
    if m['reverse']:
        stats['reverse_molecules_checked'] += 1
    if n_frags == 1:
        stats['single_fragment_molecules_checked'] += 1


UUID_RE = re.compile(r'[0-9a-f]{8}-[0-9a-f]{4}-[0-9a-f]{4}-[0-9a-f]{4}-[0-9a-f]{12}|[0-9a-f]{12,32}')


def raw(rec):
    """raw text of a record, the per run random part of generated names is masked"""
    fields = rec.to_string().split('\t')
    fields[0] = UUID_RE.sub('<RANDOM>', fields[0])
    return '\t'.join(fields)


def check_file(where, path, molecules_by_sample, expected_samples, refseqs, expect_source_reads, ordered_digest):
    source_names = {r['name'] for m in molecules_by_sample.values() for fr in m['frags'] for r in fr}
    per_sample = defaultdict(list)
    n_source = 0
    lines = []
    with pysam.AlignmentFile(path) as f:
        for rec in f:
            lines.append(raw(rec))
            if rec.query_name in source_names:
                n_source += 1
                continue
            if not rec.has_tag('SM'):
                fail(f'[{where}] consensus record without SM tag: {rec.query_name}')
                continue
            per_sample[rec.get_tag('SM')].append(rec)
    if not ordered_digest:
        lines.sort()
    digest_lines.append(f'## {where}')
    digest_lines.extend(lines)
    for sample in expected_samples:
        check_molecule(where, molecules_by_sample[sample], per_sample.get(sample, []), refseqs)
    for sample in set(per_sample) - set(expected_samples):
        fail(f'[{where}] consensus record for unexpected sample {sample}')
    n_expected_source = sum(len(fr) for s in expected_samples for fr in molecules_by_sample[s]['frags'])
    if expect_source_reads and n_source != n_expected_source:
        fail(f'[{where}] {n_source} source reads written, expected {n_expected_source}')
    if not expect_source_reads and n_source != 0:
        fail(f'[{where}] {n_source} source reads written, expected none')


# ----------------------------------------------------------------------------------------------
def main():
    rng = random.Random(SEED)
    folder = tempfile.mkdtemp(prefix='c15_demo_')
    cwd = os.getcwd()
    try:
        ref_path, refseqs = make_reference(rng, folder)
        molecules = generate_molecules(rng, refseqs)
        by_sample = {m['sample']: m for m in molecules}
        bam_path = write_input_bam(molecules, folder)

        # ---- API -------------------------------------------------------------------------------
        api_with = os.path.join(folder, 'api_with_source.bam')
        api_without = os.path.join(folder, 'api_without_source.bam')
        with_samples, without_samples, seen = [], [], set()
        reference = pysam.FastaFile(ref_path)
        with pysam.AlignmentFile(bam_path) as f, \
                pysam.AlignmentFile(api_with, 'wb', header=f.header) as out_with, \
                pysam.AlignmentFile(api_without, 'wb', header=f.header) as out_without:
            it = MoleculeIterator(f,
                                  molecule_class=singlecellmultiomics.molecule.CHICMolecule,
                                  fragment_class=singlecellmultiomics.fragment.CHICFragment,
                                  molecule_class_args={'reference': reference},
                                  yield_invalid=True)
            digest_lines.append('## api deduplicate_majority')
            for molecule in it:
                sample = molecule.sample
                if sample in seen:
                    fail(f'[api] sample {sample} yielded as more than one molecule')
                    continue
                seen.add(sample)
                m = by_sample[sample]
                molecule.write_tags()
                max_N_span = (None, 30, 100, 300, 1000)[m['index'] % 5]
                records = molecule.deduplicate_majority(out_with, f'consensus_{sample}', max_N_span=max_N_span)
                records = list(records)
                digest_lines.append(f'# {sample} max_N_span={max_N_span}')
                digest_lines.extend(raw(r) for r in records)
                check_molecule(f'api max_N_span={max_N_span}', m, records, refseqs, max_N_span)
                if max_N_span is not None:
                    for rec in records:
                        if any(op == 3 and amount > max_N_span for op, amount in rec.cigartuples):
                            stats['records_with_gap_over_max_N_span'] += 1
                # write_pysam, with and without the source reads
                if m['index'] % 2 == 0:
                    molecule.write_pysam(out_with, consensus=True)
                    with_samples.append(sample)
                else:
                    molecule.write_pysam(out_without, consensus=True, no_source_reads=True)
                    without_samples.append(sample)
        missing = set(by_sample) - seen
        if missing:
            fail(f'[api] {len(missing)} molecules were not yielded')
        check_file('api write_pysam with source reads', api_with, by_sample, with_samples, refseqs, True, True)
        check_file('api write_pysam without source reads', api_without, by_sample, without_samples, refseqs, False,
                   True)

        # ---- command line ----------------------------------------------------------------------
        os.chdir(folder)
        for label, extra, expect_source in (('with source reads', '', True),
                                            ('--no_source_reads', ' --no_source_reads', False)):
            out_path = os.path.join(folder, f'cli_{int(expect_source)}.bam')
            cmd = f'{bam_path} -method chic --multiprocess --consensus{extra} -ref {ref_path} -o {out_path} ' \
                  f'-tagthreads 2 -temp_folder {folder}'
            sink = io.StringIO()
            with contextlib.redirect_stdout(sink), contextlib.redirect_stderr(sink):
                tm.run_multiome_tagging_cmd(cmd.split(' '))
            check_file(f'cli --consensus {label}', out_path, by_sample, list(by_sample), refseqs, expect_source,
                       False)
    finally:
        os.chdir(cwd)
        shutil.rmtree(folder, ignore_errors=True)

    print('statistics:', dict(sorted(stats.items())))
    digest = hashlib.sha256('\n'.join(digest_lines).encode()).hexdigest()
    print(f'BEHAVIOUR DIGEST {digest}')
    if violations:
        print(f'PROPERTY VIOLATED ({len(violations)} violations)')
        for v in violations[:40]:
            print('  ', v)
        return 1
    if stats['molecules_checked'] < 300 or stats['tied_positions'] == 0 or stats['N_calls'] == 0 \
            or stats['molecules_with_multiple_records'] == 0 or stats['reverse_molecules_checked'] == 0 \
            or stats['single_fragment_molecules_checked'] == 0:
        print('PROPERTY NOT EXERCISED: the inputs did not reach the corner cases')
        return 2
    print('PROPERTY HOLDS')
    return 0


if __name__ == '__main__':
    sys.exit(main())
