#!/usr/bin/env python3
# -*- coding: utf-8 -*-
"""Independent check of property C01:

  Demultiplexing conserves every read pair (demultiplexed XOR rejected); the R1 / R2
  outputs stay mate-synchronised, keep the input order, and the reported counters equal
  the number of records written.

The script builds a few hundred small FASTQ libraries (whitelisted, 1-mismatch, unknown and
truncated barcodes, reads shorter than the barcode+UMI prefix, empty reads, N bases, every
phred value 0..93, Illumina / short / already demultiplexed headers), demultiplexes them with
every registered strategy (paired / single end, with / without rejects handle, joint and
one-file-per-cell output, several maxReadPairs cut-offs) and verifies the statement with an
oracle of its own that only looks at the written files, the returned counters and the log.

It prints "PROPERTY HOLDS" (exit 0) or the violations (exit 1) and a line
"BEHAVIOUR DIGEST <sha256>" computed over all raw outputs (file names, raw gzip bytes with the
time stamp blanked, logs, returned counters, and what happens on a few inputs OUTSIDE the
scope of the property: malformed FASTQ files, three mate files).
"""
import collections
import glob
import gzip
import hashlib
import importlib.resources as resources
import io
import contextlib
import os
import random
import shutil
import sys
import tempfile

import singlecellmultiomics.barcodeFileParser.barcodeFileParser as barcodeFileParser
from singlecellmultiomics.modularDemultiplexer.demultiplexingStrategyLoader import DemultiplexingStrategyLoader
from singlecellmultiomics.fastqProcessing.fastqHandle import FastqHandle

SKIP_STRATEGIES = set(
    () if os.environ.get('DEMO_WITH_10X') else ('CHROMC16U12',))  # 3M barcode whitelist: slow to load
LIBRARY = 'LIBX'
ALL_PHRED = ''.join(chr(33 + q) for q in range(94))

digest = hashlib.sha256()
violations = []


def feed(*parts):
    for part in parts:
        if not isinstance(part, bytes):
            part = str(part).encode('utf-8', 'replace')
        digest.update(len(part).to_bytes(8, 'little'))
        digest.update(part)


def violation(case, message):
    violations.append(f'{case}: {message}')


# ----------------------------------------------------------------------------------------
# Input construction
# ----------------------------------------------------------------------------------------
def rand_seq(rng, n, alphabet='ACGT'):
    return ''.join(rng.choice(alphabet) for _ in range(n))


def rand_qual(rng, n):
    mode = rng.random()
    if mode < 0.3:
        return ''.join(rng.choice(ALL_PHRED) for _ in range(n))
    if mode < 0.4:
        return ''.join(ALL_PHRED[(i * 7) % 94] for i in range(n))
    if mode < 0.5:
        return rng.choice('!~J') * n
    return ''.join(rng.choice('AEFIJ<6/#') for _ in range(n))


def mutate(rng, barcode):
    pos = rng.randrange(len(barcode))
    other = rng.choice([b for b in 'ACGT' if b != barcode[pos]])
    return barcode[:pos] + other + barcode[pos + 1:]


class Layout:
    """Where a strategy expects barcode (and UMI) - only used to build interesting inputs."""

    def __init__(self, strategy, barcodeParser):
        self.read = 0
        self.pieces = None  # list of (start, end) on self.read
        self.whitelist = []
        alias = getattr(strategy, 'barcodeFileAlias', None)
        if alias is not None and alias not in barcodeParser.pending_files:
            self.whitelist = sorted(barcodeParser.barcodes[alias].keys())
        if getattr(strategy, 'barcode_slices', None) is not None:
            for read_index, slices in enumerate(strategy.barcode_slices):
                if len(slices):
                    self.read = read_index
                    self.pieces = [(s.start, s.stop) for s in slices]
                    break
        elif getattr(strategy, 'barcodeLength', None) is not None and getattr(strategy, 'barcodeStart', None) is not None:
            self.read = strategy.barcodeRead
            self.pieces = [(strategy.barcodeStart, strategy.barcodeStart + strategy.barcodeLength)]
        if self.pieces is None or not self.whitelist:
            # Strategy without a simple layout: pretend an 8bp barcode after a 3bp UMI
            self.pieces = self.pieces or [(3, 11)]
        umi_end = (getattr(strategy, 'umiStart', 0) or 0) + (getattr(strategy, 'umiLength', 0) or 0)
        self.prefix = max(max(e for _, e in self.pieces), umi_end)

    def embed(self, rng, seq, barcode):
        seq = list(seq)
        offset = 0
        for start, end in self.pieces:
            piece = barcode[offset:offset + (end - start)]
            seq[start:start + len(piece)] = piece
            offset += end - start
        return ''.join(seq)


# Headers the tool cannot parse at all (e.g. '@r12') are left out: they are not one of the
# header families the property names (Illumina / short Illumina / 3-DEC / already demultiplexed)
HEADER_STYLES = ('illumina_index', 'illumina_noindex', 'illumina_badindex', 'illumina7', 'scmo', 'threedec')


def make_headers(rng, style, i, n_mates, known_index):
    x = 1000 + 7 * i
    y = 2000 + 13 * i + rng.randrange(5)
    tile = 11101
    if style == 'illumina_index':
        base = f'@NS500413:32:H14TKBGXX:2:{tile}:{x}:{y}'
        headers = [f'{base} {m + 1}:N:0:{known_index}' for m in range(n_mates)]
    elif style == 'illumina_noindex':
        base = f'@NS500413:32:H14TKBGXX:2:{tile}:{x}:{y}'
        headers = [f'{base} {m + 1}:N:0::' for m in range(n_mates)]
    elif style == 'illumina_badindex':
        base = f'@NS500413:32:H14TKBGXX:2:{tile}:{x}:{y}'
        headers = [f'{base} {m + 1}:N:0:GGGGGGGGGGGGGGGGGGGGG' for m in range(n_mates)]
    elif style == 'illumina7':
        headers = [f'@M01:7:FCX:1:{tile}:{x}:{y}' for m in range(n_mates)]
    elif style == 'scmo':
        headers = [
            f'@Is:NS500413;RN:32;Fc:H14TKBGXX;La:2;Ti:{tile};CX:{x};CY:{y};RP:{m + 1};Fi:N;CN:0;aa:{known_index};LY:OLDLIB'
            for m in range(n_mates)]
    elif style == 'threedec':
        tile = 500000 + i
        x, y = -1, -1
        headers = [f'@Cluster_s_1_{tile}_1' for m in range(n_mates)]
    else:
        headers = [f'@r{i}' for m in range(n_mates)]
        return ('bare', f'@r{i}'), headers
    return (str(tile), str(x), str(y)), headers


def make_library(rng, strategy, barcodeParser, n_mates, known_index):
    layout = Layout(strategy, barcodeParser)
    n_reads = rng.choice((0, 1, 2, 5, 9, 14, 20, 25))
    main_style = rng.choice(HEADER_STYLES[:2])
    reads = []
    for i in range(n_reads):
        style = main_style if rng.random() < 0.7 else rng.choice(HEADER_STYLES)
        key, headers = make_headers(rng, style, i, n_mates, known_index)
        kind = rng.choice(('white', 'white', 'white', 'mismatch', 'unknown', 'truncated', 'short', 'empty', 'nbases', 'allphred'))
        mates = []
        for m in range(n_mates):
            length = rng.randrange(layout.prefix + 8, layout.prefix + 60)
            seq = rand_seq(rng, length)
            qual = rand_qual(rng, length)
            if kind == 'allphred':
                length = max(length, 94 + layout.prefix)
                seq = rand_seq(rng, length)
                qual = (ALL_PHRED * 3)[:length] if rng.random() < 0.5 else (ALL_PHRED[::-1] * 3)[:length]
            if m == layout.read or n_mates == 1:
                if layout.whitelist and kind in ('white', 'mismatch', 'truncated', 'nbases', 'allphred'):
                    barcode = rng.choice(layout.whitelist)
                    if kind == 'mismatch':
                        barcode = mutate(rng, barcode)
                    seq = layout.embed(rng, seq, barcode)[:length]
                if kind == 'nbases':
                    seq = ''.join('N' if rng.random() < 0.15 else b for b in seq)
                if kind == 'truncated':
                    cut = rng.randrange(1, layout.prefix)
                    seq, qual = seq[:cut], qual[:cut]
                if kind == 'short':
                    cut = rng.randrange(1, 4)
                    seq, qual = seq[:cut], qual[:cut]
            if kind == 'empty' and (rng.random() < 0.7 or m == 0):
                seq, qual = '', ''
            plus = '+' if rng.random() < 0.9 else '+' + headers[m][1:]
            mates.append((headers[m], seq, plus, qual))
        reads.append((key, mates))
    return reads


def write_fastq(path, records, newline='\n'):
    payload = ''.join(newline.join(rec) + newline for rec in records)
    if path.endswith('.gz'):
        with gzip.open(path, 'wt', newline='') as h:
            h.write(payload)
    else:
        with open(path, 'w', newline='') as h:
            h.write(payload)


# ----------------------------------------------------------------------------------------
# Output parsing (independent of the code under test)
# ----------------------------------------------------------------------------------------
def normalised_gzip_bytes(raw):
    """Blank the 4 byte MTIME field of every gzip member that starts the file (members that
    follow are found by decompressing member by member)."""
    import zlib
    out = bytearray()
    data = raw
    while data:
        if len(data) >= 10 and data[:2] == b'\x1f\x8b':
            member = bytearray(data)
            member[4:8] = b'\0\0\0\0'
            d = zlib.decompressobj(wbits=31)
            d.decompress(bytes(data))
            consumed = len(data) - len(d.unused_data)
            out += member[:consumed]
            data = d.unused_data
        else:
            out += data
            break
    return bytes(out)


def read_fastq_gz(path):
    with open(path, 'rb') as h:
        raw = h.read()
    text = gzip.decompress(raw).decode('utf-8') if raw else ''
    if text == '':
        return []
    if not text.endswith('\n'):
        raise ValueError(f'{path} does not end with a newline')
    lines = text[:-1].split('\n')
    if len(lines) % 4:
        raise ValueError(f'{path} has {len(lines)} lines, not a multiple of four')
    return [tuple(lines[i:i + 4]) for i in range(0, len(lines), 4)]


def header_tags(header):
    tags = collections.OrderedDict()
    for part in header[1:].split(';'):
        k, _, v = part.partition(':')
        tags.setdefault(k, v)
    return tags


def key_of_raw_header(header):
    """Key of a header that was kept as it was in the input (Illumina / 3-DEC / bare)."""
    if header.startswith('@Cluster_s_'):
        return (header.split('_')[3], '-1', '-1')
    fields = header.split(' ')[0].split(':')
    if len(fields) >= 7:
        return (fields[4], fields[5], fields[6])
    return ('bare', header)


def key_of_output(record, bare_headers):
    header = record[0]
    if header.startswith('@Is:'):
        tags = header_tags(header)
        return (tags.get('Ti'), tags.get('CX'), tags.get('CY'))
    # Unparsable input headers are kept and get ;RR:<reason> appended
    return key_of_raw_header(header.split(';RR:')[0])


# ----------------------------------------------------------------------------------------
# One demultiplexing run + oracle
# ----------------------------------------------------------------------------------------
def run_case(case, dmx, strategy, reads, n_mates, with_rejects, per_cell, max_pairs, workdir, gz_input, newline):
    os.makedirs(workdir)
    ext = '.fastq.gz' if gz_input else '.fastq'
    in_paths = [os.path.join(workdir, f'in_R{m + 1}{ext}') for m in range(n_mates)]
    for m, p in enumerate(in_paths):
        write_fastq(p, [mates[m] for _, mates in reads], newline=newline)

    out_prefix = os.path.join(workdir, 'demultiplexed')
    rej_prefix = os.path.join(workdir, 'rejects')
    handle = FastqHandle(out_prefix, n_mates == 2, single_cell=per_cell, maxHandles=3)
    reject_handle = FastqHandle(rej_prefix, n_mates == 2) if with_rejects else None
    log = io.StringIO()
    stdout = io.StringIO()
    with contextlib.redirect_stdout(stdout):
        processed, yields = dmx.demultiplex(
            in_paths, strategies=[strategy], targetFile=handle, rejectHandle=reject_handle,
            log_handle=log, library=LIBRARY, maxReadPairs=max_pairs)
    handle.close()
    if reject_handle is not None:
        reject_handle.close()

    # ---------------- raw behaviour digest
    feed('CASE', case, processed, sorted(yields.items()), log.getvalue())
    for path in sorted(glob.glob(os.path.join(workdir, '*'))):
        name = os.path.basename(path)
        if name.startswith('in_R'):
            continue
        with open(path, 'rb') as h:
            feed(name, normalised_gzip_bytes(h.read()))

    # ---------------- oracle
    n = len(reads)
    expected_processed = n if max_pairs is None else min(n, max_pairs)
    if processed != expected_processed:
        violation(case, f'returned {processed} processed read pairs, expected {expected_processed}')
    index_of_key = {}
    for i, (key, mates) in enumerate(reads):
        if key in index_of_key:
            raise AssertionError('demo bug: duplicate key')
        index_of_key[key] = i
    bare_headers = [key[1] for key, _ in reads if key[0] == 'bare']
    # inputs whose header is neither parsable nor "bare" do not occur in this demo

    mate_names = ['R1', 'R2'][:n_mates]

    def load(prefix, per_cell_layout):
        """returns list of groups; a group is a list (one per mate) of record lists"""
        groups = []
        if per_cell_layout:
            firsts = sorted(glob.glob(f'{prefix}.*.R1.fastq.gz'))
            seconds = sorted(glob.glob(f'{prefix}.*.R2.fastq.gz'))
            if n_mates == 1 and seconds:
                violation(case, 'R2 per-cell files written for single end input')
            if n_mates == 2 and [p.replace('.R1.fastq.gz', '.R2.fastq.gz') for p in firsts] != seconds:
                violation(case, 'per-cell R1 and R2 files do not pair up')
            for p in firsts:
                group = [read_fastq_gz(p)]
                if n_mates == 2:
                    p2 = p.replace('.R1.fastq.gz', '.R2.fastq.gz')
                    group.append(read_fastq_gz(p2) if os.path.exists(p2) else [])
                groups.append(group)
        else:
            groups.append([read_fastq_gz(f'{prefix}{mn}.fastq.gz') for mn in mate_names])
            if n_mates == 1 and os.path.exists(f'{prefix}R2.fastq.gz'):
                violation(case, 'R2 output written for single end input')
        return groups

    def check_groups(groups, what):
        """mate synchrony + order; returns list of input indices written (in file order per group)"""
        written = []
        for group in groups:
            counts = [len(recs) for recs in group]
            if len(set(counts)) != 1:
                violation(case, f'{what}: mate files have different record counts {counts}')
                continue
            previous = -1
            for row in range(counts[0]):
                keys = [key_of_output(recs[row], bare_headers) for recs in group]
                if len(set(keys)) != 1:
                    violation(case, f'{what}: record {row} holds different fragments in R1 and R2: {keys}')
                    continue
                if keys[0] not in index_of_key:
                    violation(case, f'{what}: record {row} ({keys[0]}) is not an input read')
                    continue
                index = index_of_key[keys[0]]
                if index <= previous:
                    violation(case, f'{what}: input order not preserved at record {row}')
                previous = index
                written.append((index, [recs[row] for recs in group]))
        return written

    demuxed = check_groups(load(out_prefix, per_cell), 'demultiplexed')
    rejected = check_groups(load(rej_prefix, False), 'rejects') if with_rejects else []
    if not with_rejects and glob.glob(rej_prefix + '*'):
        violation(case, 'rejects written without a rejects handle')

    times_demuxed = collections.Counter(i for i, _ in demuxed)
    times_rejected = collections.Counter(i for i, _ in rejected)
    for i in range(n):
        total = times_demuxed[i] + times_rejected[i]
        if i >= expected_processed:
            if total:
                violation(case, f'read {i} lies behind the maxReadPairs cut-off but was written')
            continue
        if with_rejects and total != 1:
            violation(case, f'read {i} written {times_demuxed[i]}x to the output and {times_rejected[i]}x to the rejects')
        if not with_rejects and total > 1:
            violation(case, f'read {i} written {total}x')

    # rejected records: reason + original bases and qualities, mates in place
    for index, records in rejected:
        for m, record in enumerate(records):
            original = reads[index][1][m]
            if record[1] != original[1] or record[3] != original[3]:
                violation(case, f'rejected read {index} mate {m}: bases / qualities changed')
            marker = record[0].find('RR:')
            reason = record[0][marker + 3:].split(';')[0] if marker >= 0 else ''
            if marker < 0 or reason == '':
                violation(case, f'rejected read {index} mate {m}: no rejection reason in {record[0]!r}')
    # demultiplexed records: mates in place (the kept part is a part of the mate it came from)
    for index, records in demuxed:
        for m, record in enumerate(records):
            original = reads[index][1][m]
            if len(record[1]) != len(record[3]):
                violation(case, f'demultiplexed read {index} mate {m}: sequence and quality lengths differ')
            # the kept part stems from the mate on the same index: same offset in bases and qualities
            if not any(original[1][o:o + len(record[1])] == record[1] and original[3][o:o + len(record[3])] == record[3]
                       for o in range(len(original[1]) - len(record[1]) + 1)):
                violation(case, f'demultiplexed read {index} mate {m}: not a part of input mate {m}')
            if 'RR' in header_tags(record[0]):
                violation(case, f'demultiplexed read {index} carries a rejection reason')

    # counters
    n_demuxed, n_rejected = len(demuxed), len(rejected)
    if yields.get(strategy.shortName, 0) != n_demuxed:
        violation(case, f'yield counter {yields.get(strategy.shortName, 0)} != {n_demuxed} demultiplexed records written')
    if set(yields) - {strategy.shortName}:
        violation(case, f'yield counters for strategies which were not selected: {dict(yields)}')
    if with_rejects and processed != n_demuxed + n_rejected:
        violation(case, f'{processed} processed != {n_demuxed} demultiplexed + {n_rejected} rejected')
    log_lines = log.getvalue().split('\n')
    reported = [l for l in log_lines if l.startswith('processed ') and l.endswith(' read pairs')]
    if len(reported) != 1 or reported[0] != f'processed {processed} read pairs':
        violation(case, f'log reports {reported}, {processed} were processed')
    if 'Strategy\tReads' not in log_lines:
        violation(case, 'log has no yield table')
    else:
        table = {}
        for line in log_lines[log_lines.index('Strategy\tReads') + 1:]:
            cells = line.split('\t')
            if len(cells) == 2 and cells[1].isdigit():
                table[cells[0]] = int(cells[1])
        if table.get(strategy.shortName, 0) != n_demuxed or set(table) - {strategy.shortName}:
            violation(case, f'log yield table {table} but {n_demuxed} records written')
    return n_demuxed, n_rejected


# ----------------------------------------------------------------------------------------
# Inputs outside the scope of the property: only recorded in the digest
# ----------------------------------------------------------------------------------------
def out_of_scope(dmx, strategy, root, known_index):
    def attempt(name, files_content):
        workdir = os.path.join(root, name)
        os.makedirs(workdir)
        paths = []
        for i, content in enumerate(files_content):
            p = os.path.join(workdir, f'in_R{i + 1}.fastq')
            with open(p, 'w') as h:
                h.write(content)
            paths.append(p)
        handle = FastqHandle(os.path.join(workdir, 'demultiplexed'), len(paths) >= 2)
        rejects = FastqHandle(os.path.join(workdir, 'rejects'), len(paths) >= 2)
        log = io.StringIO()
        outcome = 'completed'
        with contextlib.redirect_stdout(io.StringIO()):
            try:
                result = dmx.demultiplex(paths, strategies=[strategy], targetFile=handle, rejectHandle=rejects,
                                         log_handle=log, library=LIBRARY)
                outcome = f'completed {result[0]} {sorted(result[1].items())}'
            except Exception as e:
                outcome = f'{type(e).__name__}: {e}'.replace(workdir, '<dir>')
        handle.close()
        rejects.close()
        feed('OUT-OF-SCOPE', name, outcome, log.getvalue())
        for path in sorted(glob.glob(os.path.join(workdir, '*.gz'))):
            with open(path, 'rb') as h:
                feed(os.path.basename(path), gzip.decompress(h.read()))

    def rec(i, mate, seq='ACGTACGTACGTACGTACGTACGTAAAA', qual=None):
        qual = 'I' * len(seq) if qual is None else qual
        return f'@NS500413:32:H14TKBGXX:2:11101:{1000 + i}:{2000 + i} {mate}:N:0:{known_index}\n{seq}\n+\n{qual}\n'

    r1 = ''.join(rec(i, 1) for i in range(4))
    r2 = ''.join(rec(i, 2) for i in range(4))
    attempt('r2_one_record_short', [r1, ''.join(rec(i, 2) for i in range(3))])
    attempt('last_record_cut', [r1 + '@NS500413:32:H14TKBGXX:2:11101:1:1 1:N:0:' + known_index + '\nACGT\n', r2 + rec(9, 2)])
    attempt('no_at_sign', [r1.replace('@NS', 'NS', 1), r2])
    attempt('qualities_shorter_than_bases', [rec(0, 1) + rec(1, 1, qual='III'), rec(0, 2) + rec(1, 2)])
    attempt('three_mate_files', [r1, r2, r2])


def main():
    base = str(resources.files('singlecellmultiomics'))
    with contextlib.redirect_stdout(io.StringIO()):
        barcodeParser = barcodeFileParser.BarcodeParser(
            hammingDistanceExpansion=1,
            barcodeDirectory=base + '/modularDemultiplexer/barcodes/',
            lazyLoad=("10x_3M-february-2018",))
        indexParser = barcodeFileParser.BarcodeParser(
            hammingDistanceExpansion=1, barcodeDirectory=base + '/modularDemultiplexer/indices/')
        dmx = DemultiplexingStrategyLoader(
            barcodeParser=barcodeParser, indexParser=indexParser,
            indexFileAlias='illumina_merged_ThruPlex48S_RP')
    known_index = sorted(indexParser.barcodes['illumina_merged_ThruPlex48S_RP'].keys())[3]

    strategies = [s for s in dmx.demultiplexingStrategies if s.shortName not in SKIP_STRATEGIES]
    root = tempfile.mkdtemp(prefix='c01_demo_')
    totals = collections.Counter()
    accepted_by = collections.Counter()
    try:
        case_number = 0
        for strategy in strategies:
            for n_mates in (2, 1):
                for with_rejects in (True, False):
                    for per_cell in (False, True):
                        for repeat in range(2):
                            case_number += 1
                            rng = random.Random(f'C01-{strategy.shortName}-{n_mates}-{with_rejects}-{per_cell}-{repeat}')
                            reads = make_library(rng, strategy, barcodeParser, n_mates, known_index)
                            n = len(reads)
                            max_pairs = rng.choice((None, None, 1, max(1, n // 2), max(1, n), n + 5))
                            case = (f'#{case_number} {strategy.shortName} mates={n_mates} rejects={with_rejects} '
                                    f'per_cell={per_cell} n={n} max={max_pairs}')
                            try:
                                d, r = run_case(case, dmx, strategy, reads, n_mates, with_rejects, per_cell, max_pairs,
                                                os.path.join(root, f'case{case_number}'),
                                                gz_input=rng.random() < 0.5,
                                                newline='\r\n' if rng.random() < 0.15 else '\n')
                                totals['demultiplexed'] += d
                                accepted_by[strategy.shortName] += d
                                totals['rejected'] += r
                                totals['reads'] += n
                            except Exception as e:
                                import traceback
                                violation(case, f'run failed: {type(e).__name__}: {e}\n{traceback.format_exc()}')
                            totals['cases'] += 1
        out_of_scope(dmx, [s for s in strategies if s.shortName == 'CS2C8U6'][0], os.path.join(root, 'oos'), known_index)
    finally:
        shutil.rmtree(root, ignore_errors=True)

    print(f'{totals["cases"]} runs over {len(strategies)} strategies, {totals["reads"]} input read (pair)s, '
          f'{totals["demultiplexed"]} demultiplexed, {totals["rejected"]} rejected')
    print(f'strategies that accepted at least one read: {sum(1 for v in accepted_by.values() if v)} '
          f'(none accepted by: {",".join(s.shortName for s in strategies if not accepted_by[s.shortName]) or "-"})')
    print(f'BEHAVIOUR DIGEST {digest.hexdigest()}')
    if violations:
        print(f'PROPERTY VIOLATED ({len(violations)} violations)')
        for v in violations[:40]:
            print('  ' + v)
        return 1
    print('PROPERTY HOLDS')
    return 0


if __name__ == '__main__':
    sys.exit(main())
