#!/usr/bin/env python
# -*- coding: utf-8 -*-
"""Independent check of property C07:

  Molecule partition is independent of the buffer-ejection schedule.

For coordinate sorted input whose fragments are shorter than the molecule cache
radius, the set of molecules (which fragments are grouped together) has to be
identical for every check_eject_every value (0..n and None) and for both
pooling methods when UMIs are compared exactly. No molecule may be emitted while
a later fragment could still join it and every fragment is emitted exactly once.

The oracle used here does not look at the iterator at all: fragments are
single-end reads, two fragments belong together exactly when they share
(contig, start, strand, cell, UMI). The generator makes sure that fragments with
different starts never share an end coordinate, so that the equality relation of
the toolkit is transitive and both pooling methods have to give this partition.

Prints "PROPERTY HOLDS" (exit 0) or "PROPERTY VIOLATED" (exit 1), and a
"BEHAVIOUR DIGEST" over every raw observation that was made (emission order and
timing, exception types and messages of out-of-scope arguments).
"""
import hashlib
import itertools
import os
import random
import sys
import tempfile

import pysam

from singlecellmultiomics.molecule import Molecule, MoleculeIterator
from singlecellmultiomics.fragment import Fragment

CONTIGS = ['chr1', 'chr2', 'chr3']
HEADER = pysam.AlignmentHeader.from_dict({
    'HD': {'VN': '1.6', 'SO': 'coordinate'},
    'SQ': [{'SN': c, 'LN': 10_000_000} for c in CONTIGS]})

CELLS = ['CELL_1', 'CELL_2', 'CELL_3', 'CELL_4']
UMIS = ['AAA', 'AAC', 'CAT', 'GGT', 'TTT']

raw_outputs = []   # everything observed, feeds the behaviour digest
violations = []


def make_read(index, spec):
    contig, start, length, reverse, cell, umi = spec
    read = pysam.AlignedSegment(HEADER)
    read.query_name = f'r{index}'
    read.reference_name = contig
    read.reference_start = start
    read.query_sequence = 'A' * length
    read.query_qualities = pysam.qualitystring_to_array('I' * length)
    read.cigarstring = f'{length}M'
    read.mapping_quality = 60
    read.is_reverse = reverse
    read.set_tag('SM', cell)
    read.set_tag('RX', umi)
    return read


def oracle_key(spec):
    contig, start, length, reverse, cell, umi = spec
    return (contig, start, reverse, cell, umi)


def oracle_partition(specs):
    groups = {}
    for i, spec in enumerate(specs):
        groups.setdefault(oracle_key(spec), set()).add(f'r{i}')
    return {frozenset(g) for g in groups.values()}


def generate_specs(rng, n_fragments, cache_size, n_sites=None, dense=False):
    """Sorted fragment specifications.

    Every fragment is shorter than half the cache size (so shorter than the
    cache radius under every reading of it), lengths mix very short and the
    longest allowed. Ends of fragments of different sites never coincide."""
    max_len = max(2, cache_size // 2 - 1)
    if n_sites is None:
        n_sites = rng.randint(1, max(1, n_fragments // 2))
    sites = []
    used_ends = {c: set() for c in CONTIGS}
    used_starts = {c: set() for c in CONTIGS}
    attempts = 0
    while len(sites) < n_sites and attempts < 10_000:
        attempts += 1
        contig = rng.choice(CONTIGS[:rng.randint(1, len(CONTIGS))])
        if dense:
            start = rng.randint(100, 100 + 3 * cache_size)
        else:
            start = rng.choice([rng.randint(100, 100 + cache_size),
                                rng.randint(100, 100 + 4 * cache_size),
                                rng.randint(100, 100 + 40 * cache_size)])
        # short or long base length, up to 3 length variants per site
        base = rng.choice([1, 2, rng.randint(1, max_len), max(1, max_len - 2)])
        variants = [l for l in (base, base + 1, base + 2) if l <= max_len]
        ends = {start + l for l in variants}
        if start in used_starts[contig] or ends & used_ends[contig]:
            continue
        used_starts[contig].add(start)
        used_ends[contig] |= ends
        sites.append((contig, start, variants))
    specs = []
    for _ in range(n_fragments):
        contig, start, variants = rng.choice(sites)
        specs.append((contig, start, rng.choice(variants), rng.random() < 0.25,
                      rng.choice(CELLS[:rng.randint(1, len(CELLS))]),
                      rng.choice(UMIS[:rng.randint(1, len(UMIS))])))
    # coordinate sorted: contig order of the header, then start. Fragments on the same
    # start keep their random relative order, so duplicates arrive interleaved with
    # fragments of other cells / UMIs
    order = sorted(range(len(specs)), key=lambda i: (CONTIGS.index(specs[i][0]), specs[i][1]))
    return [specs[i] for i in order]


def run_iterator(specs, check_eject_every, pooling_method, cache_size, via_bam=None):
    """Returns the emission events: [(fragments consumed at emission, (names..)), ...]"""
    consumed = [0]

    def source():
        for i, spec in enumerate(specs):
            consumed[0] = i + 1
            yield make_read(i, spec)

    if via_bam is None:
        alignments = source()
        handle = None
    else:
        handle = pysam.AlignmentFile(via_bam)
        alignments = handle
    events = []
    iterator = MoleculeIterator(
        alignments,
        molecule_class=Molecule,
        fragment_class=Fragment,
        check_eject_every=check_eject_every,
        pooling_method=pooling_method,
        perform_qflag=False,
        molecule_class_args={'cache_size': cache_size},
        fragment_class_args={'umi_hamming_distance': 0, 'assignment_radius': 0})
    for molecule in iterator:
        names = tuple(sorted(read.query_name for read in molecule.iter_reads()))
        events.append((consumed[0] if via_bam is None else -1, names))
    if handle is not None:
        handle.close()
    return events


def check_run(label, specs, events, timed=True):
    raw_outputs.append((label, events))
    expected = oracle_partition(specs)
    index_of = {f'r{i}': i for i in range(len(specs))}
    group_of = {}
    for group in expected:
        for name in group:
            group_of[name] = group

    # every fragment exactly once
    emitted = [name for _, names in events for name in names]
    if sorted(emitted, key=lambda n: index_of[n]) != [f'r{i}' for i in range(len(specs))]:
        violations.append((label, 'fragments not emitted exactly once', sorted(emitted)))
        return
    # partition equals the oracle
    produced = {frozenset(names) for _, names in events}
    if produced != expected or len(events) != len(expected):
        violations.append((label, 'partition differs from oracle',
                           sorted(map(sorted, produced ^ expected))))
        return
    # not emitted while a later fragment could still join
    if timed:
        for consumed_at_emission, names in events:
            last_member = max(index_of[n] for n in group_of[names[0]])
            if consumed_at_emission < last_member + 1:
                violations.append((label, 'molecule emitted before its last fragment was read', names))
                return


def schedules_for(n, rng, exhaustive):
    if exhaustive:
        return list(range(0, n + 2)) + [None]
    picks = {0, 1, 2, 3, n // 2, n - 1, n, n + 1}
    picks |= {rng.randint(0, n) for _ in range(3)}
    return sorted(p for p in picks if p >= 0) + [None]


def check_input(label, specs, cache_size, rng, exhaustive, tmpdir=None):
    n = len(specs)
    reference_partition = None
    for pooling_method in (0, 1):
        for check_eject_every in schedules_for(n, rng, exhaustive):
            run_label = (label, cache_size, pooling_method, check_eject_every)
            events = run_iterator(specs, check_eject_every, pooling_method, cache_size)
            check_run(run_label, specs, events)
            partition = {frozenset(names) for _, names in events}
            if reference_partition is None:
                reference_partition = partition
            elif partition != reference_partition:
                violations.append((run_label, 'partition differs between schedules / pooling methods'))
    if tmpdir is not None:
        # The same input through a coordinate sorted, indexed BAM file
        path = os.path.join(tmpdir, f'{label}.bam')
        with pysam.AlignmentFile(path, 'wb', header=HEADER) as out:
            for i, spec in enumerate(specs):
                out.write(make_read(i, spec))
        pysam.index(path)
        for pooling_method in (0, 1):
            for check_eject_every in (0, 1, 3, n, None):
                run_label = (label, 'bam', cache_size, pooling_method, check_eject_every)
                events = run_iterator(specs, check_eject_every, pooling_method, cache_size, via_bam=path)
                check_run(run_label, specs, events, timed=False)
                if {frozenset(names) for _, names in events} != reference_partition:
                    violations.append((run_label, 'partition of BAM run differs'))


def handcrafted_inputs():
    """Corner cases named by the property"""
    cases = []
    # duplicates arriving after unrelated molecules have become ejectable (cache 40: margin 20)
    cases.append(('late_duplicates', 40, [
        ('chr1', 100, 10, False, 'CELL_1', 'AAA'),   # becomes ejectable at 1000
        ('chr1', 100, 11, False, 'CELL_2', 'AAA'),
        ('chr1', 105, 3, False, 'CELL_1', 'CAT'),
        ('chr1', 1000, 10, False, 'CELL_1', 'AAA'),
        ('chr1', 1000, 10, False, 'CELL_2', 'AAA'),
        ('chr1', 1000, 12, False, 'CELL_3', 'AAA'),
        ('chr1', 1000, 10, False, 'CELL_1', 'AAA'),   # duplicate, after ejectable ones
        ('chr1', 1000, 11, False, 'CELL_2', 'AAA'),   # duplicate
        ('chr1', 1000, 10, True, 'CELL_1', 'AAA'),    # other strand: separate
        ('chr1', 1000, 10, False, 'CELL_1', 'AAA'),   # duplicate again
        ('chr1', 1004, 2, False, 'CELL_1', 'AAA'),
        ('chr1', 1000 + 19, 1, False, 'CELL_1', 'AAA')]))
    # contig switches: everything of the previous contig is ejectable, same coordinates return
    cases.append(('contig_switch', 30, [
        ('chr1', 500, 5, False, 'CELL_1', 'AAA'),
        ('chr1', 500, 5, False, 'CELL_1', 'AAA'),
        ('chr1', 500, 6, False, 'CELL_1', 'AAC'),
        ('chr2', 500, 5, False, 'CELL_1', 'AAA'),
        ('chr2', 500, 5, False, 'CELL_1', 'AAA'),
        ('chr2', 500, 5, False, 'CELL_2', 'AAA'),
        ('chr3', 500, 5, False, 'CELL_1', 'AAA'),
        ('chr3', 500, 7, False, 'CELL_1', 'AAA')]))
    # a molecule exactly at the margin: next site starts just inside / outside the margin
    cases.append(('margin', 20, [
        ('chr1', 200, 9, False, 'CELL_1', 'AAA'),
        ('chr1', 200, 9, False, 'CELL_2', 'AAA'),
        ('chr1', 210, 9, False, 'CELL_1', 'AAA'),
        ('chr1', 210, 9, False, 'CELL_1', 'AAA'),
        ('chr1', 211, 1, False, 'CELL_1', 'AAA'),
        ('chr1', 220, 8, False, 'CELL_1', 'AAA'),
        ('chr1', 220, 8, False, 'CELL_1', 'AAA'),
        ('chr1', 231, 2, False, 'CELL_1', 'AAA'),
        ('chr1', 231, 2, False, 'CELL_2', 'AAA'),
        ('chr1', 231, 2, False, 'CELL_1', 'AAA')]))
    # single fragment, all the same molecule, all different molecules
    cases.append(('single', 100, [('chr1', 100, 10, False, 'CELL_1', 'AAA')]))
    cases.append(('all_same', 100, [('chr2', 100, 10, False, 'CELL_1', 'AAA')] * 9))
    cases.append(('all_different', 100, [('chr1', 100 + 500 * i, 10 + i, bool(i % 2), CELLS[i % 4], UMIS[i % 5])
                                         for i in range(9)]))
    return cases


def out_of_scope_probes():
    """Inputs the property does not quantify over: only recorded for the digest"""
    specs = [('chr1', 100, 10, False, 'CELL_1', 'AAA'), ('chr1', 100, 10, False, 'CELL_1', 'AAA'),
             ('chr1', 900, 10, False, 'CELL_1', 'AAA')]

    def attempt(label, **kwargs):
        alignments = kwargs.pop('alignments', None)
        if alignments is None:
            alignments = [make_read(i, s) for i, s in enumerate(specs)]
        stage = 'construct'
        try:
            iterator = MoleculeIterator(alignments, perform_qflag=False, **kwargs)
            stage = 'iterate'
            result = [tuple(sorted(r.query_name for r in m.iter_reads())) for m in iterator]
            raw_outputs.append((label, 'ok', result))
        except Exception as e:
            raw_outputs.append((label, stage, type(e).__name__, str(e)))

    attempt('negative_interval', check_eject_every=-1)
    attempt('pooling_method_2', pooling_method=2)
    attempt('bad_item', alignments=[(make_read(0, specs[0]),), (1, 2, 3)], check_eject_every=None)


def main():
    rng = random.Random(7)
    n_inputs = 0
    with tempfile.TemporaryDirectory(prefix='c07_demo_') as tmpdir:
        for label, cache_size, specs in handcrafted_inputs():
            order = sorted(range(len(specs)), key=lambda i: (CONTIGS.index(specs[i][0]), specs[i][1]))
            assert order == list(range(len(specs))), 'handcrafted input should be sorted'
            check_input(label, specs, cache_size, rng, exhaustive=True, tmpdir=tmpdir)
            n_inputs += 1

        # small inputs: exhaustive over every schedule
        for case in range(220):
            cache_size = rng.choice([6, 10, 20, 50, 200, 1000, 10_000])
            n = rng.randint(1, 12)
            specs = generate_specs(rng, n, cache_size, dense=rng.random() < 0.5)
            check_input(f'small_{case}', specs, cache_size, rng, exhaustive=True,
                        tmpdir=tmpdir if case % 20 == 0 else None)
            n_inputs += 1

        # larger inputs: sampled schedules
        for case in range(60):
            cache_size = rng.choice([10, 40, 100, 500, 10_000])
            n = rng.randint(20, 90)
            specs = generate_specs(rng, n, cache_size, n_sites=rng.randint(2, 12), dense=rng.random() < 0.6)
            check_input(f'large_{case}', specs, cache_size, rng, exhaustive=False,
                        tmpdir=tmpdir if case % 15 == 0 else None)
            n_inputs += 1

        out_of_scope_probes()

    digest = hashlib.sha256(repr(raw_outputs).encode()).hexdigest()
    print(f'{n_inputs} inputs, {sum(1 for r in raw_outputs if len(r) == 2)} iterator runs checked')
    print(f'BEHAVIOUR DIGEST {digest}')
    if violations:
        print('PROPERTY VIOLATED')
        for v in violations[:10]:
            print('  ', v)
        sys.exit(1)
    print('PROPERTY HOLDS')
    sys.exit(0)


if __name__ == '__main__':
    main()
