#!/usr/bin/env python3
"""Independent check of property C18 (allele lookups agree with the VCF in every
loading mode).  Builds a few hundred random VCF / setting combinations, derives
the expected answer for every lookup from its OWN record representation (the VCF
text is generated here, it is never read back through the resolver for the
oracle) and compares eager / lazy / cache-writing / cache-reading resolvers for
several contig access orders.

Prints "PROPERTY HOLDS" (exit 0) or the violations (exit 1), and a
"BEHAVIOUR DIGEST" over every raw output: answers, captured stdout, cache
file names + contents, temporary file names used for the cache."""
import contextlib
import gzip
import hashlib
import io
import os
import random
import shutil
import sys
import tempfile

import pysam
from singlecellmultiomics.alleleTools import AlleleResolver

RNG = random.Random(18_2024)
N_VCF = 45
BASES = 'ACGT'
raw = []          # raw outputs -> digest
violations = []
n_inputs = 0
n_lookups = 0
rename_log = []

_real_rename = os.rename


def _logging_rename(src, dst, *a, **k):
    rename_log.append((os.path.basename(str(src)).replace(str(os.getpid()), 'PID'),
                       os.path.basename(str(dst))))
    return _real_rename(src, dst, *a, **k)


os.rename = _logging_rename


# --------------------------------------------------------------------------
# input generation
# --------------------------------------------------------------------------
def random_allele(multi_ok=True):
    if multi_ok and RNG.random() < 0.15:
        return ''.join(RNG.choice(BASES) for _ in range(RNG.randint(2, 4)))
    return RNG.choice(BASES)


def random_gt(n_alleles, sep):
    r = RNG.random()
    if r < 0.10:
        return './.' if sep == '/' else '.|.'
    if r < 0.14:
        return '.'
    if r < 0.19:
        return str(RNG.randrange(n_alleles))           # haploid call
    if r < 0.24:
        return f'.{sep}{RNG.randrange(n_alleles)}'      # half missing
    return f'{RNG.randrange(n_alleles)}{sep}{RNG.randrange(n_alleles)}'


def make_vcf(tmp, idx):
    contig_pool = ['chr1', 'chr2', 'chr3', 'chrX', '1', '2', 'MT', 'chr12',
                   'chrUn_KI270742v1', 'chr4_GL000008v2_random', 'KN196472.1']
    contigs = RNG.sample(contig_pool, RNG.randint(2, 4))
    empty_contig = 'chrEmpty' if RNG.random() < 0.5 else None   # in header, no records
    samples = RNG.sample(['129S1', 'CAST', 'B6', 'S1', 'S2', 'JF1'], RNG.randint(1, 4))
    sep = RNG.choice('|/') if RNG.random() < 0.7 else None      # None: mixed per genotype
    records = []   # (contig, pos1, ref, alts(list), gts(list of str))
    for contig in contigs:
        n = RNG.randint(0, 8) if RNG.random() < 0.9 else 0
        positions = sorted(RNG.sample(range(5, 400), n))
        for pos in positions:
            ref = random_allele()
            kind = RNG.random()
            if kind < 0.12:
                alts = []                                      # monomorphic site, ALT = .
            else:
                alts = []
                while len(alts) < RNG.choice([1, 1, 1, 2, 3]):
                    a = random_allele()
                    if a != ref and a not in alts:
                        alts.append(a)
            n_all = 1 + len(alts)
            style = RNG.random()
            gts = []
            for s in samples:
                if style < 0.15:
                    g = random_gt(1, sep or RNG.choice('|/'))  # every sample reference
                else:
                    g = random_gt(n_all, sep or RNG.choice('|/'))
                gts.append(g)
            records.append((contig, pos, ref, alts, gts))
    path = os.path.join(tmp, f'variants_{idx:03d}.vcf')
    with open(path, 'w') as f:
        f.write('##fileformat=VCFv4.2\n')
        for c in contigs + ([empty_contig] if empty_contig else []):
            f.write(f'##contig=<ID={c},length=100000>\n')
        f.write('##FORMAT=<ID=GT,Number=1,Type=String,Description="Genotype">\n')
        f.write('#CHROM\tPOS\tID\tREF\tALT\tQUAL\tFILTER\tINFO\tFORMAT\t' + '\t'.join(samples) + '\n')
        for contig, pos, ref, alts, gts in records:
            f.write('\t'.join([contig, str(pos), '.', ref, ','.join(alts) if alts else '.',
                               '.', 'PASS', '.', 'GT'] + gts) + '\n')
    gz = pysam.tabix_index(path, preset='vcf', force=True)
    return gz, contigs, empty_contig, samples, records


# --------------------------------------------------------------------------
# oracle: what the property demands, derived from the generated records
# --------------------------------------------------------------------------
def gt_alleles(gt, alleles):
    out = []
    for tok in gt.replace('|', '/').split('/'):
        out.append(None if tok == '.' else alleles[int(tok)])
    return out


def expected_table(samples, records, phased, select, ignore):
    """(contig, pos0) -> {base: set(names)} for informative sites only"""
    table = {}
    for contig, pos, ref, alts, gts in records:
        alleles = [ref] + alts
        site = {}
        if phased:
            chosen = [s for s in samples if select is None or s in select]
            missing = False
            untrusted = False
            carriers = set()
            for s in chosen:
                for a in gt_alleles(gts[samples.index(s)], alleles):
                    if a is None:
                        missing = True
                    elif len(a) == 1:
                        site.setdefault(a, set()).add(s)
                        carriers.add(s)
                    else:
                        untrusted = True                      # multi base allele
            if not site:
                continue                                      # nothing known here
            if select is not None and len(carriers) != len(select):
                untrusted = True                              # a selected sample is unknown
            if missing:
                untrusted = False                             # sites with a no-call are kept as is
            elif len(site) < 2:
                untrusted = True                              # all samples equal: uninformative
            if untrusted:
                continue
        else:
            if any(len(a) != 1 for a in alleles):
                continue                                      # not a single nucleotide site
            for name, a in zip('UVWXYZ', alleles):
                site.setdefault(a, set()).add(name)
        if ignore is not None and any((ref, b) in ignore for b in site):
            continue                                          # ignored conversion
        table[(contig, pos - 1)] = site
    return table


def make_queries(contigs, empty_contig, records):
    q = []
    for contig, pos, ref, alts, gts in records:
        for p in (pos - 2, pos - 1, pos):
            for b in 'ACGTN':
                q.append((contig, p, b))
    for contig in contigs:
        q.append((contig, 450, 'A'))
        q.append((contig, 2, 'T'))
    if empty_contig:
        q.append((empty_contig, 10, 'A'))
    q.append(('chrNotInVcf', 10, 'C'))
    q = sorted(set(q))
    return q


def access_orders(queries):
    by_contig = sorted(queries)
    rev = sorted(queries, key=lambda x: x[0], reverse=True)
    shuffled = list(queries)
    RNG.shuffle(shuffled)
    # visit every contig, then return to the first (evicted) ones
    first_pass = []
    seen = set()
    for x in by_contig:
        if x[0] not in seen:
            seen.add(x[0])
            first_pass.append(x)
    revisit = first_pass + by_contig
    return {'by_contig': by_contig, 'reverse': rev, 'shuffled': shuffled, 'revisit': revisit}


# --------------------------------------------------------------------------
def norm(text, tmp):
    return text.replace(tmp, '<TMP>').replace(str(os.getpid()), 'PID')


def run_mode(label, tmp, vcf, kwargs, order, table, tag):
    global n_lookups
    out = io.StringIO()
    answers = []
    with contextlib.redirect_stdout(out):
        ar = AlleleResolver(vcf, **kwargs)
        for contig, pos, base in order:
            got = ar.getAllelesAt(contig, pos, base)
            answers.append(((contig, pos, base), got))
    for (contig, pos, base), got in answers:
        n_lookups += 1
        want = table.get((contig, pos), {}).get(base)
        if got is not None and not isinstance(got, (set, frozenset)):
            violations.append(f'{tag} {label}: {(contig, pos, base)} returned {type(got)}')
            continue
        if (set(got) if got else set()) != (want or set()):
            violations.append(f'{tag} {label}: {(contig, pos, base)} got {got} expected {want}')
    raw.append(f'[{tag}] [{label}] answers ' + repr(
        [(k, None if v is None else sorted(v)) for k, v in answers]))
    raw.append(f'[{tag}] [{label}] stdout ' + repr(norm(out.getvalue(), tmp)))
    return [(k, None if not v else frozenset(v)) for k, v in answers]


def dump_cache(tmp, vcf, tag):
    d = os.path.abspath(vcf) + '_allele_cache'
    if not os.path.isdir(d):
        raw.append(f'[{tag}] cache dir absent')
        return
    for name in sorted(os.listdir(d)):
        p = os.path.join(d, name)
        try:
            with gzip.open(p, 'rt') as f:
                content = f.read()
        except OSError:
            violations.append(f'{tag}: unreadable / unfinished file left in cache: {name}')
            content = '<unreadable>'
        raw.append(f'[{tag}] cache file {name} ' + repr(content))


def main():
    global n_inputs
    tmp = os.path.realpath(tempfile.mkdtemp(prefix='c18_demo_'))
    try:
        for vi in range(N_VCF):
            vcf, contigs, empty_contig, samples, records = make_vcf(tmp, vi)
            queries = make_queries(contigs, empty_contig, records)
            settings = []
            for _ in range(7):
                phased = RNG.random() < 0.75
                r = RNG.random()
                if r < 0.4:
                    select = None
                elif r < 0.93:
                    select = RNG.sample(samples, RNG.randint(1, len(samples)))
                else:
                    select = RNG.sample(samples, 1) + ['NotInVcf']
                r = RNG.random()
                if r < 0.5:
                    ignore = None
                elif r < 0.75:
                    ignore = {('C', 'T'), ('G', 'A')}
                else:
                    ignore = set()
                    for _ in range(RNG.randint(1, 3)):
                        ignore.add((RNG.choice(BASES), RNG.choice(BASES)))
                key = (phased, None if select is None else tuple(sorted(select)),
                       None if ignore is None else tuple(sorted(ignore)))
                if key not in [s[0] for s in settings]:
                    settings.append((key, phased, select, ignore))
            for si, (key, phased, select, ignore) in enumerate(settings):
                n_inputs += 1
                tag = f'vcf{vi:03d}/set{si}'
                raw.append(f'[{tag}] settings {key!r} samples {samples!r} contigs {contigs!r}')
                table = expected_table(samples, records, phased, select, ignore)
                base_kwargs = dict(phased=phased, select_samples=select, ignore_conversions=ignore)
                orders = access_orders(queries)
                # a fresh cache for this input
                shutil.rmtree(os.path.abspath(vcf) + '_allele_cache', ignore_errors=True)
                del rename_log[:]
                results = {}
                oname = RNG.choice(sorted(orders))
                o2 = RNG.choice(sorted(orders))
                results['eager'] = run_mode('eager', tmp, vcf, dict(base_kwargs), orders[oname], table, tag)
                results['eager-verbose-lazyFalse-cacheFalse'] = run_mode(
                    'eager-verbose', tmp, vcf, dict(base_kwargs, lazyLoad=False, use_cache=False, verbose=True),
                    orders['by_contig'], table, tag)
                results['lazy'] = run_mode('lazy', tmp, vcf, dict(base_kwargs, lazyLoad=True),
                                           orders[oname], table, tag)
                results['lazy-revisit'] = run_mode('lazy-revisit-verbose', tmp, vcf,
                                                   dict(base_kwargs, lazyLoad=True, verbose=True),
                                                   orders['revisit'], table, tag)
                results['lazy-shuffled'] = run_mode('lazy-shuffled', tmp, vcf,
                                                    dict(base_kwargs, lazyLoad=True),
                                                    orders['shuffled'], table, tag)
                # cache: first run only touches part of the contigs, so that the
                # next runs mix reading and writing
                partial = [q for q in orders['reverse'] if q[0] == orders['reverse'][0][0]]
                results['cache-partial'] = run_mode('cache-write-partial', tmp, vcf,
                                                    dict(base_kwargs, use_cache=True, verbose=True),
                                                    partial, table, tag)
                results['cache-write'] = run_mode('cache-write-rest', tmp, vcf,
                                                  dict(base_kwargs, use_cache=True, lazyLoad=RNG.random() < 0.5,
                                                       verbose=True),
                                                  orders[o2], table, tag)
                dump_cache(tmp, vcf, tag)
                results['cache-read'] = run_mode('cache-read-verbose', tmp, vcf,
                                                 dict(base_kwargs, use_cache=True, lazyLoad=True, verbose=True),
                                                 orders[oname], table, tag)
                results['cache-read-2'] = run_mode('cache-read-shuffled', tmp, vcf,
                                                   dict(base_kwargs, use_cache=True),
                                                   orders['shuffled'], table, tag)
                raw.append(f'[{tag}] renames ' + repr(rename_log))
                # identical answers in every mode (independent of the oracle)
                as_dict = {name: dict(r) for name, r in results.items()}
                ref_answers = as_dict['eager']
                for name, d in as_dict.items():
                    for k, v in d.items():
                        if ref_answers[k] != v:
                            violations.append(f'{tag}: mode {name} differs from eager at {k}: {v} vs {ref_answers[k]}')
    finally:
        shutil.rmtree(tmp, ignore_errors=True)

    digest = hashlib.sha256('\n'.join(raw).encode()).hexdigest()
    print(f'{n_inputs} inputs, {n_lookups} lookups checked')
    print(f'BEHAVIOUR DIGEST {digest}')
    if '--dump' in sys.argv:
        with open('/tmp/c18_demo_raw.txt' if len(sys.argv) < 3 else sys.argv[2], 'w') as f:
            f.write('\n'.join(raw))
    if violations:
        print(f'PROPERTY VIOLATED ({len(violations)} violations)')
        for v in violations[:20]:
            print('  ', v)
        sys.exit(1)
    print('PROPERTY HOLDS')


if __name__ == '__main__':
    main()
