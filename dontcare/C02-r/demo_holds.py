#!/usr/bin/env python3
# -*- coding: utf-8 -*-
"""Independent check of property C02 (demultiplexed records contain exactly the
bases the protocol layout prescribes) plus a digest over all raw outputs.

The oracle below carries its OWN table of protocol layouts (positions of UMI,
cell barcode, random primer, ligation bases and start of the insert per mate);
it never looks at umiStart / barcodeStart / sequenceCapture of the strategies.
"""
import sys
import os
import gzip
import io
import string
import random
import hashlib
import tempfile
import contextlib
import logging

logging.disable(logging.CRITICAL)

import pkg_resources
from singlecellmultiomics.fastqProcessing.fastqIterator import FastqRecord
from singlecellmultiomics.fastqProcessing.fastqHandle import FastqHandle
from singlecellmultiomics.barcodeFileParser.barcodeFileParser import BarcodeParser
from singlecellmultiomics.modularDemultiplexer.baseDemultiplexMethods import NonMultiplexable
from singlecellmultiomics.modularDemultiplexer.demultiplexingStrategyLoader import DemultiplexingStrategyLoader

RNG = random.Random(20240917)
DIGEST = hashlib.sha256()
FAILURES = []
CHECKED = {'accepted': 0, 'rejected': 0, 'errors': 0, 'pipeline_records': 0}


def raw(*parts):
    for p in parts:
        DIGEST.update(str(p).encode('utf8'))
        DIGEST.update(b'\x00')


def fail(msg):
    FAILURES.append(msg)


# --------------------------------------------------------------------------
# The protocol layouts (own oracle). Regions are (mate, start, end).
# ins = first base of the insert for mate 0 and mate 1.
# prefix_ok = mates whose emitted stretch may stop before the end of the mate
# --------------------------------------------------------------------------
def L(alias, bc, umi=(), rp=None, lig=None, ins=(0, 0), mates=2, prefix_ok=(), plant=None):
    return dict(alias=alias, bc=list(bc), umi=list(umi), rp=rp, lig=lig, ins=ins,
                mates=mates, prefix_ok=set(prefix_ok), plant=plant)


SCA8 = L('DamID2_scattered_8bp', bc=[(0, 3, 7), (0, 10, 14)], umi=[(0, 0, 3), (0, 7, 10)],
         lig=(0, 14, 16), ins=(14, 0))
LAYOUTS = {
    'CS1C8U4': L('celseq1', bc=[(0, 0, 8)], umi=[(0, 8, 12)], rp=(1, 0, 6), ins=(12, 6)),
    'CS2C8U6': L('celseq2', bc=[(0, 6, 14)], umi=[(0, 0, 6)], rp=(1, 0, 6), ins=(14, 6)),
    'CS2C8U6NH': L('celseq2', bc=[(0, 6, 14)], umi=[(0, 0, 6)], ins=(14, 0)),
    'CS2C8U8S': L('celseq2', bc=[(1, 8, 16)], umi=[(1, 0, 8)], rp=(0, 0, 6), ins=(6, 16)),
    'CS2C8U8NNLA': L('celseq2_noNla', bc=[(0, 8, 16)], umi=[(0, 0, 8)], rp=(1, 0, 6), ins=(16, 6)),
    'CS2C8U6S': L('celseq2', bc=[(1, 6, 14)], umi=[(1, 0, 6)], rp=(0, 0, 6), ins=(6, 14)),
    'NLAIII384C8U3': L('maya_384NLA', bc=[(0, 3, 11)], umi=[(0, 0, 3)], rp=(1, 0, 6), ins=(11, 6)),
    'NLAIII96C8U3': L('lennart96NLA', bc=[(0, 3, 11)], umi=[(0, 0, 3)], rp=(1, 0, 6), ins=(11, 6)),
    'NLAIII384C8U3SE': L('maya_384NLA', bc=[(0, 3, 11)], umi=[(0, 0, 3)], ins=(11, 0), mates=1),
    'NLAIII96C8U3SE': L('lennart96NLA', bc=[(0, 3, 11)], umi=[(0, 0, 3)], ins=(11, 0), mates=1),
    'scCHIC384C8U3': L('maya_384NLA', bc=[(0, 3, 11)], umi=[(0, 0, 3)], rp=(1, 0, 6), lig=(0, 11, 13), ins=(12, 6)),
    'TCHIC': L('maya_384NLA', bc=[(0, 3, 11)], umi=[(0, 0, 3)], lig=(0, 11, 13), ins=(12, 0), prefix_ok=(1,)),
    'CHICTV': L('maya_384NLA', bc=[(0, 3, 11)], umi=[(0, 0, 3)], lig=(0, 11, 13), ins=(12, 0), prefix_ok=(0,),
                plant='AGACTCTTT'),
    'scCHIC384C8U3l': L('maya_384NLA', bc=[(0, 3, 11)], umi=[(0, 0, 3)], lig=(0, 11, 13), ins=(12, 0)),
    'scCHIC384C8U3se': L('maya_384NLA', bc=[(0, 3, 11)], umi=[(0, 0, 3)], lig=(0, 11, 13), ins=(12, 0), mates=1),
    'MSPJIC8U3': L('maya_mspj1', bc=[(0, 3, 11)], umi=[(0, 0, 3)], ins=(11, 0)),
    'SCARC8R2': L('scartrace', bc=[(1, 0, 8)], ins=(0, 8)),
    'SCARC8R1': L('scartrace', bc=[(0, 0, 8)], ins=(8, 0)),
    'SCARC8R2R4': L('scartrace', bc=[(1, 0, 8)], rp=(0, 0, 4), ins=(4, 8)),
    'CHROMC16U12': L('10x_3M-february-2018', bc=[(0, 0, 16)], umi=[(0, 16, 28)], ins=(28, 0)),
    'DamID2': L('DamID2', bc=[(0, 3, 13)], umi=[(0, 0, 3)], lig=(0, 11, 13), ins=(12, 0)),
    'DamID2_8bp_noCA': L('DamID2_8bp', bc=[(0, 3, 11)], umi=[(0, 0, 3)], lig=(0, 11, 13), ins=(10, 0)),
    'DamID2_3u4b3u6b': SCA8,
}
# Strategies which wrap two layouts: the 'dt' tag of the result says which one was applied,
# the transcriptome branch removes a leading poly-T from the insert of mate 1.
COMPOSITE = {
    'DamAndT': {'RNA': 'CS2C8U6', 'DamID': 'DamID2', 'Ambiguous': 'DamID2'},
    'DamID2andT_3u4b3u4b': {'RNA': 'DamID2_3u4b3u6b', 'DamID': 'DamID2_3u4b3u6b', 'Ambiguous': 'DamID2_3u4b3u6b'},
    'DamID2andT_3u4b3u6b': {'RNA': 'DamID2_3u4b3u6b'},
}
COMPOSITE_ALIASES = {
    'DamAndT': ['celseq2', 'DamID2'],
    'DamID2andT_3u4b3u4b': ['CS2_scattered_8bp', 'DamID2_scattered_8bp'],
    'DamID2andT_3u4b3u6b': ['CS2_scattered_8bp'],
}
SKIP = {'ILLU', 'RBSN'}  # no barcode layout / anchored elsewhere


def static_layout_check():
    """Every base before the insert is covered by a tag region of the same mate."""
    for name, lay in LAYOUTS.items():
        for mate in range(lay['mates']):
            covered = set()
            for (m, s, e) in lay['bc'] + lay['umi'] + [x for x in (lay['rp'], lay['lig']) if x]:
                if m == mate:
                    covered.update(range(s, e))
            missing = set(range(lay['ins'][mate])) - covered
            if missing:
                fail(f'layout {name}: bases {sorted(missing)} of mate {mate} neither tagged nor emitted')


# --------------------------------------------------------------------------
# Input generation
# --------------------------------------------------------------------------
def rand_seq(n, with_n=True):
    alphabet = 'ACGT' * 6 + ('N' if with_n else '')
    return ''.join(RNG.choice(alphabet) for _ in range(n))


def rand_qual(n):
    mode = RNG.random()
    if mode < 0.1:
        return chr(33 + RNG.choice((0, 51))) * n
    return ''.join(chr(33 + RNG.randint(0, 51)) for _ in range(n))


def insert_length():
    r = RNG.random()
    if r < 0.12:
        return RNG.choice((0, 1, 2, 3, 150))
    return RNG.randint(0, 150)


CLUSTER = [0]


def make_pair(lay, barcodes, plus_style):
    """Build a raw read pair following the layout, returns FastqRecords."""
    need = [0, 0]
    for (m, s, e) in lay['bc'] + lay['umi'] + ([lay['rp']] if lay['rp'] else []):
        need[m] = max(need[m], e)
    bc = RNG.choice(barcodes)
    r = RNG.random()
    if r < 0.15:   # one mismatch (may still be accepted through hamming expansion)
        p = RNG.randrange(len(bc))
        bc = bc[:p] + RNG.choice('ACGTN') + bc[p + 1:]
    elif r < 0.20:  # garbage
        bc = rand_seq(len(bc))
    seqs = []
    for mate in range(2):
        prefix = list(rand_seq(need[mate]))
        seqs.append(prefix)
    # Place barcode parts
    off = 0
    for (m, s, e) in lay['bc']:
        seqs[m][s:e] = list(bc[off:off + (e - s)])
        off += e - s
    mates = []
    CLUSTER[0] += 1
    for mate in range(2):
        ins = rand_seq(insert_length())
        if mate == 0 and lay['plant'] and RNG.random() < 0.7 and len(ins) > 20:
            p = RNG.randint(0, len(ins) - 9)
            ins = ins[:p] + lay['plant'] + ins[p + 9:]
        seq = ''.join(seqs[mate]) + ins
        header = f'@NS500414:628:H7YVNBGXC:{1 + CLUSTER[0] % 4}:11101:{CLUSTER[0]}:{1000 + CLUSTER[0] % 977} {mate + 1}:N:0:GTGAAA'
        plus = '+' if plus_style == 0 else '+' + header[1:]
        mates.append(FastqRecord(header, seq, plus, rand_qual(len(seq))))
    return mates[:lay['mates']]


# --------------------------------------------------------------------------
# The oracle
# --------------------------------------------------------------------------
def decode_header_quals(value):
    return [string.ascii_letters.index(c) for c in value]


def region(reads, regions, what):
    out = ''
    for (m, s, e) in regions:
        out += (reads[m].sequence if what == 'seq' else reads[m].qual)[s:e]
    return out


def check_result(name, lay, reads, got, where, lenient_polyT=False):
    """got: list of dicts with keys tags / sequence / qualities (one per mate)."""
    ident = f'{where} {name} {reads[0].header}'
    if len(got) != len(reads):
        fail(f'{ident}: {len(got)} records for {len(reads)} mates')
        return
    exp_bc = region(reads, lay['bc'], 'seq')
    exp_umi = region(reads, lay['umi'], 'seq')
    exp_umiq = [ord(c) - 33 for c in region(reads, lay['umi'], 'qual')]
    for mate, g in enumerate(got):
        tags = g['tags']
        if str(tags.get('bc')) != exp_bc:
            fail(f'{ident} mate{mate}: raw barcode {tags.get("bc")!r} expected {exp_bc!r}')
        if lay['umi']:
            if tags.get('RX') != exp_umi:
                fail(f'{ident} mate{mate}: UMI {tags.get("RX")!r} expected {exp_umi!r}')
            if 'RQ' not in tags or decode_header_quals(tags['RQ']) != exp_umiq:
                fail(f'{ident} mate{mate}: UMI qualities {tags.get("RQ")!r} expected {exp_umiq!r}')
        else:
            if tags.get('RX'):
                fail(f'{ident} mate{mate}: invented UMI {tags.get("RX")!r}')
        if lay['rp']:
            exp = region(reads, [lay['rp']], 'seq')
            if tags.get('rS') != exp:
                fail(f'{ident} mate{mate}: random primer {tags.get("rS")!r} expected {exp!r}')
        elif tags.get('rS'):
            fail(f'{ident} mate{mate}: invented random primer {tags.get("rS")!r}')
        if lay['lig']:
            exp = region(reads, [lay['lig']], 'seq')
            expq = [ord(c) - 33 for c in region(reads, [lay['lig']], 'qual')]
            if tags.get('lh', None) != exp:
                fail(f'{ident} mate{mate}: ligation bases {tags.get("lh")!r} expected {exp!r}')
            if 'lq' not in tags or decode_header_quals(tags['lq']) != expq:
                fail(f'{ident} mate{mate}: ligation qualities {tags.get("lq")!r} expected {expq!r}')
        # Emitted stretch
        seq, qual = g['sequence'], g['qualities']
        src = reads[mate]
        start = lay['ins'][mate]
        if len(seq) != len(qual):
            fail(f'{ident} mate{mate}: {len(seq)} bases but {len(qual)} qualities')
            continue
        if lenient_polyT and mate == 0:
            # leading T bases of the insert may have been pruned
            shift = max(0, len(src.sequence) - start - len(seq))
            if set(src.sequence[start:start + shift]) - {'T'}:
                fail(f'{ident} mate{mate}: non poly-T bases dropped from the start of the insert')
            start += shift
        if mate in lay['prefix_ok']:
            exp_s, exp_q = src.sequence[start:start + len(seq)], src.qual[start:start + len(seq)]
        else:
            exp_s, exp_q = src.sequence[start:], src.qual[start:]
        if seq != exp_s:
            fail(f'{ident} mate{mate}: emitted bases are not the stretch of this mate starting at {start}')
        if qual != exp_q:
            fail(f'{ident} mate{mate}: emitted qualities are not index-aligned with the emitted bases')


def resolve(name, tags):
    if name in COMPOSITE:
        sub = COMPOSITE[name].get(tags.get('dt'))
        if sub is None:
            return None, False
        return LAYOUTS[sub], tags.get('dt') == 'RNA'
    return LAYOUTS.get(name), False


def parse_fastq_text(text):
    lines = text.split('\n')
    if lines and lines[-1] == '':
        lines = lines[:-1]
    assert len(lines) % 4 == 0, 'output is not 4-line fastq'
    for i in range(0, len(lines), 4):
        yield lines[i], lines[i + 1], lines[i + 2], lines[i + 3]


def header_tags(header):
    return dict(kv.split(':', 1) for kv in header[1:].split(';'))


def main():
    static_layout_check()
    barcode_folder = pkg_resources.resource_filename('singlecellmultiomics', 'modularDemultiplexer/barcodes/')
    parser = BarcodeParser(barcode_folder, hammingDistanceExpansion=1, lazyLoad='*')
    tenx = [rand_seq(16, with_n=False) for _ in range(24)]
    for i, b in enumerate(tenx):
        parser.addBarcode('10x_3M-february-2018', b, i + 1)
    with contextlib.redirect_stdout(io.StringIO()):
        loader = DemultiplexingStrategyLoader(barcodeParser=parser, indexParser=None, indexFileAlias=None)
    strategies = {s.shortName: s for s in loader.demultiplexingStrategies}

    def barcodes_of(alias):
        if alias == '10x_3M-february-2018':
            return tenx
        return sorted(parser[alias].keys())

    seen_classes = set()
    # ---------------- 1. direct use of every registered strategy ----------------
    for name in sorted(strategies):
        strategy = strategies[name]
        raw('STRATEGY', name, repr(strategy))
        if name in SKIP:
            continue
        if name in COMPOSITE:
            gen_layouts = []
            for sub, alias in zip(('RNA', 'DamID'), COMPOSITE_ALIASES[name]):
                base = LAYOUTS[COMPOSITE[name].get(sub, COMPOSITE[name]['RNA'])]
                gen_layouts.append((base, barcodes_of(alias)))
        elif name in LAYOUTS:
            gen_layouts = [(LAYOUTS[name], barcodes_of(LAYOUTS[name]['alias']))]
        else:
            fail(f'strategy {name} of the loader is unknown to the oracle')
            continue
        seen_classes.add(name)
        for i in range(26):
            lay_gen, bcs = gen_layouts[i % len(gen_layouts)]
            reads = make_pair(lay_gen, bcs, plus_style=i % 2)
            if name == 'DamAndT' and i % 4 == 0:
                # transcriptome reads start with poly-T
                r1 = reads[0]
                reads[0] = FastqRecord(r1.header, r1.sequence[:14] + 'T' * min(9, max(0, len(r1.sequence) - 14)) + r1.sequence[23:], r1.plus, r1.qual)
            raw('INPUT', name, *[x for r in reads for x in r])
            try:
                result = strategy.demultiplex(list(reads), library='LIB')
            except NonMultiplexable as e:
                CHECKED['rejected'] += 1
                raw('NOT ACCEPTED', type(e).__name__)
                continue
            except Exception as e:
                CHECKED['errors'] += 1
                raw('ERROR', type(e).__name__)
                continue
            CHECKED['accepted'] += 1
            for rec in result:
                raw('RECORD', rec.asFastq())
            lay, lenient = resolve(name, result[0].tags)
            if lay is None:
                fail(f'{name}: cannot tell which layout was applied (dt={result[0].tags.get("dt")})')
                continue
            got = [dict(tags=rec.tags, sequence=rec.sequence, qualities=rec.qualities) for rec in result]
            check_result(name, lay, reads, got, 'direct', lenient_polyT=lenient)

        # What happens when only mate 1 is offered (outside of the property, recorded only)
        lay_gen, bcs = gen_layouts[0]
        reads = make_pair(dict(lay_gen, bc=[x for x in lay_gen['bc']]), bcs, plus_style=0)[:1]
        try:
            with contextlib.redirect_stdout(io.StringIO()):
                result = strategy.demultiplex(list(reads), library='LIB')
            raw('MATE1 ONLY', name, 'accepted', *[rec.asFastq() for rec in result])
            if LAYOUTS.get(name, {}).get('mates') == 1 or all(m == 0 for (m, _, _) in lay_gen['bc'] + lay_gen['umi']) and not lay_gen['rp'] and name not in COMPOSITE:
                got = [dict(tags=rec.tags, sequence=rec.sequence, qualities=rec.qualities) for rec in result]
                check_result(name, dict(lay_gen, mates=1), reads, got, 'single-end')
        except Exception as e:
            raw('MATE1 ONLY', name, type(e).__name__, str(e))

    # ---------------- 2. through the loader, to files ----------------
    with tempfile.TemporaryDirectory(prefix='c02_demo_') as tmp:
        runs = [
            ('pe_a', ['CS2C8U6', 'NLAIII384C8U3', 'scCHIC384C8U3', 'MSPJIC8U3'], 2),
            ('pe_b', ['CS2C8U8S', 'CS2C8U6S', 'SCARC8R2R4', 'CS1C8U4', 'DamID2', 'DamID2_3u4b3u6b', 'DamID2_8bp_noCA'], 2),
            ('se_a', ['NLAIII384C8U3SE', 'scCHIC384C8U3se', 'NLAIII96C8U3SE'], 1),
        ]
        for run, names, n_mates in runs:
            inputs = {}
            paths = [os.path.join(tmp, f'{run}_R{m + 1}.fastq') for m in range(n_mates)]
            handles = [open(p, 'w') for p in paths]
            for i in range(90):
                name = names[i % len(names)]
                lay = LAYOUTS[name]
                reads = make_pair(dict(lay, mates=2), barcodes_of(lay['alias']), plus_style=(i // 3) % 2)[:n_mates]
                key = reads[0].header.split(' ')[0].split(':')[5]
                inputs[key] = reads
                for h, r in zip(handles, reads):
                    h.write('\n'.join(r) + '\n')
            for h in handles:
                h.close()
            out_prefix = os.path.join(tmp, f'{run}_demultiplexed')
            rej_prefix = os.path.join(tmp, f'{run}_rejects')
            target = FastqHandle(out_prefix, n_mates == 2)
            rejects = FastqHandle(rej_prefix, n_mates == 2)
            log = io.StringIO()
            stdout = io.StringIO()
            with contextlib.redirect_stdout(stdout):
                use = loader.getSelectedStrategiesFromStringList(names, verbose=True)
                loader.demultiplex(paths, strategies=use, targetFile=target, rejectHandle=rejects,
                                   log_handle=log, library='LIB')
            for h in target.handles + rejects.handles:
                h.close()
            raw('RUN', run, 'STDOUT', stdout.getvalue(), 'LOG', log.getvalue())
            outputs = []
            for m in range(n_mates):
                with gzip.open(f'{out_prefix}R{m + 1}.fastq.gz', 'rt') as f:
                    text = f.read()
                raw('DEMUX FILE', run, m, text)
                outputs.append(list(parse_fastq_text(text)))
                with gzip.open(f'{rej_prefix}R{m + 1}.fastq.gz', 'rt') as f:
                    raw('REJECT FILE', run, m, f.read())
            if len({len(o) for o in outputs}) != 1:
                fail(f'{run}: mate files of different length')
                continue
            for recs in zip(*outputs):
                tags = [header_tags(r[0]) for r in recs]
                reads = inputs.get(tags[0]['CX'])
                if reads is None:
                    fail(f'{run}: emitted record {recs[0][0]} has no input')
                    continue
                name = tags[0].get('MX')
                if name not in names:
                    fail(f'{run}: record demultiplexed by unexpected strategy {name}')
                    continue
                CHECKED['pipeline_records'] += 1
                got = [dict(tags=t, sequence=r[1], qualities=r[3]) for t, r in zip(tags, recs)]
                check_result(name, dict(LAYOUTS[name], mates=n_mates), reads, got, f'pipeline {run}')

    missing = set(LAYOUTS) | set(COMPOSITE)
    missing -= seen_classes
    if missing:
        fail(f'strategies known to the oracle but not registered in the loader: {sorted(missing)}')
    if CHECKED['accepted'] < 300 or CHECKED['pipeline_records'] < 100:
        fail(f'too few accepted inputs were checked: {CHECKED}')

    print(f'checked: {CHECKED}')
    print(f'BEHAVIOUR DIGEST {DIGEST.hexdigest()}')
    if FAILURES:
        print(f'PROPERTY VIOLATED ({len(FAILURES)} findings)')
        for f in FAILURES[:25]:
            print('  -', f)
        return 1
    print('PROPERTY HOLDS')
    return 0


if __name__ == '__main__':
    sys.exit(main())
