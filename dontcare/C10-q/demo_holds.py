#!/usr/bin/env python3
"""
Independent check of property C10 (binned count tables: each counted read lands
in exactly the bins containing it).

Part 1: exhaustive check of coordinate_to_bins / coordinate_to_sliding_bin_locations
        (both copies) against a brute force window enumeration.
Part 2: a few hundred count tables made through create_count_table (returned
        frame, csv, pickle) and through the command line, compared cell by cell
        against an oracle that is computed here from the reads written.

Prints PROPERTY HOLDS (exit 0) or PROPERTY VIOLATED (exit 1), and a digest over
all raw outputs (returned lists, stdout of the tool, written tables).
"""
import contextlib
import hashlib
import io
import itertools
import os
import random
import subprocess
import sys
import tempfile
from collections import defaultdict
from fractions import Fraction
from types import SimpleNamespace

import pandas as pd
import pysam

import singlecellmultiomics.bamProcessing.bamToCountTable as b2c
import singlecellmultiomics.utils.binning as ubin

DIGEST = hashlib.sha256()
FAILURES = []
N_CHECKS = 0


def feed(*parts):
    for p in parts:
        if not isinstance(p, bytes):
            p = str(p).encode()
        DIGEST.update(p)
        DIGEST.update(b'\x00')


def fail(msg):
    FAILURES.append(msg)
    if len(FAILURES) <= 20:
        print('VIOLATION:', msg)


# --------------------------------------------------------------------------
# oracle
# --------------------------------------------------------------------------
def windows_containing(p, b, s):
    """All windows [i*s, i*s+b) (i integer, may be negative) that contain p;
    plain enumeration, no floor / ceil arithmetic"""
    out = set()
    for i in range(-(b // s) - 3, p // s + 3):
        if i * s <= p < i * s + b:
            out.add((i * s, i * s + b))
    return out


# --------------------------------------------------------------------------
# part 1 : the functions
# --------------------------------------------------------------------------
def check_functions():
    global N_CHECKS
    N = 130
    bins = [1, 2, 3, 4, 5, 7, 10, 13, 16, 25, 50, 65, 130, 131, 200]
    for mod in (b2c, ubin):
        for b in bins:
            for s in sorted({1, 2, 3, max(1, b // 3), max(1, b // 2), max(1, b - 1), b}):
                if s > b:
                    continue
                for p in range(0, N + 1):
                    got = mod.coordinate_to_bins(p, b, s)
                    loc = mod.coordinate_to_sliding_bin_locations(p, b, s)
                    feed(mod.__name__, b, s, p, repr(got), repr(loc))
                    N_CHECKS += 1
                    if len(got) != len(set(got)):
                        fail(f'{mod.__name__}: duplicate window p={p} b={b} s={s}: {got}')
                    exp = windows_containing(p, b, s)
                    if set(map(tuple, got)) != exp:
                        fail(f'{mod.__name__}: p={p} b={b} s={s}: got {got} expected {sorted(exp)}')
                    if s == b:
                        k = p // b
                        if list(map(tuple, got)) != [(k * b, (k + 1) * b)]:
                            fail(f'{mod.__name__}: no sliding p={p} b={b}: got {got}')
                    # first / last window reported by the locations function
                    start, end, start_id, end_id = loc
                    if exp:
                        if (start, end) != (min(x[0] for x in exp), max(x[1] for x in exp)) \
                                or start_id * s != start or end_id * s + b != end:
                            fail(f'{mod.__name__}: locations p={p} b={b} s={s}: {loc}')


# --------------------------------------------------------------------------
# part 2 : bam files
# --------------------------------------------------------------------------
SAMPLES = ['cellA', 'cellB', 'cellC']


def make_bam(path, contigs, rng, exhaustive):
    """Write a coordinate sorted, indexed bam; returns a list of dicts that
    describe every read written (the oracle works from these, not from the bam)"""
    header = {'HD': {'VN': '1.6', 'SO': 'coordinate'},
              'SQ': [{'SN': n, 'LN': l} for n, l in contigs]}
    recs = []

    def add(cid, pos, coord, **kw):
        d = dict(cid=cid, pos=pos, coord=coord, sample=rng.choice(SAMPLES), mapq=60,
                 qcfail=False, dup=False, unmapped=False, paired=False, mate_unmapped=False,
                 nh=None, has_ds=True, has_xb=True, length=1)
        d.update(kw)
        recs.append(d)

    for cid, (name, L) in enumerate(contigs):
        if exhaustive:
            for coord in range(0, L + 1):  # includes 0 and the contig end
                add(cid, min(coord, L - 1), coord)
        else:
            for _ in range(rng.randint(20, 60)):
                coord = rng.choice([0, L, L - 1, rng.randint(0, L), rng.randint(0, L)])
                length = rng.randint(1, 4)
                add(cid, max(0, min(coord, L - length)), coord, length=length)
        # reads that differ in weight or that must not be counted
        for _ in range(12):
            coord = rng.randint(0, L)
            kind = rng.choice(['paired', 'paired_mate_unmapped', 'nh', 'qcfail', 'dup',
                               'lowmq', 'nods', 'noxb', 'paired_nh'])
            kw = {}
            if kind == 'paired':
                kw = dict(paired=True)
            elif kind == 'paired_mate_unmapped':
                kw = dict(paired=True, mate_unmapped=True)
            elif kind == 'nh':
                kw = dict(nh=rng.choice([2, 4]))
            elif kind == 'paired_nh':
                kw = dict(paired=True, nh=2)
            elif kind == 'qcfail':
                kw = dict(qcfail=True)
            elif kind == 'dup':
                kw = dict(dup=True)
            elif kind == 'lowmq':
                kw = dict(mapq=rng.choice([0, 3, 10]))
            elif kind == 'nods':
                kw = dict(has_ds=False)
            elif kind == 'noxb':
                kw = dict(has_xb=False)
            add(cid, min(coord, L - 1), coord, **kw)
    # unmapped reads carrying the tags (never counted)
    for _ in range(3):
        add(-1, -1, rng.randint(0, 50), unmapped=True)

    recs.sort(key=lambda d: (d['cid'] if d['cid'] >= 0 else 10 ** 6, d['pos']))
    with pysam.AlignmentFile(path, 'wb', header=header) as out:
        for i, d in enumerate(recs):
            r = pysam.AlignedSegment(out.header)
            r.query_name = f'read{i}'
            r.query_sequence = 'A' * d['length']
            r.query_qualities = pysam.qualitystring_to_array('I' * d['length'])
            flag = 0
            if d['unmapped']:
                flag |= 4
                r.reference_id = -1
                r.reference_start = -1
            else:
                r.reference_id = d['cid']
                r.reference_start = d['pos']
                r.cigarstring = f"{d['length']}M"
                r.mapping_quality = d['mapq']
            if d['paired']:
                flag |= 1 | 64
                if d['mate_unmapped']:
                    flag |= 8
                else:
                    r.next_reference_id = d['cid']
                    r.next_reference_start = d['pos']
            if d['qcfail']:
                flag |= 512
            if d['dup']:
                flag |= 1024
            r.flag = flag
            r.set_tag('SM', d['sample'])
            if d['has_ds']:
                r.set_tag('DS', d['coord'])
            if d['has_xb']:
                r.set_tag('XB', d['coord'])
            if d['nh'] is not None:
                r.set_tag('NH', d['nh'])
            out.write(r)
    pysam.index(path)
    return recs


def base_args(**kw):
    d = dict(alignmentfiles=[], head=None, o=None, bin=None, binTag='DS', sliding=None,
             bedfile=None, showtags=False, featureTags=None, joinedFeatureTags=None,
             byValue=None, sampleTags='SM', proper_pairs_only=False, no_indels=False,
             max_base_edits=None, no_softclips=False, minMQ=0, filterXA=False, dedup=False,
             divideMultimapping=False, doNotDivideFragments=False, contig=None, blacklist=None,
             r1only=False, r2only=False, filterMP=False, splitFeatures=False,
             featureDelimiter=',', noNames=False, keepOverBounds=False, bulk=False)
    d.update(kw)
    return SimpleNamespace(**d)


def expected_table(recs, contigs, cfg):
    """{(sample, [chrom,] start, end): weight} computed from the description of the reads"""
    b = cfg['bin']
    s = cfg['sliding'] if cfg['sliding'] is not None else b
    table = defaultdict(Fraction)
    total_inside = Fraction(0)
    for d in recs:
        # is the read counted at all?
        if d['unmapped'] or d['qcfail'] or d['mapq'] < cfg['minMQ']:
            continue
        if cfg['dedup'] and d['dup']:
            continue
        name, L = contigs[d['cid']]
        if cfg['contig'] is not None and name != cfg['contig']:
            continue
        # its coordinate
        tag = cfg['binTag']
        if tag == 'DS':
            if not d['has_ds']:
                continue
            coord = d['coord']
        elif tag == 'XB':
            if not d['has_xb']:
                continue
            coord = d['coord']
        elif tag == 'reference_start':
            coord = d['pos']
        elif tag == 'reference_end':
            coord = d['pos'] + d['length']
        # its weight
        w = Fraction(1)
        if not cfg['doNotDivideFragments'] and d['paired'] and not d['mate_unmapped']:
            w = Fraction(1, 2)
        if cfg['divideMultimapping'] and d['nh'] is not None:
            w = w / d['nh']
        for (ws, we) in windows_containing(coord, b, s):
            inside = ws >= 0 and we <= L
            if not inside and not cfg['keepOverBounds']:
                continue
            key = (d['sample'],) + ((name,) if cfg['with_chrom'] else ()) + (ws, we)
            table[key] += w
            if inside:
                total_inside += w
    return dict(table), total_inside


def frame_to_cells(df):
    """{(sample, *index): value} of the non empty cells of a returned / unpickled frame"""
    cells = {}
    for col in df.columns:
        sample = col[0] if isinstance(col, tuple) else col
        series = df[col]
        for idx, v in series.items():
            if pd.isna(v):
                continue
            if not isinstance(idx, tuple):
                idx = (idx,)
            key = (sample,) + tuple(int(x) if not isinstance(x, str) else x for x in idx)
            if key in cells:
                fail(f'row/column {key} occurs twice in the table')
            cells[key] = Fraction(float(v))
    return cells


def csv_to_cells(text, n_index, no_names):
    """Same, from the csv text as written by the tool (own minimal parser)"""
    lines = [l for l in text.split('\n') if l != '']
    cells = {}
    if not lines:
        return cells
    header = lines[0].split(',')
    if len(header) <= n_index:
        return cells  # empty table
    samples = header[n_index:]
    body = lines[1:]
    if not no_names and body:
        body = body[1:]  # row with the names of the index levels
    for l in body:
        f = l.split(',')
        idx = tuple(int(x) if x.lstrip('-').isdigit() else x for x in f[:n_index])
        for sample, v in zip(samples, f[n_index:]):
            if v == '':
                continue
            key = (sample,) + idx
            if key in cells:
                fail(f'row/column {key} occurs twice in the csv')
            cells[key] = Fraction(float(v))
    return cells


def compare(label, cells, exp, total_inside, cfg, contigs):
    global N_CHECKS
    N_CHECKS += 1
    if cells != exp:
        missing = {k: v for k, v in exp.items() if cells.get(k) != v}
        extra = {k: v for k, v in cells.items() if k not in exp}
        fail(f'{label}: table differs from oracle; wrong/missing {list(missing.items())[:4]} unexpected {list(extra.items())[:4]}')
        return
    # consequence stated in the property: total over the bins inside the contig
    if cfg['with_chrom'] or not cfg['keepOverBounds']:
        lengths = dict(contigs)
        tot = Fraction(0)
        for k, v in cells.items():
            ws, we = k[-2], k[-1]
            if cfg['with_chrom']:
                inside = ws >= 0 and we <= lengths[k[1]]
            else:
                inside = True  # everything outside was rejected already
            if inside:
                tot += v
        if tot != total_inside:
            fail(f'{label}: table total {tot} != summed weights {total_inside}')


def run_table(args, tmp, return_df):
    buf = io.StringIO()
    with contextlib.redirect_stdout(buf):
        res = b2c.create_count_table(args, return_df=return_df)
    out = buf.getvalue().replace(tmp, '<TMP>')
    return res, out


def check_bams(tmp):
    rng = random.Random(20100)
    bam_specs = [
        ([('chrA', 60), ('chrB', 37)], True),
        ([('chrA', 100)], True),
        ([('chr1', 48), ('chr2', 50), ('chrM', 7)], True),
        ([('chrA', 1000), ('chrB', 333)], False),
        ([('ctg', 64), ('ctg_alt', 65)], False),
        ([('chrX', 210), ('chrY', 21)], False),
    ]
    n_tables = 0
    for bi, (contigs, exhaustive) in enumerate(bam_specs):
        bam = os.path.join(tmp, f'input_{bi}.bam')
        recs = make_bam(bam, contigs, rng, exhaustive)
        Ls = [l for _, l in contigs]
        bin_sizes = sorted({1, 2, 3, 5, 7, 10, 16, 25, Ls[0], Ls[0] + 3, max(1, Ls[-1] // 2), Ls[-1]})
        combos = []
        for b in bin_sizes:
            for s in sorted({None, 1, 2, 3, max(1, b // 2), b - 1 if b > 1 else 1, b}, key=lambda x: (x is not None, x)):
                if s is not None and s > b:
                    continue
                if s is not None and b // s > 40:
                    continue  # keep the run short
                combos.append((b, s))
        rng.shuffle(combos)
        combos = combos[:34]
        for ci, (b, s) in enumerate(combos):
            for keep in (False, True):
                cfg = dict(
                    bin=b, sliding=s, keepOverBounds=keep,
                    binTag=['DS', 'XB', 'reference_start', 'DS', 'reference_end'][(ci + keep) % 5],
                    with_chrom=(ci % 3 != 0),
                    minMQ=[0, 0, 5, 20][ci % 4],
                    dedup=(ci % 2 == 1),
                    doNotDivideFragments=(ci % 5 == 2),
                    divideMultimapping=(ci % 4 == 1),
                    contig=(contigs[-1][0] if ci % 11 == 7 else None),
                )
                mode = ['df', 'csv', 'pickle', 'csv_nonames'][(ci + 2 * keep) % 4]
                feats = (['chrom'] if cfg['with_chrom'] else []) + ([cfg['binTag']] if ci % 2 == 0 or not cfg['with_chrom'] else [])
                args = base_args(
                    alignmentfiles=[bam], bin=b, sliding=s, keepOverBounds=keep, binTag=cfg['binTag'],
                    joinedFeatureTags=','.join(feats), minMQ=cfg['minMQ'], dedup=cfg['dedup'],
                    doNotDivideFragments=cfg['doNotDivideFragments'],
                    divideMultimapping=cfg['divideMultimapping'], contig=cfg['contig'],
                    noNames=(mode == 'csv_nonames'))
                exp, total_inside = expected_table(recs, contigs, cfg)
                n_index = 2 + (1 if cfg['with_chrom'] else 0)
                label = f'bam{bi} b={b} s={s} keep={keep} tag={cfg["binTag"]} chrom={cfg["with_chrom"]} mode={mode}'
                try:
                    if mode == 'df':
                        df, out = run_table(args, tmp, True)
                        raw = df.to_csv()
                        cells = frame_to_cells(df)
                    elif mode == 'pickle':
                        args.o = os.path.join(tmp, f't_{bi}_{ci}_{int(keep)}.pickle.gz')
                        _, out = run_table(args, tmp, False)
                        df = pd.read_pickle(args.o)
                        raw = df.to_csv()
                        cells = frame_to_cells(df)
                    else:
                        args.o = os.path.join(tmp, f't_{bi}_{ci}_{int(keep)}.csv')
                        _, out = run_table(args, tmp, False)
                        with open(args.o) as h:
                            raw = h.read()
                        cells = csv_to_cells(raw, n_index, mode == 'csv_nonames')
                except Exception as e:  # a crash on a valid input is a failure of the check
                    fail(f'{label}: exception {type(e).__name__}: {e}')
                    continue
                feed(label, out, raw)
                compare(label, cells, exp, total_inside, cfg, contigs)
                n_tables += 1

    # the command line entry point, a few cases
    bam = os.path.join(tmp, 'input_0.bam')
    contigs = bam_specs[0][0]
    rng2 = random.Random(20100)
    recs = None
    # regenerate the description of input_0 (same seed, same first draw)
    recs = make_bam(os.path.join(tmp, 'input_0_again.bam'), contigs, rng2, True)
    bam = os.path.join(tmp, 'input_0_again.bam')
    cli_cases = [
        dict(bin=10, sliding=None, keepOverBounds=False, binTag='DS', with_chrom=True),
        dict(bin=12, sliding=4, keepOverBounds=False, binTag='DS', with_chrom=True),
        dict(bin=12, sliding=5, keepOverBounds=True, binTag='XB', with_chrom=True),
        dict(bin=37, sliding=None, keepOverBounds=False, binTag='reference_start', with_chrom=False),
    ]
    for i, c in enumerate(cli_cases):
        cfg = dict(minMQ=0, dedup=False, doNotDivideFragments=False, divideMultimapping=False, contig=None)
        cfg.update(c)
        o = os.path.join(tmp, f'cli_{i}.csv')
        cmd = [sys.executable, b2c.__file__, bam, '-o', o, '-bin', str(c['bin']), '-binTag', c['binTag'],
               '-joinedFeatureTags', 'chrom' if c['with_chrom'] else c['binTag'], '-sampleTags', 'SM']
        if c['sliding'] is not None:
            cmd += ['-sliding', str(c['sliding'])]
        if c['keepOverBounds']:
            cmd += ['--keepOverBounds']
        p = subprocess.run(cmd, stdout=subprocess.PIPE, stderr=subprocess.PIPE, text=True)
        label = f'cli case {i} {c}'
        if p.returncode != 0:
            fail(f'{label}: exit status {p.returncode}: {p.stderr[-300:]}')
            continue
        with open(o) as h:
            raw = h.read()
        feed(label, p.stdout.replace(tmp, '<TMP>'), raw)
        exp, total_inside = expected_table(recs, contigs, cfg)
        cells = csv_to_cells(raw, 2 + (1 if c['with_chrom'] else 0), False)
        compare(label, cells, exp, total_inside, cfg, contigs)
        n_tables += 1
    return n_tables


def main():
    check_functions()
    with tempfile.TemporaryDirectory(prefix='c10_demo_') as tmp:
        n_tables = check_bams(tmp)
    print(f'function level and table checks: {N_CHECKS}; count tables made: {n_tables}')
    print('BEHAVIOUR DIGEST', DIGEST.hexdigest())
    if FAILURES:
        print(f'PROPERTY VIOLATED ({len(FAILURES)} failures)')
        sys.exit(1)
    print('PROPERTY HOLDS')
    sys.exit(0)


if __name__ == '__main__':
    main()
