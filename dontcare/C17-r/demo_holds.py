#!/usr/bin/env python
"""Independent check of property C17 (blacklist-aware tiling is an exact partition with contained fetch windows).

Prints PROPERTY HOLDS and a BEHAVIOUR DIGEST over all raw outputs (in-scope and out-of-scope inputs)."""
import gzip
import hashlib
import itertools
import os
import random
import sys
import tempfile
import warnings

import pysam

from singlecellmultiomics.bamProcessing.bamBinCounts import (blacklisted_binning, blacklisted_binning_contigs,
                                                             get_bins_from_bed_dict)
from singlecellmultiomics.utils.binning import bp_chunked

RAW = []          # every raw output, for the digest
FAILURES = []
N_CHECKED = [0]


def record(label, value):
    RAW.append(f'{label}\t{value!r}')


def oracle(label, start, end, bin_size, fragment_size, blacklist, rows):
    """Own oracle, base-by-base. rows: (bin_start, bin_end[, fetch_start, fetch_end])"""
    N_CHECKED[0] += 1
    black = set()
    for s, e in blacklist:
        black.update(range(max(s, start), min(e, end)))
    cover = {p: 0 for p in range(start, end)}
    for row in rows:
        s, e = row[0], row[1]
        if e - s > bin_size:
            FAILURES.append(f'{label}: bin {s}-{e} larger than {bin_size}')
        if e < s:
            FAILURES.append(f'{label}: reversed bin {s}-{e}')
        for p in range(s, e):
            if p not in cover:
                FAILURES.append(f'{label}: bin {s}-{e} leaves region {start}-{end}')
                break
            if p in black:
                FAILURES.append(f'{label}: bin {s}-{e} touches blacklisted base {p}')
                break
            cover[p] += 1
        if fragment_size is None:
            if len(row) != 2:
                FAILURES.append(f'{label}: unexpected row {row}')
            continue
        if len(row) != 4:
            FAILURES.append(f'{label}: row without fetch window {row}')
            continue
        fs, fe = row[2], row[3]
        if fs > s or fe < e:
            FAILURES.append(f'{label}: fetch {fs}-{fe} does not contain bin {s}-{e}')
        if s - fs > fragment_size or fe - e > fragment_size:
            FAILURES.append(f'{label}: fetch {fs}-{fe} extends bin {s}-{e} by more than {fragment_size}')
        if fs < start or fe > end:
            FAILURES.append(f'{label}: fetch {fs}-{fe} outside region {start}-{end}')
        if any(p in black for p in range(fs, fe)):
            FAILURES.append(f'{label}: fetch {fs}-{fe} reaches a blacklisted base')
    for p, n in cover.items():
        expected = 0 if p in black else 1
        if n != expected:
            FAILURES.append(f'{label}: base {p} covered {n}x, expected {expected}x')
            break


def run_binning(label, start, end, bin_size, fragment_size, blacklist):
    kwargs = {}
    if fragment_size is not None:
        kwargs['fragment_size'] = fragment_size
    rows = [tuple(r) for r in blacklisted_binning(start, end, bin_size,
                                                  None if blacklist is None else list(blacklist), **kwargs)]
    record(label, rows)
    oracle(label, start, end, bin_size, fragment_size, blacklist or [], rows)
    return rows


def random_blacklist(rng, start, end):
    n = rng.choice([0, 1, 1, 2, 3, 5])
    bl = []
    for _ in range(n):
        s = rng.randint(start - 3, end + 2)
        e = s + rng.randint(1, max(1, (end - start) // 2 + 1))
        bl.append((s, e))
    if bl and rng.random() < 0.3:        # adjacent interval
        s, e = bl[-1]
        bl.append((e, e + rng.randint(1, 3)))
    if bl and rng.random() < 0.3:        # overlapping / nested interval
        s, e = bl[0]
        bl.append((s - 1, e + 1) if rng.random() < 0.5 else (s, max(s + 1, e - 1)))
    rng.shuffle(bl)
    return bl


def in_scope_direct():
    # exhaustive for small regions: all blacklists made of intervals on a tiny region
    for length in range(0, 6):
        for offset in (0, 3):
            start, end = offset, offset + length
            intervals = [(s, e) for s in range(start, end + 1) for e in range(s + 1, end + 2)]
            blacklists = [None, []] + [[iv] for iv in intervals] + \
                         [list(c) for c in itertools.combinations(intervals[:8], 2)]
            for bl in blacklists:
                for bin_size in (1, 2, 3, 7):
                    for frag in (None, 0, 1, 4):
                        run_binning(f'small {start}-{end} b{bin_size} f{frag} {bl}', start, end, bin_size, frag, bl)
    # named corner cases
    corner = [
        (0, 10, 4, 2, []), (0, 10, 4, 2, None), (0, 10, 100, 3, [(4, 6)]), (0, 10, 2, 50, [(4, 6)]),
        (0, 100, 10, 25, [(0, 5), (95, 100)]), (0, 100, 10, 5, [(0, 100)]), (0, 100, 10, 5, [(-5, 200)]),
        (0, 100, 7, 3, [(10, 20), (20, 30)]), (0, 100, 7, 3, [(10, 25), (20, 30), (22, 24)]),
        (0, 100, 7, 3, [(10, 25), (20, 30), (28, 40), (39, 41)]), (5, 5, 3, 2, []), (5, 6, 3, 2, []),
        (0, 100, 33, 0, [(50, 51)]), (0, 100, 1, 1, [(1, 99)]), (10, 90, 16, 1000, [(0, 12), (88, 95)]),
        (0, 2000, 250, 150, [(100, 200), (150, 300), (1900, 2100)]), (0, 64, 8, None, [(8, 16), (16, 24)]),
    ]
    for start, end, bin_size, frag, bl in corner:
        run_binning(f'corner {start}-{end} b{bin_size} f{frag} {bl}', start, end, bin_size, frag, bl)
    # random
    rng = random.Random(17)
    for i in range(400):
        start = rng.choice([0, 0, 7, 100])
        end = start + rng.choice([1, 2, 5, 13, 40, 97, 300])
        bin_size = rng.choice([1, 2, 3, 5, 10, 50, 500])
        frag = rng.choice([None, 0, 1, 3, 20, 1000])
        run_binning(f'random{i}', start, end, bin_size, frag, random_blacklist(rng, start, end))


def write_bed(path, blacklist_by_contig, header_lines=()):
    opener = gzip.open if path.endswith('.gz') else open
    with opener(path, 'wt') as f:
        for line in header_lines:
            f.write(line + '\n')
        for contig, ivs in blacklist_by_contig.items():
            for s, e in ivs:
                f.write(f'{contig}\t{s}\t{e}\tname\n')


def run_contigs(label, resource, contig_sizes, bin_size, frag, bed_path, blacklist_by_contig, whitelist=None):
    with warnings.catch_warnings(record=True) as caught:
        warnings.simplefilter('always')
        rows = [tuple(r) for r in blacklisted_binning_contigs(resource, bin_size, frag, blacklist_path=bed_path,
                                                              contig_whitelist=whitelist)]
    record(label, rows)
    record(label + ' warnings', [str(w.message) for w in caught])
    for contig, length in contig_sizes:
        if whitelist is not None and contig not in whitelist:
            if any(r[0] == contig for r in rows):
                FAILURES.append(f'{label}: bins for non-whitelisted contig {contig}')
            continue
        oracle(f'{label} {contig}', 0, length, bin_size, frag, blacklist_by_contig.get(contig, []),
               [r[1:] for r in rows if r[0] == contig])
    # chunking into jobs keeps every bin exactly once and in order
    for bp_per_job in (1, bin_size, 3 * bin_size + 1, 10 ** 9):
        chunks = list(bp_chunked(iter(rows), bp_per_job))
        record(f'{label} chunks{bp_per_job}', chunks)
        if [r for chunk in chunks for r in chunk] != rows:
            FAILURES.append(f'{label}: bp_chunked({bp_per_job}) lost, duplicated or reordered bins')
    return rows


def in_scope_contigs(tmp):
    rng = random.Random(1717)
    contig_sizes = [('chr1', 230), ('chr2', 64), ('chrM', 17), ('scaffold_1', 1)]
    bam_path = os.path.join(tmp, 'header.bam')
    with pysam.AlignmentFile(bam_path, 'wb', header={'HD': {'VN': '1.6', 'SO': 'coordinate'}, 'SQ': [
            {'SN': c, 'LN': l} for c, l in contig_sizes]}):
        pass
    for i in range(40):
        blacklist_by_contig = {c: random_blacklist(rng, 0, l) for c, l in contig_sizes if rng.random() < 0.8}
        blacklist_by_contig = {c: v for c, v in blacklist_by_contig.items() if v}
        # BED coordinates are not negative
        blacklist_by_contig = {c: [(max(0, s), e) for s, e in v if e > 0] for c, v in blacklist_by_contig.items()}
        bed = os.path.join(tmp, f'bl{i}.bed' + ('.gz' if i % 2 else ''))
        write_bed(bed, blacklist_by_contig)
        record(f'bed{i}', sorted(get_bins_from_bed_dict(bed).items()))
        bin_size = rng.choice([1, 4, 10, 50, 1000])
        frag = rng.choice([None, 0, 2, 15, 500])
        resource = bam_path if i % 3 else list(contig_sizes)
        whitelist = None if i % 4 else ['chr1', 'chrM']
        run_contigs(f'contigs{i}', resource, contig_sizes, bin_size, frag, bed if blacklist_by_contig or i % 5 else None,
                    blacklist_by_contig, whitelist)


def attempt(label, fn):
    """Out of scope inputs: only record what happens (value, exception, warnings)."""
    with warnings.catch_warnings(record=True) as caught:
        warnings.simplefilter('always')
        try:
            out = fn()
            stage = 'call'
            if not isinstance(out, (list, dict, tuple)):
                stage = 'iteration'
                out = [tuple(r) for r in out]
            record(label, ('OK', out))
        except Exception as exc:  # noqa
            record(label, ('ERR', type(exc).__name__, str(exc)))
    record(label + ' warnings', [str(w.message) for w in caught])


def out_of_scope(tmp):
    # not quantified over by the property: nonsensical arguments, BED files with headers, foreign contig names
    attempt('bin_size 0', lambda: list(blacklisted_binning(0, 10, 0, [(3, 4)])))
    attempt('bin_size -4', lambda: list(blacklisted_binning(0, 10, -4, [(3, 4)], fragment_size=2)))
    attempt('reversed region', lambda: list(blacklisted_binning(10, 5, 4, [])))
    attempt('negative fragment', lambda: list(blacklisted_binning(0, 10, 4, [], fragment_size=-1)))

    def lazy():
        gen = blacklisted_binning(0, 10, 0, [])
        return ['constructed without error']
    attempt('bin_size 0, not iterated', lazy)

    bed = os.path.join(tmp, 'ucsc.bed')
    write_bed(bed, {'chr1': [(10, 20), (40, 45)], 'chr2': [(0, 4)]},
              header_lines=['browser position chr1:1-100', 'track name=blacklist description="x"', '# comment', ''])
    attempt('bed with header, dict', lambda: sorted(get_bins_from_bed_dict(bed).items()))
    attempt('bed with header, binning', lambda: list(blacklisted_binning_contigs(
        [('chr1', 60), ('chr2', 9)], 7, 3, blacklist_path=bed)))
    bed2 = os.path.join(tmp, 'foreign.bed')
    write_bed(bed2, {'1': [(10, 20)], 'chr2': [(0, 4)], 'MT': [(0, 3)]})
    attempt('bed with foreign contigs', lambda: list(blacklisted_binning_contigs(
        [('chr1', 60), ('chr2', 9)], 7, 3, blacklist_path=bed2)))


def main():
    with tempfile.TemporaryDirectory(prefix='c17_demo_') as tmp:
        in_scope_direct()
        in_scope_contigs(tmp)
        n_in_scope = N_CHECKED[0]
        out_of_scope(tmp)
    digest = hashlib.sha256('\n'.join(RAW).encode()).hexdigest()
    print(f'{n_in_scope} in-scope tilings checked, {len(RAW)} raw outputs recorded')
    if FAILURES:
        print(f'PROPERTY VIOLATED ({len(FAILURES)} failures)')
        for f in FAILURES[:20]:
            print('  ', f)
        print(f'BEHAVIOUR DIGEST {digest}')
        return 1
    print('PROPERTY HOLDS')
    print(f'BEHAVIOUR DIGEST {digest}')
    return 0


if __name__ == '__main__':
    sys.exit(main())
