#!/usr/bin/env python3
"""Independent check of property C10 (binned count tables).

Every counted read must contribute its weight to exactly the windows
[i*s, i*s+b) that contain its coordinate (one bin floor(c/b) without sliding),
windows crossing the contig bounds are dropped unless keepOverBounds is set,
and the table total equals the summed weights of the kept windows.

Prints "PROPERTY HOLDS" when all checks pass and a "BEHAVIOUR DIGEST" over all
raw outputs (return values, tables, attributes, produced files, stdout/stderr,
exceptions of out-of-scope calls).
"""
import contextlib
import collections
import csv
import hashlib
import io
import math
import os
import random
import sys
import tempfile
import traceback
from types import SimpleNamespace

import pandas as pd
import pysam

import singlecellmultiomics.bamProcessing.bamToCountTable as b2c
import singlecellmultiomics.utils.binning as binning

DIGEST = hashlib.sha256()
FAILURES = []
N_CHECKS = 0


def record(*parts):
    for p in parts:
        DIGEST.update(repr(p).encode())
        DIGEST.update(b'\x00')


def fail(msg):
    FAILURES.append(msg)
    if len(FAILURES) < 20:
        print('VIOLATION:', msg)


# --------------------------------------------------------------------------
# Oracle (brute force, integer arithmetic only)
# --------------------------------------------------------------------------
def oracle_windows(c, b, s):
    """All windows [i*s, i*s+b) (i any integer) containing coordinate c"""
    out = []
    for i in range(-(b // s) - 3, c // s + 3):
        if i * s <= c < i * s + b:
            out.append((i * s, i * s + b))
    return out


# --------------------------------------------------------------------------
# Part 1: the two copies of the window arithmetic, exhaustively
# --------------------------------------------------------------------------
def part1():
    global N_CHECKS
    N = 260
    combos = []
    for b in (1, 2, 3, 5, 7, 10, 16, 25, 30, 64, 100, 130, 260):
        for s in sorted({1, 2, 3, b // 3, b // 2, b - 1, b} - {0}):
            if 0 < s <= b:
                combos.append((b, s))
    for module in (b2c, binning):
        for b, s in combos:
            for c in range(0, N + 1):
                got = module.coordinate_to_bins(c, b, s)
                record(module.__name__, b, s, c, got)
                exp = oracle_windows(c, b, s)
                N_CHECKS += 1
                if sorted(got) != exp:
                    fail(f'{module.__name__}.coordinate_to_bins({c},{b},{s}) = {got}, expected {exp}')
                if len(set(got)) != len(got):
                    fail(f'duplicate window for {c},{b},{s}: {got}')
                if s == b:
                    k = c // b
                    if list(got) != [(k * b, (k + 1) * b)]:
                        fail(f'no-sliding bin of {c} with b={b}: {got}')
                loc = module.coordinate_to_sliding_bin_locations(c, b, s)
                record(loc)
                if exp and (loc[0], loc[1]) != (exp[0][0], exp[-1][1]):
                    fail(f'sliding bin locations {c},{b},{s}: {loc}')
    # Out of scope of the property (only recorded): non positive sizes
    for module in (b2c, binning):
        for args in ((10, 0, 0), (10, 5, 0), (10, -5, -5), (10, 5, -1), (10, 0, 1)):
            try:
                with contextlib.redirect_stderr(io.StringIO()):
                    r = ('ok', module.coordinate_to_bins(*args))
            except BaseException as e:
                r = ('exc', type(e).__name__, str(e))
            record('out-of-scope', module.__name__, args, r)


# --------------------------------------------------------------------------
# Part 2: through the count table entry point
# --------------------------------------------------------------------------
CONTIGS = [('chrA', 1000), ('chrB', 777), ('chrC', 60)]
READ_LEN = 10


def make_bam(path, seed, n_reads):
    """Write a coordinate sorted, indexed BAM. Returns the list of read specs"""
    rnd = random.Random(seed)
    header = {'HD': {'VN': '1.6', 'SO': 'coordinate'},
              'SQ': [{'SN': n, 'LN': l} for n, l in CONTIGS]}
    specs = []
    special = [30, 25, 100, 7, 64, 50, 10]
    for ri in range(n_reads):
        tid = rnd.choice([0, 0, 1, 1, 2])
        clen = CONTIGS[tid][1]
        mode = rnd.random()
        if mode < 0.15:
            coord = rnd.choice([0, clen, clen - 1, 1])
        elif mode < 0.45:
            m = rnd.choice(special)
            coord = min(clen, m * rnd.randint(0, clen // m) + rnd.choice([0, 0, -1, 1]))
            coord = max(0, coord)
        else:
            coord = rnd.randint(0, clen)
        pos = min(max(0, coord - rnd.randint(0, 5)), clen - READ_LEN)
        spec = dict(
            name=f'r{seed}_{ri}', tid=tid, pos=pos, coord=coord,
            sample=rnd.choice(['cellA', 'cellB', 'cellC']),
            paired=rnd.random() < 0.4, mate_unmapped=rnd.random() < 0.3,
            dup=rnd.random() < 0.1, qcfail=rnd.random() < 0.05,
            mapq=rnd.choice([0, 10, 30, 60, 60]),
            has_tag=rnd.random() < 0.93, is_read2=rnd.random() < 0.3,
            xp=rnd.randint(0, clen))
        specs.append(spec)
    specs.sort(key=lambda x: (x['tid'], x['pos']))
    with pysam.AlignmentFile(path, 'wb', header=header) as out:
        for sp in specs:
            a = pysam.AlignedSegment(out.header)
            a.query_name = sp['name']
            a.query_sequence = 'ACGTACGTAC'
            a.query_qualities = pysam.qualitystring_to_array('I' * READ_LEN)
            a.reference_id = sp['tid']
            a.reference_start = sp['pos']
            a.cigartuples = [(0, READ_LEN)]
            a.mapping_quality = sp['mapq']
            flag = 0
            if sp['paired']:
                flag |= 1
                flag |= 128 if sp['is_read2'] else 64
                if sp['mate_unmapped']:
                    flag |= 8
                else:
                    a.next_reference_id = sp['tid']
                    a.next_reference_start = sp['pos']
            if sp['dup']:
                flag |= 1024
            if sp['qcfail']:
                flag |= 512
            a.flag = flag
            if sp['paired'] and not sp['mate_unmapped']:
                a.next_reference_id = sp['tid']
                a.next_reference_start = sp['pos']
            a.set_tag('SM', sp['sample'])
            a.set_tag('XP', sp['xp'])
            if sp['has_tag']:
                a.set_tag('DS', sp['coord'])
            out.write(a)
    pysam.index(path)
    return specs


def expected_table(specs, cfg):
    """Independent model: {(sample, key): weight}, and the number of counted reads"""
    exp = collections.defaultdict(float)
    lens = dict(CONTIGS)
    for sp in specs:
        if sp['qcfail']:
            continue
        if sp['mapq'] < cfg['minMQ']:
            continue
        if cfg['dedup'] and sp['dup']:
            continue
        if cfg['contig'] is not None and CONTIGS[sp['tid']][0] != cfg['contig']:
            continue
        weight = 1.0
        if not cfg['doNotDivideFragments'] and sp['paired'] and not sp['mate_unmapped']:
            weight = 0.5
        if cfg['binTag'] == 'DS':
            if not sp['has_tag']:
                continue
            c = sp['coord']
        elif cfg['binTag'] == 'XP':
            c = sp['xp']
        else:
            c = sp['pos']
        contig = CONTIGS[sp['tid']][0]
        for start, end in oracle_windows(c, cfg['bin'], cfg['sliding'] or cfg['bin']):
            if not cfg['keepOverBounds'] and (start < 0 or end > lens[contig]):
                continue
            key = ((contig, start, end) if cfg['with_chrom'] else (start, end))
            exp[(sp['sample'], key)] += weight
    return exp


def table_to_dict(df):
    got = {}
    for col in df.columns:
        sample = col[0] if isinstance(col, tuple) else col
        series = df[col]
        for key, value in series.items():
            if value is None or (isinstance(value, float) and math.isnan(value)):
                continue
            if value == 0:
                continue
            key = tuple(int(k) if not isinstance(k, str) else k for k in key)
            got[(sample, key)] = got.get((sample, key), 0) + float(value)
    return got


def parse_csv_table(text, n_index):
    """Own parser of the written csv: first row holds the samples, rows whose
    start / end fields are not integers are header rows"""
    rows = list(csv.reader(io.StringIO(text)))
    samples = rows[0][n_index:]
    index, data = [], []
    for row in rows[1:]:
        try:
            start, end = int(row[n_index - 2]), int(row[n_index - 1])
        except ValueError:
            continue
        index.append(tuple(row[:n_index - 2]) + (start, end))
        data.append([float(v) if v != '' else float('nan') for v in row[n_index:]])
    if not index:
        return pd.DataFrame()
    return pd.DataFrame(data, index=pd.MultiIndex.from_tuples(index), columns=samples)


def make_args(bam, cfg, o=None):
    return SimpleNamespace(
        alignmentfiles=[bam], head=None, o=o, bin=cfg['bin'], binTag=cfg['binTag'],
        sliding=cfg['sliding'], bedfile=None, showtags=False,
        featureTags=cfg.get('featureTags'),
        joinedFeatureTags=cfg.get('joinedFeatureTags', 'chrom' if cfg['with_chrom'] else None),
        byValue=None, sampleTags='SM', proper_pairs_only=False, no_indels=False,
        max_base_edits=None, no_softclips=False, minMQ=cfg['minMQ'], filterXA=False,
        dedup=cfg['dedup'], divideMultimapping=False,
        doNotDivideFragments=cfg['doNotDivideFragments'], contig=cfg['contig'],
        blacklist=None, r1only=False, r2only=False, filterMP=False, splitFeatures=False,
        featureDelimiter=',', keepOverBounds=cfg['keepOverBounds'], noNames=cfg.get('noNames', False),
        bulk=False)


def run_entry_point(bam, cfg, tmp, o=None):
    """Run create_count_table, capture everything observable"""
    out, err = io.StringIO(), io.StringIO()
    before = set(os.listdir(tmp))
    result = None
    exc = None
    with contextlib.redirect_stdout(out), contextlib.redirect_stderr(err):
        try:
            result = b2c.create_count_table(make_args(bam, cfg, o), return_df=(o is None))
        except BaseException as e:  # noqa
            exc = (type(e).__name__, str(e))
    new_files = sorted(set(os.listdir(tmp)) - before)
    scrub = lambda t: t.replace(tmp, '<TMP>')
    record('stdout', scrub(out.getvalue()), 'stderr', scrub(err.getvalue()), 'exc', exc)
    record('new files', new_files)
    df = None
    if isinstance(result, pd.DataFrame):
        df = result
    elif isinstance(result, str):
        record('returned', scrub(result))
    for fn in new_files:
        p = os.path.join(tmp, fn)
        if fn.endswith('.pickle') or fn.endswith('.pickle.gz'):
            df = pd.read_pickle(p)
        else:
            with open(p, 'rb') as h:
                raw = h.read()
            record('file', fn, scrub(raw.decode(errors='replace')))
            if fn.endswith('.csv'):
                df = parse_csv_table(raw.decode(), 3 if cfg['with_chrom'] else 2)
        os.remove(p)
    if df is not None:
        record('table', df.to_csv(), 'index names', list(df.index.names),
               'column names', list(df.columns.names), 'attrs', sorted(df.attrs.items(), key=repr))
    return df, exc


def check_table(df, specs, cfg, label):
    global N_CHECKS
    N_CHECKS += 1
    exp = expected_table(specs, cfg)
    got = table_to_dict(df) if df is not None and df.shape[0] > 0 else {}
    for k in set(exp) | set(got):
        e, g = exp.get(k, 0.0), got.get(k, 0.0)
        if abs(e - g) > 1e-9:
            fail(f'{label}: cell {k}: expected {e}, table has {g}')
    total = float(df.sum().sum()) if df is not None and df.shape[0] > 0 else 0.0
    if abs(total - sum(exp.values())) > 1e-9:
        fail(f'{label}: table total {total}, expected {sum(exp.values())}')
    if not cfg['keepOverBounds'] and df is not None and df.shape[0] > 0:
        lens = dict(CONTIGS)
        for key in df.index:
            start, end = int(key[-2]), int(key[-1])
            if start < 0 or (cfg['with_chrom'] and end > lens[key[0]]):
                fail(f'{label}: window {key} crosses the contig bounds')
    if df is not None and df.shape[0] > 0 and df.index.has_duplicates:
        fail(f'{label}: a window occurs twice in the index')


def part2(tmp):
    rnd = random.Random(1010)
    bams = []
    for seed, n in ((1, 60), (2, 150), (3, 300), (4, 25), (5, 400)):
        path = os.path.join(tmp, f'in_{seed}.bam')
        bams.append((path, make_bam(path, seed, n)))
    inputs = set(os.listdir(tmp))

    configs = []
    for b in (1, 7, 10, 25, 30, 50, 64, 100, 777, 1000, 1500):
        slidings = [None, b] + [s for s in (1, 3, b // 4, b // 2, b - 1) if 0 < s <= b]
        for s in slidings:
            configs.append((b, s))
    rnd.shuffle(configs)
    n_runs = 0
    for ci, (b, s) in enumerate(configs):
        if b >= 50 and s is not None and s < 3:
            continue  # keep the run time reasonable
        for keep in (False, True):
            bam, specs = bams[(ci + keep) % len(bams)]
            cfg = dict(bin=b, sliding=s, keepOverBounds=keep,
                       binTag=('DS', 'DS', 'XP', 'reference_start')[(ci + keep) % 4],
                       with_chrom=(ci % 5 != 0), minMQ=(0, 0, 20)[ci % 3],
                       dedup=bool(ci % 2), doNotDivideFragments=bool((ci // 2) % 2),
                       contig=(None, None, None, 'chrB')[ci % 4], noNames=(ci % 7 == 0))
            if not cfg['with_chrom']:
                # the bin tag is then the only (joined) feature
                cfg['joinedFeatureTags'] = cfg['binTag']
            mode = (None, None, 'csv', 'pickle')[(ci + 2 * keep) % 4]
            o = None if mode is None else os.path.join(tmp, f'table_{ci}_{int(keep)}.{mode}')
            label = f'run b={b} s={s} keep={keep} tag={cfg["binTag"]} o={mode}'
            record(label, sorted(cfg.items()))
            df, exc = run_entry_point(bam, cfg, tmp, o)
            n_runs += 1
            if exc is not None:
                fail(f'{label}: unexpected exception {exc}')
                continue
            check_table(df, specs, cfg, label)

    # ---- calls outside the quantification of the property: only recorded,
    # ---- but when a table is produced it must obey the property as well
    bam, specs = bams[1]
    base = dict(bin=30, sliding=None, keepOverBounds=False, binTag='DS', with_chrom=True,
                minMQ=0, dedup=False, doNotDivideFragments=False, contig=None)
    oos = [
        ('bin with plain featureTags', dict(base, featureTags='chrom', joinedFeatureTags=None)),
        ('bin without any feature tag', dict(base, joinedFeatureTags=None, with_chrom=False)),
        ('bin zero', dict(base, bin=0)),
        ('bin negative', dict(base, bin=-30)),
        ('sliding zero', dict(base, sliding=0)),
        ('sliding larger than bin', dict(base, sliding=45)),
    ]
    for label, cfg in oos:
        record(label)
        for o in (None, os.path.join(tmp, 'oos.csv')):
            df, exc = run_entry_point(bam, cfg, tmp, o)
            if exc is None and df is not None and label.startswith('bin with'):
                check_table(df, specs, cfg, label)
            if exc is None and df is not None and label.startswith('bin without'):
                check_table(df, specs, cfg, label)
    assert set(os.listdir(tmp)) == inputs
    return n_runs


def main():
    part1()
    with tempfile.TemporaryDirectory(prefix='c10demo_') as tmp:
        tmp = os.path.realpath(tmp)
        cwd = os.getcwd()
        try:
            n_runs = part2(tmp)
        finally:
            os.chdir(cwd)
    print(f'{N_CHECKS} checks, {n_runs} count tables')
    print('BEHAVIOUR DIGEST', DIGEST.hexdigest())
    if FAILURES:
        print(f'PROPERTY VIOLATED ({len(FAILURES)} failures)')
        return 1
    print('PROPERTY HOLDS')
    return 0


if __name__ == '__main__':
    try:
        sys.exit(main())
    except SystemExit:
        raise
    except BaseException:
        traceback.print_exc()
        sys.exit(2)
