#!/usr/bin/env python3
"""Independent check of property C19 (per-cell file splitting loses no record
under handle limits and open failures) + digest of the raw observable outputs.

Oracle: a plain dict path -> list of records for which write() returned.
After close() every file must hold exactly these records, in order (and be a
valid gzip stream when written gzipped).  write() may only raise when the last
failed open() was attempted while no other file opened through the limiter was
still open; with a pure "EMFILE above k descriptors" (k>=1) injection it may
never raise.
"""
import contextlib
import errno
import gzip
import hashlib
import io
import os
import random
import resource
import shutil
import sys
import tempfile
import types

import singlecellmultiomics.pyutils.handlelimiter as hl
from singlecellmultiomics.pyutils.handlelimiter import HandleLimiter
from singlecellmultiomics.fastqProcessing.fastqHandle import FastqHandle

REAL_GZIP = gzip
REAL_OPEN = open
DIGEST = hashlib.sha256()
PROBLEMS = []
N_SCENARIOS = 0


def feed(*parts):
    for p in parts:
        if not isinstance(p, bytes):
            p = str(p).encode()
        DIGEST.update(len(p).to_bytes(8, 'little'))
        DIGEST.update(p)


class Injector:
    """Stands in for open() / gzip.open() inside the handlelimiter module"""

    def __init__(self, k=None, fail_calls=(), perm_marker=None):
        self.k = k
        self.fail_calls = set(fail_calls)
        self.perm_marker = perm_marker
        self.tracked = []
        self.calls = 0
        self.others_open_at_last_failure = None
        self.failures = 0
        self.max_open = 0

    def n_open(self):
        self.tracked = [f for f in self.tracked if not f.closed]
        return len(self.tracked)

    def _gate(self, path):
        self.calls += 1
        n = self.n_open()
        fail = None
        if self.perm_marker is not None and \
                os.path.basename(path).startswith(self.perm_marker + '.'):
            fail = OSError(errno.EACCES, 'Permission denied', path)
        elif self.calls in self.fail_calls:
            fail = OSError(errno.EMFILE, 'Too many open files', path)
        elif self.k is not None and n >= self.k:
            fail = OSError(errno.EMFILE, 'Too many open files', path)
        if fail is not None:
            self.failures += 1
            self.others_open_at_last_failure = n
            raise fail

    def _track(self, f):
        self.tracked.append(f)
        self.max_open = max(self.max_open, self.n_open())
        return f

    def plain_open(self, path, *a, **kw):
        self._gate(path)
        return self._track(REAL_OPEN(path, *a, **kw))

    def gzip_open(self, path, *a, **kw):
        self._gate(path)
        return self._track(REAL_GZIP.open(path, *a, **kw))

    @contextlib.contextmanager
    def installed(self):
        hl.gzip = types.SimpleNamespace(open=self.gzip_open)
        hl.open = self.plain_open
        try:
            yield self
        finally:
            hl.gzip = REAL_GZIP
            del hl.open


def read_back(path, method):
    with REAL_OPEN(path, 'rb') as f:
        raw = f.read()
    if method == 1:
        # gzip.decompress raises on anything that is not a sequence of
        # complete, crc-correct gzip members
        return REAL_GZIP.decompress(raw).decode('utf-8')
    return raw.decode('utf-8')


def check_files(name, tmp, expected, method, all_paths):
    for path in all_paths:
        want = ''.join(expected.get(path, []))
        if not os.path.exists(path):
            if want:
                PROBLEMS.append(f'{name}: {os.path.basename(path)} missing')
            feed('absent', os.path.basename(path))
            continue
        try:
            got = read_back(path, method)
        except Exception as e:
            PROBLEMS.append(f'{name}: {os.path.basename(path)} unreadable {e!r}')
            continue
        if got != want:
            PROBLEMS.append(
                f'{name}: {os.path.basename(path)} content differs '
                f'({len(got)} vs {len(want)} chars)')
        feed(os.path.basename(path), got)


def run_limiter(name, rng, n_files, n_writes, maxHandles, pruneEvery, method,
                inj=None, digest_text=True, skew=False):
    global N_SCENARIOS
    N_SCENARIOS += 1
    tmp = tempfile.mkdtemp(prefix='c19_')
    out, err = io.StringIO(), io.StringIO()
    expected = {}
    ext = '.txt.gz' if method == 1 else '.txt'
    paths = [os.path.join(tmp, f'cell_{i:03d}{ext}') for i in range(n_files)]
    raised = []
    try:
        limiter = HandleLimiter(maxHandles=maxHandles, pruneEvery=pruneEvery)
        ctx = inj.installed() if inj is not None else contextlib.nullcontext()
        with ctx, contextlib.redirect_stdout(out), contextlib.redirect_stderr(err):
            for w in range(n_writes):
                if skew:
                    path = paths[min(int(rng.expovariate(0.15)), n_files - 1)]
                else:
                    path = rng.choice(paths)
                rec = f'@r{w}:{os.path.basename(path)}\n' + \
                    ''.join(rng.choice('ACGTé' if method == 1 else 'ACGTN') for _ in range(rng.randint(0, 30))) + '\n'
                before_fail = inj.failures if inj is not None else 0
                try:
                    limiter.write(path, rec, method=method)
                except Exception as e:
                    raised.append((w, os.path.basename(path), type(e).__name__,
                                   getattr(e, 'errno', None)))
                    if inj is None:
                        PROBLEMS.append(f'{name}: raised {e!r} without injection')
                    else:
                        if inj.failures == before_fail:
                            PROBLEMS.append(f'{name}: raised {e!r} but no open failed')
                        if inj.others_open_at_last_failure != 0:
                            PROBLEMS.append(
                                f'{name}: raised {e!r} while '
                                f'{inj.others_open_at_last_failure} other handles were open')
                        if inj.perm_marker is None and not inj.fail_calls:
                            PROBLEMS.append(f'{name}: raised {e!r} under pure EMFILE k={inj.k}')
                    continue
                expected.setdefault(path, []).append(rec)
            close_ret = limiter.close()
        if inj is not None and inj.n_open() != 0:
            PROBLEMS.append(f'{name}: {inj.n_open()} handles left open after close()')
        if limiter.openHandles:
            PROBLEMS.append(f'{name}: openHandles not empty after close()')
        check_files(name, tmp, expected, method, paths)
        feed(name, repr(raised))
        if digest_text:
            feed(out.getvalue().replace(tmp, '<TMP>'),
                 err.getvalue().replace(tmp, '<TMP>'),
                 type(close_ret).__name__)
    finally:
        shutil.rmtree(tmp, ignore_errors=True)
    return raised


class Rec:
    def __init__(self, name, seq, tags):
        self.name, self.seq, self.tags = name, seq, tags

    def __str__(self):
        t = ';'.join(f'{k}:{v}' for k, v in sorted(self.tags.items()))
        return f'@{self.name};{t}\n{self.seq}\n+\n{"I" * len(self.seq)}\n'


def run_fastq(name, rng, n_cells, n_pairs, maxHandles, pruneEvery, inj=None):
    global N_SCENARIOS
    N_SCENARIOS += 1
    tmp = tempfile.mkdtemp(prefix='c19_')
    out, err = io.StringIO(), io.StringIO()
    expected = {}
    prefix = os.path.join(tmp, 'lib')
    try:
        ctx = inj.installed() if inj is not None else contextlib.nullcontext()
        with ctx, contextlib.redirect_stdout(out), contextlib.redirect_stderr(err):
            fh = FastqHandle(prefix, pairedEnd=True, single_cell=True,
                             maxHandles=maxHandles)
            fh.handles.pruneEvery = pruneEvery
            for i in range(n_pairs):
                c = rng.randrange(n_cells)
                tags = {'MX': 'CS2C8U3'}
                if c:  # cell 0 has no cell identifier at all
                    tags['bi'] = c
                pair = [Rec(f'read{i}/{m}',
                            ''.join(rng.choice('ACGTN') for _ in range(rng.randint(1, 40))),
                            dict(tags)) for m in (1, 2)]
                try:
                    fh.write(pair)
                except Exception as e:
                    PROBLEMS.append(f'{name}: raised {e!r}')
                    continue
                cell = f"{tags.get('bi', 'no_cell_id')}.CS2C8U3"
                for mate, r in zip(('R1', 'R2'), pair):
                    expected.setdefault(
                        f'{prefix}.{cell}.{mate}.fastq.gz', []).append(str(r))
            fh.close()
        produced = sorted(os.path.join(tmp, f) for f in os.listdir(tmp))
        if produced != sorted(expected):
            PROBLEMS.append(f'{name}: set of per-cell files differs')
        check_files(name, tmp, expected, 1, sorted(expected))
        feed(name, out.getvalue().replace(tmp, '<TMP>'),
             err.getvalue().replace(tmp, '<TMP>'))
    finally:
        shutil.rmtree(tmp, ignore_errors=True)


def main():
    rng = random.Random(190019)

    # 1. no injection: every combination of limits / intervals, 1..200 files
    combos = [(1, 1), (1, 2), (2, 1), (3, 7), (5, 1), (8, 50), (32, 10000),
              (200, 1), (1, 10000), (500, 3), (0, 1), (16, 16)]
    for n_files in (1, 2, 3, 7, 20, 64, 200):
        for (mh, pe) in combos:
            run_limiter(f'plain/{n_files}/{mh}/{pe}', rng, n_files,
                        min(40 + 3 * n_files, 450), mh, pe,
                        method=1 if (n_files + mh) % 4 else 0,
                        skew=(pe % 2 == 0))

    # 2. EMFILE as soon as more than k descriptors are open, k >= 1
    for k in (1, 2, 3, 5, 17, 64):
        for n_files in (1, 2, 5, 30, 200):
            for (mh, pe) in ((1, 1), (4, 3), (32, 10000), (500, 1), (k, 1), (k + 1, 2)):
                inj = Injector(k=k)
                raised = run_limiter(f'emfile/{k}/{n_files}/{mh}/{pe}', rng, n_files,
                                     min(30 + 2 * n_files, 330), mh, pe,
                                     method=1 if (k + n_files + pe) % 3 else 0, inj=inj)
                if raised:
                    PROBLEMS.append(f'emfile k={k}: raised {raised[:2]}')
                if inj.max_open > k:
                    PROBLEMS.append('injector broken')

    # 3. transient single failures of arbitrary open() calls
    for rep in range(40):
        n_files = rng.choice((1, 2, 3, 10, 50, 200))
        fails = set(rng.sample(range(1, 120), rng.randint(1, 12)))
        if rep % 5 == 0:
            fails |= {5, 6}          # two failures in a row: retry fails too
        if rep % 7 == 0:
            fails |= {1}             # very first open fails, nothing to close
        inj = Injector(k=rng.choice((None, None, 4, 9)), fail_calls=fails)
        run_limiter(f'transient/{rep}', rng, n_files, 150 + n_files,
                    rng.choice((1, 2, 8, 32, 500)), rng.choice((1, 2, 5, 10000)),
                    method=1 if rep % 4 else 0, inj=inj)

    # 4. one path can never be opened
    for rep in range(30):
        n_files = rng.choice((1, 2, 4, 25, 200))
        tmp_marker = f'cell_{rng.randrange(n_files):03d}'
        inj = Injector(k=rng.choice((None, 2, 6)), perm_marker=tmp_marker)
        raised = run_limiter(f'permanent/{rep}', rng, n_files, 120 + n_files,
                             rng.choice((1, 3, 32, 500)), rng.choice((1, 4, 10000)),
                             method=1 if rep % 3 else 0, inj=inj)
        if any(tmp_marker + '.' not in r[1] for r in raised):
            PROBLEMS.append(f'permanent/{rep}: raised for a healthy path')

    # 5. the fastq front end (one file per cell and mate)
    for rep, (cells, mh, pe, k) in enumerate((
            (1, 500, 10000, None), (5, 2, 1, None), (96, 10, 7, None),
            (100, 500, 10000, 7), (100, 3, 2, 1), (40, 500, 1, 2),
            (384, 50, 25, 33), (100, 1, 1, 3))):
        run_fastq(f'fastq/{rep}', rng, cells, 300, mh, pe,
                  inj=Injector(k=k) if k else None)

    # 6. the real thing: a low RLIMIT_NOFILE (texts kept out of the digest,
    #    they depend on how many descriptors the interpreter holds itself)
    soft, hard = resource.getrlimit(resource.RLIMIT_NOFILE)
    try:
        resource.setrlimit(resource.RLIMIT_NOFILE, (40, hard))
        for rep in range(3):
            run_limiter(f'rlimit/{rep}', rng, 200, 600, 500, (1, 50, 10000)[rep],
                        method=1, inj=None, digest_text=False)
    finally:
        resource.setrlimit(resource.RLIMIT_NOFILE, (soft, hard))

    print(f'{N_SCENARIOS} scenarios checked')
    print('BEHAVIOUR DIGEST', DIGEST.hexdigest())
    if PROBLEMS:
        print(f'PROPERTY VIOLATED ({len(PROBLEMS)} problems)')
        for p in PROBLEMS[:25]:
            print('  ', p)
        sys.exit(1)
    print('PROPERTY HOLDS')


if __name__ == '__main__':
    main()
