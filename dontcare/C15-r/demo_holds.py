#!/usr/bin/env python3
"""Independent check of property C15 (consensus pseudo-reads are well formed and span exactly the
molecule coverage), through the API (deduplicate_majority / write_pysam) and the --consensus command line.

Prints "PROPERTY HOLDS" and exits 0 when every consensus record agrees with an oracle which is computed
from the DESIGN of the synthetic molecules only (never from the code under test), and prints
"BEHAVIOUR DIGEST <sha256>" over all raw outputs that were observed.
"""
import hashlib
import os
import random
import re
import sys
import tempfile
import io
import contextlib
from collections import defaultdict

import pysam

import singlecellmultiomics.universalBamTagger.bamtagmultiome as tm
from singlecellmultiomics.universalBamTagger.tagging import run_tagging_task
from singlecellmultiomics.molecule import MoleculeIterator, CHICMolecule
from singlecellmultiomics.fragment import CHICFragment
from singlecellmultiomics.utils.sequtils import phredscores_to_base_call

CONTIG = 'chrT'
SPACING = 900
QUALS = [11, 20, 30, 37, 40, 41]
RAW = []       # every raw output which goes into the digest
FAILURES = []


def raw(*parts):
    RAW.append('\t'.join(str(p) for p in parts))


def fail(msg):
    FAILURES.append(msg)
    if len(FAILURES) < 25:
        print('VIOLATION', msg)


# ---------------------------------------------------------------------------------------------
# Design of the inputs
# ---------------------------------------------------------------------------------------------
def make_reference(path, length, rng):
    seq = ''.join(rng.choice('ACGT') for _ in range(length))
    with open(path, 'w') as o:
        o.write(f'>{CONTIG}\n')
        for i in range(0, length, 60):
            o.write(seq[i:i + 60] + '\n')
    pysam.faidx(path)
    return seq


def other_base(base, rng):
    return rng.choice([b for b in 'ACGT' if b != base])


class DesignedMolecule:
    def __init__(self, index, sample, umi, reverse, anchor):
        self.index, self.sample, self.umi, self.reverse, self.anchor = index, sample, umi, reverse, anchor
        self.reads = []  # (name, is_read1, start, cigartuples, seq, quals, is_reverse, paired)
        self.n_fragments = 0
        self.site = None
        self.kind = None


def design_segment(refseq, start, length, rng, kind, conflict_positions, frag_i, deletion=False):
    """Returns cigartuples, sequence, qualities for a read starting at start covering `length` reference bases"""
    cigartuples = []
    seq, quals = [], []
    pos = start
    del_at = length // 2 if deletion else None
    consumed = 0
    run = 0
    while consumed < length:
        if del_at is not None and consumed == del_at:
            cigartuples.append((0, run))
            run = 0
            dl = rng.choice([2, 5, 9])
            cigartuples.append((2, dl))
            pos += dl
            del_at = None
            continue
        base = refseq[pos]
        q = rng.choice(QUALS)
        if pos in conflict_positions:
            alt, mode = conflict_positions[pos]
            if mode == 'all_alt':                 # every read carries the same non reference base
                base, q = alt, 30
            elif mode == 'tie':                   # fragment 0 alt, the others reference, equal qualities
                base, q = (alt if frag_i == 0 else base), 30
            elif mode == 'alt_wins':              # alt has the higher quality
                base, q = (alt, 37) if frag_i == 0 else (base, 11)
            elif mode == 'ref_wins':
                base, q = (alt, 11) if frag_i == 0 else (base, 37)
            elif mode == 'lowq':                  # so unreliable that not calling a base is most likely
                q = 2
        seq.append(base)
        quals.append(q)
        pos += 1
        consumed += 1
        run += 1
    cigartuples.append((0, run))
    return cigartuples, ''.join(seq), quals, pos  # pos: reference end (exclusive)


def design_molecules(refseq, n, rng):
    molecules = []
    kinds = ['single_fragment', 'gapped', 'large_gap', 'overlap', 'deletion', 'single_end_multi']
    for i in range(n):
        kind = kinds[i % len(kinds)]
        reverse = rng.random() < 0.5
        anchor = 300 + i * SPACING  # first base of R1 (forward) or last base + 1 of R1 (reverse)
        umi = ''.join(rng.choice('ACGT') for _ in range(6))
        m = DesignedMolecule(i, f'CELL_{i % 7}', umi, reverse, anchor)
        m.kind = kind
        n_frag = 1 if kind in ('single_fragment', 'deletion') else rng.randint(2, 4)
        if kind == 'gapped' and rng.random() < 0.3:
            n_frag = 1
        m.n_fragments = n_frag
        # conflicts, relative to the part all R1 reads share (the first 25 bases seen from the anchor)
        conflict_positions = {}
        shared = list(range(anchor, anchor + 25)) if not reverse else list(range(anchor - 25, anchor))
        rng.shuffle(shared)
        modes = ['all_alt', 'tie', 'alt_wins', 'ref_wins', 'lowq', 'all_alt']
        for p, mode in zip(shared[:6], modes):
            if mode == 'tie' and n_frag != 2:
                mode = 'all_alt'
            if mode in ('alt_wins', 'ref_wins') and n_frag < 2:
                mode = 'all_alt'
            if mode in ('alt_wins', 'ref_wins') and n_frag > 2:
                mode = 'all_alt'
            if mode == 'lowq' and n_frag != 1:
                mode = 'all_alt'
            conflict_positions[p] = (other_base(refseq[p], rng), mode)

        for f in range(n_frag):
            name = f'src_{i}_{f}'
            r1_len = rng.randint(30, 60)
            paired = kind not in ('single_end_multi',) and not (kind == 'single_fragment' and rng.random() < 0.5)
            if kind == 'large_gap':
                gap = rng.randint(150, 300)
            elif kind == 'overlap':
                gap = -rng.randint(5, 20)
            else:
                gap = rng.randint(1, 40)
            r2_len = rng.randint(30, 60)
            if not reverse:
                r1_start = anchor
                c1, s1, q1, r1_end = design_segment(refseq, r1_start, r1_len, rng, kind, conflict_positions, f,
                                                    deletion=(kind == 'deletion'))
                m.reads.append([name, True, r1_start, c1, s1, q1, False, paired])
                if paired:
                    r2_start = r1_end + gap
                    c2, s2, q2, _ = design_segment(refseq, r2_start, r2_len, rng, kind, conflict_positions, f)
                    m.reads.append([name, False, r2_start, c2, s2, q2, True, paired])
            else:
                r1_start = anchor - r1_len
                c1, s1, q1, r1_end = design_segment(refseq, r1_start, r1_len, rng, kind, conflict_positions, f)
                assert r1_end == anchor
                m.reads.append([name, True, r1_start, c1, s1, q1, True, paired])
                if paired:
                    r2_start = r1_start - gap - r2_len
                    c2, s2, q2, _ = design_segment(refseq, r2_start, r2_len, rng, kind, conflict_positions, f,
                                                   deletion=(kind == 'deletion'))
                    m.reads.append([name, False, r2_start, c2, s2, q2, False, paired])
        # MNase site of a not trimmed read: one base before the first base of read 1 (seen in read direction)
        m.site = anchor if reverse else anchor - 1
        molecules.append(m)
    return molecules


def ref_len(cigartuples):
    return sum(l for op, l in cigartuples if op in (0, 2, 3))


def write_bam(path, molecules, contig_length):
    header = {'HD': {'VN': '1.6', 'SO': 'unsorted'}, 'SQ': [{'SN': CONTIG, 'LN': contig_length}]}
    unsorted = path + '.unsorted.bam'
    with pysam.AlignmentFile(unsorted, 'wb', header=header) as out:
        for m in molecules:
            by_name = defaultdict(list)
            for r in m.reads:
                by_name[r[0]].append(r)
            for name, rs in by_name.items():
                for r in rs:
                    _, is_r1, start, cig, seq, quals, is_rev, paired = r
                    a = pysam.AlignedSegment(out.header)
                    a.query_name = name
                    a.reference_name = CONTIG
                    a.reference_start = start
                    a.query_sequence = seq
                    a.query_qualities = pysam.qualitystring_to_array(''.join(chr(q + 33) for q in quals))
                    a.cigartuples = cig
                    a.mapping_quality = 60
                    a.is_reverse = is_rev
                    if paired:
                        mate = [x for x in rs if x is not r][0]
                        a.is_paired = True
                        a.is_proper_pair = True
                        a.is_read1 = is_r1
                        a.is_read2 = not is_r1
                        a.next_reference_name = CONTIG
                        a.next_reference_start = mate[2]
                        a.mate_is_reverse = mate[6]
                        lo = min(start, mate[2])
                        hi = max(start + ref_len(cig), mate[2] + ref_len(mate[3]))
                        a.template_length = (hi - lo) if start <= mate[2] else -(hi - lo)
                    a.set_tag('SM', m.sample)
                    a.set_tag('RX', m.umi)
                    a.set_tag('BC', 'ACGTACGT')
                    a.set_tag('MI', 'ACGTACGT' + m.umi)
                    out.write(a)
    pysam.sort('-o', path, unsorted)
    pysam.index(path)
    os.remove(unsorted)


# ---------------------------------------------------------------------------------------------
# Oracle
# ---------------------------------------------------------------------------------------------
def expected_observations(m):
    """(position) -> list of (base, phred) from the design"""
    obs = defaultdict(list)
    for _, _, start, cig, seq, quals, _, _ in m.reads:
        rpos, qpos = start, 0
        for op, l in cig:
            if op == 0:
                for k in range(l):
                    obs[rpos + k].append((seq[qpos + k], quals[qpos + k]))
                rpos += l
                qpos += l
            elif op == 2:
                rpos += l
            else:
                raise AssertionError('design only uses M and D')
    return obs


def acceptable_calls(observations):
    """Set of acceptable calls: the most likely of A,C,G,T and "no call" (N), N when the best two are equal"""
    per_base = defaultdict(list)
    for base, q in observations:
        per_base[base].append(1 - 10 ** (-q / 10))
    lik = {}
    for base, ps in per_base.items():
        v = 1.0
        for p in ps:
            v *= p
        lik[base] = v / (0.25 ** (len(ps) - 1))
    v = 1.0
    n = 0
    for base, ps in per_base.items():
        for p in ps:
            v *= (1 - p)
            n += 1
    lik['N'] = v / (0.25 ** (n - 1))
    ranked = sorted(lik.items(), key=lambda kv: -kv[1])
    if len(ranked) >= 2:
        a, b = ranked[0][1], ranked[1][1]
        if a == b:
            return {'N'}
        if abs(a - b) <= 1e-12 * max(a, b):  # not decidable in floating point, either reading is fine
            return {'N', ranked[0][0], ranked[1][0]}
    return {ranked[0][0]}


def blocks_of(positions):
    positions = sorted(positions)
    blocks = []
    for p in positions:
        if blocks and blocks[-1][1] == p:
            blocks[-1][1] = p + 1
        else:
            blocks.append([p, p + 1])
    return [tuple(b) for b in blocks]


def check_records(m, records, refseq, max_N_span, where):
    """records: list of pysam.AlignedSegment which are claimed to be the consensus of designed molecule m"""
    obs = expected_observations(m)
    expected_positions = set(obs)
    exp_blocks = blocks_of(expected_positions)
    # Expected number of records: the coverage is cut at every gap longer than max_N_span
    n_expected = 1
    if max_N_span is not None:
        n_expected += sum(1 for (a, b), (c, d) in zip(exp_blocks, exp_blocks[1:]) if c - b > max_N_span)
    if len(records) != n_expected:
        fail(f'{where}: molecule {m.index} ({m.kind}) yields {len(records)} records, expected {n_expected}')
    got_blocks = []
    for rec in records:
        if rec is None:
            fail(f'{where}: molecule {m.index} yields None')
            continue
        got_blocks += rec.get_blocks()
        seq, quals = rec.query_sequence, rec.query_qualities
        # lengths agree
        cig_q = sum(l for op, l in rec.cigartuples if op in (0, 1, 4, 7, 8))
        if seq is None or quals is None or not (len(seq) == len(quals) == cig_q == rec.query_length):
            fail(f'{where}: molecule {m.index} length disagreement seq/qual/cigar')
            continue
        if any(op not in (0, 3) for op, l in rec.cigartuples) or rec.cigartuples[0][0] != 0 or rec.cigartuples[-1][0] != 0:
            fail(f'{where}: molecule {m.index} odd CIGAR {rec.cigarstring}')
        if max_N_span is not None and any(op == 3 and l > max_N_span for op, l in rec.cigartuples):
            fail(f'{where}: molecule {m.index} gap larger than max_N_span inside a record')
        if rec.reference_name != CONTIG or rec.is_unmapped:
            fail(f'{where}: molecule {m.index} wrong contig / unmapped')
        if rec.is_reverse != m.reverse:
            fail(f'{where}: molecule {m.index} strand')
        # base calls
        aligned_ref = []
        for qpos, rpos in rec.get_aligned_pairs(matches_only=True):
            ok = acceptable_calls(obs[rpos]) if rpos in obs else {'N'}
            if seq[qpos] not in ok:
                fail(f'{where}: molecule {m.index} base at {rpos} is {seq[qpos]}, acceptable {ok}, observed {obs.get(rpos)}')
            aligned_ref.append(refseq[rpos])
        # MD tag: rebuild the reference from MD + query
        if not rec.has_tag('MD'):
            fail(f'{where}: molecule {m.index} no MD tag')
        else:
            md = rec.get_tag('MD')
            rebuilt, qi, good = [], 0, True
            for number, letter in re.findall(r'(\d+)|([A-Za-z])', md):
                if number:
                    k = int(number)
                    if any(seq[qi + j] != aligned_ref[qi + j] for j in range(min(k, len(seq) - qi))):
                        good = False
                    rebuilt.append(seq[qi:qi + k])
                    qi += k
                else:
                    if qi >= len(seq) or seq[qi] == letter.upper():
                        good = False
                    rebuilt.append(letter.upper())
                    qi += 1
            if ''.join(rebuilt) != ''.join(aligned_ref) or not good or re.sub(r'[\dA-Za-z]', '', md):
                fail(f'{where}: molecule {m.index} MD {md} does not describe the reference')
        # tags
        tags = dict(rec.get_tags())
        if tags.get('SM') != m.sample:
            fail(f'{where}: molecule {m.index} SM {tags.get("SM")} != {m.sample}')
        if tags.get('RX') != m.umi:
            fail(f'{where}: molecule {m.index} RX {tags.get("RX")} != {m.umi}')
        if tags.get('DS') != m.site:
            fail(f'{where}: molecule {m.index} DS {tags.get("DS")} != {m.site}')
        if tags.get('TF') != m.n_fragments:
            fail(f'{where}: molecule {m.index} TF {tags.get("TF")} != {m.n_fragments}')
    if sorted(got_blocks) != exp_blocks:
        fail(f'{where}: molecule {m.index} ({m.kind}) blocks {sorted(got_blocks)} != covered {exp_blocks}')


def norm_record(rec, src_names):
    """Raw text of a record, the per-run random name of a consensus record is masked"""
    fields = rec.to_string().split('\t')
    if fields[0] not in src_names and not fields[0].startswith('fixed_'):
        fields[0] = '<consensus-name>'
    return '\t'.join(fields)


# ---------------------------------------------------------------------------------------------
def api_round(tmp, seed, n_molecules, checked):
    rng = random.Random(seed)
    contig_length = 600 + n_molecules * SPACING
    ref_path = os.path.join(tmp, f'ref_{seed}.fa')
    refseq = make_reference(ref_path, contig_length, rng)
    molecules = design_molecules(refseq, n_molecules, rng)
    bam_path = os.path.join(tmp, f'in_{seed}.bam')
    write_bam(bam_path, molecules, contig_length)
    by_key = {(m.sample, m.umi): m for m in molecules}
    assert len(by_key) == len(molecules)
    src_names = {r[0] for m in molecules for r in m.reads}

    for max_N_span in (None, 100):
        seen = set()
        with pysam.AlignmentFile(bam_path) as alignments, pysam.FastaFile(ref_path) as ref, \
                pysam.AlignmentFile(os.path.join(tmp, f'api_{seed}_{max_N_span}.sam'), 'w', header=alignments.header) as target:
            for molecule in MoleculeIterator(alignments, CHICMolecule, CHICFragment,
                                             molecule_class_args={'reference': ref}):
                m = by_key.get((molecule.sample, molecule.umi))
                if m is None:
                    fail(f'api: unknown molecule {molecule.sample} {molecule.umi}')
                    continue
                seen.add(m.index)
                records = molecule.deduplicate_majority(target, f'fixed_{m.index}', max_N_span=max_N_span)
                check_records(m, records, refseq, max_N_span, f'api seed {seed} max_N_span {max_N_span}')
                for rec in records:
                    if rec is not None:
                        raw('API', seed, max_N_span, norm_record(rec, src_names))
                checked[0] += 1
        if seen != {m.index for m in molecules}:
            fail(f'api seed {seed}: molecules without consensus: {sorted({m.index for m in molecules} - seen)[:5]}')

    # write_pysam, with and without source reads
    for no_source_reads in (True, False):
        out_path = os.path.join(tmp, f'wp_{seed}_{no_source_reads}.bam')
        with pysam.AlignmentFile(bam_path) as alignments, pysam.FastaFile(ref_path) as ref, \
                pysam.AlignmentFile(out_path, 'wb', header=alignments.header) as target:
            for molecule in MoleculeIterator(alignments, CHICMolecule, CHICFragment,
                                             molecule_class_args={'reference': ref}):
                returned = molecule.write_pysam(target, consensus=True, no_source_reads=no_source_reads)
                raw('WRITE_PYSAM_RETURNS', seed, no_source_reads, molecule.sample, molecule.umi, repr(returned))
        check_output_file(out_path, molecules, refseq, src_names, no_source_reads, f'write_pysam seed {seed} no_source_reads {no_source_reads}', checked)
    return ref_path, refseq, bam_path, molecules, src_names


def check_output_file(out_path, molecules, refseq, src_names, no_source_reads, where, checked):
    by_key = {(m.sample, m.umi): m for m in molecules}
    per_molecule = defaultdict(list)
    n_source = 0
    lines = []
    with pysam.AlignmentFile(out_path, check_sq=False) as f:
        for rec in f:
            lines.append(norm_record(rec, src_names))
            if rec.query_name in src_names:
                n_source += 1
                continue
            key = (rec.get_tag('SM') if rec.has_tag('SM') else None, rec.get_tag('RX') if rec.has_tag('RX') else None)
            if key not in by_key:
                fail(f'{where}: consensus record of unknown molecule {key}')
                continue
            per_molecule[key].append(rec)
    for key, m in by_key.items():
        if key not in per_molecule:
            fail(f'{where}: molecule {m.index} has no consensus record')
            continue
        check_records(m, per_molecule[key], refseq, None, where)
        checked[0] += 1
    n_in = sum(len(m.reads) for m in molecules)
    if no_source_reads and n_source:
        fail(f'{where}: {n_source} source reads although none were requested')
    if not no_source_reads and n_source != n_in:
        fail(f'{where}: {n_source} source reads written, {n_in} expected')
    for line in sorted(lines):
        raw('FILE', where, line)


def quiet(function, *args, **kwargs):
    buffer = io.StringIO()
    with contextlib.redirect_stdout(buffer):
        return function(*args, **kwargs)


def cli_round(tmp, ref_path, refseq, bam_path, molecules, src_names, checked):
    for no_source_reads in (False, True):
        out_path = os.path.join(tmp, f'cli_{no_source_reads}.bam')
        cmd = [bam_path, '-method', 'chic', '--multiprocess', '-tagthreads', '2', '--consensus', '-ref', ref_path, '-o', out_path]
        if no_source_reads:
            cmd.append('--no_source_reads')
        quiet(tm.run_multiome_tagging_cmd, cmd)
        check_output_file(out_path, molecules, refseq, src_names, no_source_reads, f'cli no_source_reads {no_source_reads}', checked)


def out_of_scope_observations(tmp, ref_path, bam_path):
    """Behaviour the property does not speak about, only recorded for the digest"""
    # 1. what is left in the observation dictionary handed to the base caller
    for probs in ({'A': [0.99, 0.9], 'C': [0.9]}, {'G': [0.999]}, {'A': [0.9], 'T': [0.9]}):
        call = phredscores_to_base_call(probs)
        raw('BASECALL', call[0], sorted(probs.items()))
    # 2. statistics of a tagging task
    from singlecellmultiomics.fragment import CHICFragment as F
    from singlecellmultiomics.molecule import CHICMolecule as M
    with pysam.AlignmentFile(bam_path) as alignments, pysam.FastaFile(ref_path) as ref, \
            pysam.AlignmentFile(os.path.join(tmp, 'task.bam'), 'wb', header=alignments.header) as output:
        args = dict(molecule_iterator_class=MoleculeIterator,
                    molecule_iterator_args={'molecule_class': M, 'fragment_class': F,
                                            'molecule_class_args': {'reference': ref}})
        try:
            stats = run_tagging_task(alignments, output, consensus_mode='majority', no_source_reads=True, **args)
            raw('TASK_STATS', sorted((k, v) for k, v in stats.items() if k != 'time_start'))
        except Exception as e:
            raw('TASK_STATS', type(e).__name__, e)
        # 3. an unknown consensus mode on a region without any molecule
        try:
            stats = run_tagging_task(alignments, output, contig=CONTIG, start=0, end=10, fetch_start=0, fetch_end=10,
                                     consensus_mode='bayes', **args)
            raw('UNKNOWN_MODE', 'accepted', sorted(k for k in stats))
        except Exception as e:
            raw('UNKNOWN_MODE', type(e).__name__, e)
    # 4. --consensus without --multiprocess
    out_path = os.path.join(tmp, 'nomulti.bam')
    try:
        quiet(tm.run_multiome_tagging_cmd, [bam_path, '-method', 'chic', '--consensus', '-ref', ref_path, '-o', out_path])
        raw('NO_MULTI', 'accepted')
    except BaseException as e:
        raw('NO_MULTI', type(e).__name__, e, 'status file exists:', os.path.exists(out_path.replace('.bam', '.status.txt')))


def main():
    checked = [0]
    with tempfile.TemporaryDirectory(prefix='c15_demo_') as tmp:
        last = None
        for seed in (11, 12, 13):
            last = api_round(tmp, seed, 60, checked)
        cli_round(tmp, *last, checked)
        out_of_scope_observations(tmp, last[0], last[2])

    digest = hashlib.sha256('\n'.join(RAW).encode()).hexdigest()
    print(f'{checked[0]} molecule consensus requests checked, {len(RAW)} raw output lines')
    print(f'BEHAVIOUR DIGEST {digest}')
    if FAILURES:
        print(f'PROPERTY VIOLATED ({len(FAILURES)} findings)')
        sys.exit(1)
    print('PROPERTY HOLDS')
    sys.exit(0)


if __name__ == '__main__':
    main()
