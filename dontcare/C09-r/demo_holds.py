#!/usr/bin/env python
"""Independent check of property C09 (cut-site coordinates are correct and strand-symmetric).

Simulates NlaIII and scCHIC fragments from random references with an oracle of its own:
the planted cut position is known by construction, the expected site is derived from
that position only (never from the code under test).

Prints PROPERTY HOLDS / PROPERTY VIOLATED and a BEHAVIOUR DIGEST over all raw outputs
(every tag of every read, validity, hashes, reprs, written SAM text and a number of
out-of-scope probes).
"""
import hashlib
import os
import random
import sys
import tempfile
import warnings

import pysam

from singlecellmultiomics.fragment import NlaIIIFragment, CHICFragment

RNG = random.Random(90909)
COMP = str.maketrans('ACGTacgt', 'TGCAtgca')
RAW = []          # everything observable, goes in the digest
FAILURES = []     # property violations
N_CHECKED = {'nla': 0, 'chic': 0, 'chic_mirror': 0, 'dedup_pairs': 0}


def revcomp(s):
    return s.translate(COMP)[::-1]


def raw(*items):
    RAW.append('\t'.join(str(i) for i in items))


def fail(msg):
    FAILURES.append(msg)


def random_reference(length, forbid='CATG'):
    while True:
        s = ''.join(RNG.choice('ACGT') for _ in range(length))
        # Remove accidental motifs so that only planted motifs exist
        while forbid in s:
            i = s.find(forbid)
            s = s[:i + 1] + RNG.choice('CGT') + s[i + 2:]
        # no long homopolymers (CHIC rejects 18-mers)
        if not any(b * 12 in s for b in 'ACGT'):
            return s


def make_read(header, name, contig, start, seq, cigar, reverse, read1=True, paired=False,
              mate=None, tags=()):
    r = pysam.AlignedSegment(header)
    r.query_name = name
    r.reference_name = contig
    r.reference_start = start
    r.query_sequence = seq
    r.query_qualities = pysam.qualitystring_to_array('I' * len(seq))
    r.cigarstring = cigar
    r.mapping_quality = 60
    r.is_reverse = reverse
    if paired:
        r.is_paired = True
        r.is_proper_pair = True
        r.is_read1 = read1
        r.is_read2 = not read1
    for k, v in tags:
        r.set_tag(k, v)
    return r


def link_mates(r1, r2):
    for a, b in ((r1, r2), (r2, r1)):
        a.next_reference_name = b.reference_name
        a.next_reference_start = b.reference_start
        a.mate_is_reverse = b.is_reverse


def mirror_read(header_m, read, L):
    """The same read as it would align to the reverse complemented reference"""
    if read is None:
        return None
    m = pysam.AlignedSegment(header_m)
    m.query_name = read.query_name
    m.reference_name = read.reference_name
    m.reference_start = L - read.reference_end
    m.query_sequence = revcomp(read.query_sequence)
    m.query_qualities = read.query_qualities[::-1]
    m.cigartuples = read.cigartuples[::-1]
    m.mapping_quality = read.mapping_quality
    m.is_reverse = not read.is_reverse
    if read.is_paired:
        m.is_paired = True
        m.is_proper_pair = True
        m.is_read1 = read.is_read1
        m.is_read2 = read.is_read2
    for k, v in read.get_tags():
        m.set_tag(k, v)
    return m


def mutate(base):
    return RNG.choice([b for b in 'ACGT' if b != base])


def dump_fragment(label, frag, sam_out=None):
    """Record every observable of the fragment"""
    try:
        frag.write_tags()
    except Exception as e:  # pragma: no cover
        raw(label, 'write_tags raised', type(e).__name__, e)
    raw(label, 'valid', frag.is_valid(), 'hash', frag.match_hash, 'site', frag.site_location,
        'strand', frag.strand, 'cut_site_strand', frag.cut_site_strand)
    raw(label, 'repr', repr(frag))
    for read in frag:
        if read is not None:
            raw(label, 'read', read.to_string())
            if sam_out is not None:
                sam_out.write(read)


def tag_or_none(read, tag):
    return read.get_tag(tag) if read.has_tag(tag) else None


# --------------------------------------------------------------------------------------
# NlaIII
# --------------------------------------------------------------------------------------
def simulate_nla(header, contig, ref, c, reverse, paired, clip, kind, rl=60, insert=220,
                 name='r', umi='ACGTAA', sample='CELL_1'):
    """kind: ok | mismatch | shift ; returns reads, planted motif coordinate is c"""
    if not reverse:
        start = c + (1 if kind == 'shift' else 0)
        seq = list(ref[start:start + rl])
        if kind == 'mismatch':
            i = RNG.randrange(4)
            seq[i] = mutate(seq[i])
        seq = ''.join(seq)
        cigar = f'{clip}S{rl - clip}M' if clip else f'{rl}M'
        r1 = make_read(header, name, contig, start + clip, seq, cigar, False, True, paired,
                       tags=(('RX', umi), ('SM', sample), ('MX', 'NLAIII384C8U3')))
        r2 = None
        if paired:
            e = c + insert
            r2 = make_read(header, name, contig, e - rl, ref[e - rl:e], f'{rl}M', True, False, True,
                           tags=(('RX', umi), ('SM', sample), ('MX', 'NLAIII384C8U3')))
    else:
        end = c + 4 - (1 if kind == 'shift' else 0)
        seq = list(ref[end - rl:end])
        if kind == 'mismatch':
            i = RNG.randrange(4)
            seq[-1 - i] = mutate(seq[-1 - i])
        seq = ''.join(seq)
        cigar = f'{rl - clip}M{clip}S' if clip else f'{rl}M'
        r1 = make_read(header, name, contig, end - rl, seq, cigar, True, True, paired,
                       tags=(('RX', umi), ('SM', sample), ('MX', 'NLAIII384C8U3')))
        r2 = None
        if paired:
            s = c + 4 - insert
            r2 = make_read(header, name, contig, s, ref[s:s + rl], f'{rl}M', False, False, True,
                           tags=(('RX', umi), ('SM', sample), ('MX', 'NLAIII384C8U3')))
    if r2 is not None:
        link_mates(r1, r2)
    return [r1, r2]


def check_nla(header, contig, ref, sam_out):
    n = 0
    sites = [i for i in range(len(ref)) if ref.startswith('CATG', i)]
    for c in sites:
        for reverse in (False, True):
            for paired in (False, True):
                for kind in ('ok', 'mismatch', 'shift'):
                    for allow_shift in (False, True):
                        clips = [0, RNG.randint(1, 6), RNG.randint(1, 6)] if kind != 'shift' else [0]
                        for clip in clips:
                            invert = RNG.random() < 0.3
                            nocigar = (clip == 0 and RNG.random() < 0.3)
                            n += 1
                            label = f'nla#{n} c={c} rev={reverse} pe={paired} kind={kind} shift_ok={allow_shift} clip={clip} inv={invert} nocig={nocigar}'
                            reads = simulate_nla(header, contig, ref, c, reverse, paired, clip, kind, name=f'nla{n}')
                            frag = NlaIIIFragment(reads, allow_cycle_shift=allow_shift, invert_strand=invert,
                                                  no_umi_cigar_processing=nocigar)
                            dump_fragment(label, frag, sam_out)
                            expect_site = kind == 'ok' or (kind == 'shift' and allow_shift)
                            N_CHECKED['nla'] += 1
                            if expect_site:
                                if not frag.is_valid():
                                    fail(f'{label}: fragment with motif was rejected')
                                for read in frag:
                                    if read is None:
                                        continue
                                    if tag_or_none(read, 'DS') != c:
                                        fail(f'{label}: DS={tag_or_none(read, "DS")} expected {c}')
                                    if read.is_qcfail:
                                        fail(f'{label}: accepted fragment is qcfail')
                                if frag.site_location != (contig, c):
                                    fail(f'{label}: site_location {frag.site_location} expected {(contig, c)}')
                                if frag.match_hash is None or c not in frag.match_hash:
                                    fail(f'{label}: match hash {frag.match_hash} lacks site')
                            else:
                                if frag.is_valid():
                                    fail(f'{label}: fragment without motif is valid')
                                if frag.match_hash is not None:
                                    fail(f'{label}: rejected fragment has a match hash')
                                for read in frag:
                                    if read is None:
                                        continue
                                    if read.has_tag('DS'):
                                        fail(f'{label}: rejected fragment carries DS={read.get_tag("DS")}')
                                    if not read.is_qcfail:
                                        fail(f'{label}: rejected fragment is not qcfail')

        # Strand symmetry: a forward and a reverse fragment of one site deduplicate as the same site coordinate
        fa = NlaIIIFragment(simulate_nla(header, contig, ref, c, False, True, 0, 'ok'))
        fb = NlaIIIFragment(simulate_nla(header, contig, ref, c, True, True, RNG.randint(0, 6), 'ok'))
        if fa.site_location != fb.site_location:
            fail(f'nla symmetric site c={c}: {fa.site_location} vs {fb.site_location}')


# --------------------------------------------------------------------------------------
# CHIC
# --------------------------------------------------------------------------------------
def simulate_chic(header, contig, ref, p, reverse, paired, clip, trimmed, rl=55, insert=180,
                  name='c', umi='ACG', sample='CELL_1'):
    """p: coordinate of the ligated overhang base (the T/A), the cut is adjacent to it"""
    mx = ('scCHIC384C8U3l' if RNG.random() < 0.5 else 'scCHIC384C8U3') if trimmed else 'NLAIII384C8U3'
    tags = (('RX', umi), ('SM', sample), ('MX', mx), ('lh', 'TA'))
    if not reverse:
        start = p + (1 if trimmed else 0)
        seq = ref[start:start + rl]
        if not trimmed:
            seq = 'T' + seq[1:]
        cigar = f'{clip}S{rl - clip}M' if clip else f'{rl}M'
        r1 = make_read(header, name, contig, start + clip, seq, cigar, False, True, paired, tags=tags)
        r2 = None
        if paired:
            e = p + insert
            r2 = make_read(header, name, contig, e - rl, ref[e - rl:e], f'{rl}M', True, False, True, tags=tags)
    else:
        end = p + (0 if trimmed else 1)  # exclusive
        seq = ref[end - rl:end]
        if not trimmed:
            seq = seq[:-1] + 'A'
        cigar = f'{rl - clip}M{clip}S' if clip else f'{rl}M'
        r1 = make_read(header, name, contig, end - rl, seq, cigar, True, True, paired, tags=tags)
        r2 = None
        if paired:
            s = p + 1 - insert
            r2 = make_read(header, name, contig, s, ref[s:s + rl], f'{rl}M', False, False, True, tags=tags)
    if r2 is not None:
        link_mates(r1, r2)
    return [r1, r2]


def check_chic(header, header_m, contig, ref, sam_out):
    L = len(ref)
    n = 0
    for _ in range(45):
        p = RNG.randint(250, L - 250)
        for reverse in (False, True):
            for trimmed in (False, True):
                paired = RNG.random() < 0.5
                clip = RNG.choice([0, 0, 1, 2, 3, 4, 5, 6])
                invert = RNG.random() < 0.3
                nocigar = (clip == 0 and RNG.random() < 0.3)
                n += 1
                label = f'chic#{n} p={p} rev={reverse} pe={paired} trimmed={trimmed} clip={clip} inv={invert} nocig={nocigar}'
                reads = simulate_chic(header, contig, ref, p, reverse, paired, clip, trimmed, name=f'chic{n}')
                mirrored = [mirror_read(header_m, r, L) for r in reads]
                kwargs = dict(invert_strand=invert, no_umi_cigar_processing=nocigar)
                frag = CHICFragment(reads, **kwargs)
                dump_fragment(label, frag, sam_out)
                expected = p + 1 if reverse else p - 1
                N_CHECKED['chic'] += 1
                if not frag.is_valid():
                    fail(f'{label}: not valid')
                for read in frag:
                    if read is not None and tag_or_none(read, 'DS') != expected:
                        fail(f'{label}: DS={tag_or_none(read, "DS")} expected {expected}')
                if frag.site_location != (contig, expected):
                    fail(f'{label}: site_location {frag.site_location} expected {(contig, expected)}')

                # Mirror image on the reverse complemented reference
                mfrag = CHICFragment(mirrored, **kwargs)
                dump_fragment(label + ' MIRROR', mfrag)
                N_CHECKED['chic_mirror'] += 1
                mexp = L - 1 - expected
                if not mfrag.is_valid():
                    fail(f'{label}: mirror not valid')
                if mfrag.site_location != (contig, mexp):
                    fail(f'{label}: mirrored site {mfrag.site_location} expected {(contig, mexp)}')
                for read in mfrag:
                    if read is not None and tag_or_none(read, 'DS') != mexp:
                        fail(f'{label}: mirrored DS={tag_or_none(read, "DS")} expected {mexp}')
                if mfrag.cut_site_strand == frag.cut_site_strand:
                    fail(f'{label}: mirrored fragment has the same cut site strand')

                # Deduplication: a second fragment, related or not, must compare the same in both orientations
                umi2 = RNG.choice(['ACG', 'ACT', 'TTT'])
                p2 = p + RNG.choice([0, 0, 0, 1, -1, 7])
                rev2 = reverse if RNG.random() < 0.8 else not reverse
                sample2 = 'CELL_1' if RNG.random() < 0.8 else 'CELL_2'
                reads2 = simulate_chic(header, contig, ref, p2, rev2, RNG.random() < 0.5, RNG.choice([0, 0, 2, 5]),
                                       RNG.random() < 0.5, name=f'chic{n}b', umi=umi2, sample=sample2)
                mirrored2 = [mirror_read(header_m, r, L) for r in reads2]
                frag2 = CHICFragment(reads2, invert_strand=invert)
                mfrag2 = CHICFragment(mirrored2, invert_strand=invert)
                # fresh copies of the first fragment, with default cigar processing
                readsc = simulate_chic(header, contig, ref, p, reverse, paired, clip, trimmed, name=f'chic{n}')
                mirroredc = [mirror_read(header_m, r, L) for r in readsc]
                fragc = CHICFragment(readsc, invert_strand=invert)
                mfragc = CHICFragment(mirroredc, invert_strand=invert)
                eq_fwd = (fragc == frag2)
                eq_mir = (mfragc == mfrag2)
                should = (p2 == p and rev2 == reverse and sample2 == 'CELL_1' and umi2 in ('ACG', 'ACT'))
                raw(label, 'dedup', eq_fwd, eq_mir)
                N_CHECKED['dedup_pairs'] += 1
                if eq_fwd != eq_mir:
                    fail(f'{label}: orientations deduplicate differently {eq_fwd} vs {eq_mir}')
                if eq_fwd != should:
                    fail(f'{label}: dedup verdict {eq_fwd}, same cut={should}')


# --------------------------------------------------------------------------------------
# Things the property does not speak about (digest only)
# --------------------------------------------------------------------------------------
def probes(header, contig, ref, tmpdir):
    def attempt(label, fn):
        try:
            with warnings.catch_warnings(record=True) as w:
                warnings.simplefilter('always')
                out = fn()
            raw('probe', label, 'result', out, 'warnings', [str(x.message) for x in w])
        except Exception as e:
            raw('probe', label, 'raised', type(e).__name__, str(e))

    c = ref.find('CATG')
    p = 400

    def oversize_chic():
        f = CHICFragment(simulate_chic(header, contig, ref, p, False, True, 0, True), max_fragment_size=100)
        before = [r.to_string() for r in f if r is not None]
        f.write_tags()
        return before, [r.to_string() for r in f if r is not None], f.is_valid()
    attempt('chic max_fragment_size', oversize_chic)

    def cigarless(cls, reverse):
        def run():
            r1 = make_read(header, 'nocigar', contig, c, ref[c:c + 40], None, reverse,
                           tags=(('RX', 'ACG'), ('SM', 'CELL_1')))
            f = cls([r1, None])
            f.write_tags()
            return r1.to_string(), f.is_valid(), f.match_hash
        return run
    for cls in (NlaIIIFragment, CHICFragment):
        for reverse in (False, True):
            attempt(f'cigarless {cls.__name__} rev={reverse}', cigarless(cls, reverse))

    def ignored_option():
        f = NlaIIIFragment(simulate_nla(header, contig, ref, c, False, True, 0, 'shift'), allow_cycle_shift=True,
                           check_motif=False)
        return f.is_valid(), f.site_location
    attempt('allow_cycle_shift with check_motif=False', ignored_option)

    def masked_reference():
        path = os.path.join(tmpdir, 'masked.fa')
        with open(path, 'w') as h:
            h.write(f'>{contig}\n{ref.lower()}\n')
        pysam.faidx(path)
        with pysam.FastaFile(path) as fa:
            f = NlaIIIFragment(simulate_nla(header, contig, ref, c, False, True, 0, 'ok', insert=400))
            return f.get_undigested_site_count(fa)
    attempt('undigested sites soft-masked reference', masked_reference)


def main():
    with tempfile.TemporaryDirectory(prefix='c09_demo_') as tmpdir:
        for round_index in range(3):
            L = 1400
            contig = f'chr{round_index + 1}'
            ref = list(random_reference(L))
            # plant CATG motifs, well separated, away from the contig ends
            for c in sorted(RNG.sample(range(300, L - 300, 90), 3)):
                ref[c:c + 4] = 'CATG'
            ref = ''.join(ref)
            refm = revcomp(ref)
            for name, s in (('ref', ref), ('ref_mirror', refm)):
                with open(os.path.join(tmpdir, f'{name}{round_index}.fa'), 'w') as h:
                    h.write(f'>{contig}\n{s}\n')
            header = pysam.AlignmentHeader.from_dict({'HD': {'VN': '1.6'}, 'SQ': [{'SN': contig, 'LN': L}]})
            header_m = pysam.AlignmentHeader.from_dict({'HD': {'VN': '1.6'}, 'SQ': [{'SN': contig, 'LN': L}]})
            sam_path = os.path.join(tmpdir, f'tagged{round_index}.sam')
            with pysam.AlignmentFile(sam_path, 'w', header=header) as sam_out:
                check_nla(header, contig, ref, sam_out)
                check_chic(header, header_m, contig, ref, sam_out)
            with open(sam_path) as h:
                raw('samfile', round_index, h.read())
            if round_index == 0:
                probes(header, contig, ref, tmpdir)

    digest = hashlib.sha256('\n'.join(RAW).encode()).hexdigest()
    print('checked:', N_CHECKED)
    if os.environ.get('C09_DUMP'):
        with open(os.environ['C09_DUMP'], 'w') as h:
            h.write('\n'.join(RAW))
    for f in FAILURES[:20]:
        print('VIOLATION', f)
    print(f'BEHAVIOUR DIGEST {digest}')
    if FAILURES:
        print(f'PROPERTY VIOLATED ({len(FAILURES)} failures)')
        sys.exit(1)
    print('PROPERTY HOLDS')
    sys.exit(0)


if __name__ == '__main__':
    main()
