#!/usr/bin/env python3
"""Independent check of property C03 (barcode correction assigns the unique
nearest whitelisted barcode or nothing) plus a digest over all raw observable
outputs (results, table order, logs, exception texts, statistics)."""
import gzip
import hashlib
import itertools
import logging
import os
import random
import shutil
import sys
import tempfile

import singlecellmultiomics
from singlecellmultiomics.barcodeFileParser.barcodeFileParser import BarcodeParser

ALPHABET = 'ACGTN'
rng = random.Random(20240303)
RAW = []          # every raw output goes in here -> digest
FAILURES = []
N_CHECKED = 0


def raw(*parts):
    RAW.append('\t'.join(str(p) for p in parts))


class Capture(logging.Handler):
    def __init__(self):
        super().__init__(level=logging.DEBUG)
        self.lines = []

    def emit(self, record):
        self.lines.append(f'{record.levelname}:{record.getMessage()}')

    def take(self):
        out, self.lines = self.lines, []
        return out


capture = Capture()
root_logger = logging.getLogger()
root_logger.addHandler(capture)
root_logger.setLevel(logging.DEBUG)


# ---------------------------------------------------------------- oracle
def hamming(a, b):
    return sum(1 for x, y in zip(a, b) if x != y)


def oracle(observed, whitelist, k):
    """whitelist: dict barcode -> index. Unique nearest within k, else nothing"""
    best, winners = None, []
    for bc, idx in whitelist.items():
        d = hamming(observed, bc)
        if best is None or d < best:
            best, winners = d, [(idx, bc, d)]
        elif d == best:
            winners.append((idx, bc, d))
    if best is not None and best <= k and len(winners) == 1:
        return winners[0]
    return (None, None, None)


def as_index(text):
    try:
        return int(text)
    except ValueError:
        return text


# ---------------------------------------------------------------- inputs
def random_barcodes(n, length, alphabet='ACGT'):
    out = []
    while len(out) < n:
        b = ''.join(rng.choice(alphabet) for _ in range(length))
        if b not in out:
            out.append(b)
    return out


def mutate(b, n):
    b = list(b)
    for p in rng.sample(range(len(b)), n):
        b[p] = rng.choice([c for c in ALPHABET if c != b[p]])
    return ''.join(b)


def build_inputs(tmp):
    """returns alias -> (path, expected whitelist dict, exhaustive?)"""
    specs = {}

    def write(name, lines, gz=False):
        path = os.path.join(tmp, name)
        data = ''.join(l + '\n' for l in lines)
        if gz:
            with gzip.open(path, 'wt') as f:
                f.write(data)
        else:
            with open(path, 'w') as f:
                f.write(data)
        return path

    # 1. single column, length 3, near duplicates and an N containing barcode
    bcs = ['AAA', 'AAT', 'TTT', 'ANA', 'GCG', 'GCC']
    specs['single3'] = (write('single3.bc', bcs),
                        {b: i + 1 for i, b in enumerate(bcs)}, True)
    # 2. index first (named cells), length 4, tab separated
    bcs = ['ACGT', 'ACGA', 'TTTT', 'NNNN', 'GGCC', 'CCGG', 'TGCA', 'TGCN']
    names = [f'cell{chr(65 + i)}{i}' for i in range(len(bcs))]
    specs['idxfirst4'] = (write('idxfirst4.bc', [f'{n}\t{b}' for n, b in zip(names, bcs)]),
                          dict(zip(bcs, names)), True)
    # 3. barcode first, numeric index, space separated, length 5
    bcs = random_barcodes(14, 5) + ['AAAAA', 'AAAAC', 'AAACC', 'NAAAA']
    bcs = list(dict.fromkeys(bcs))
    specs['bcfirst5'] = (write('bcfirst5.bc', [f'{b} {100 + i}' for i, b in enumerate(bcs)]),
                         {b: 100 + i for i, b in enumerate(bcs)}, True)
    # 4. gzipped, index first numeric with leading zeros, length 6 (sampled)
    bcs = random_barcodes(40, 6, 'ACGTN')
    bcs += [mutate(b, 1) for b in bcs[:6]] + [mutate(b, 2) for b in bcs[6:12]]
    bcs = list(dict.fromkeys(bcs))
    specs['gz6'] = (write('gz6.bc.gz', [f'{i:04d}\t{b}' for i, b in enumerate(bcs, 1)], gz=True),
                    {b: i for i, b in enumerate(bcs, 1)}, False)
    # 5. 16 nt whitelist (10x like), single column
    bcs = random_barcodes(30, 16)
    bcs += [mutate(b, 1) for b in bcs[:4]] + [mutate(b, 2) for b in bcs[4:8]] + [mutate(b, 3) for b in bcs[8:12]]
    bcs = list(dict.fromkeys(bcs))
    specs['tenx16'] = (write('tenx16.bc', bcs), {b: i + 1 for i, b in enumerate(bcs)}, False)

    # 6. shipped whitelists (8-10 nt), copied verbatim
    base = os.path.dirname(singlecellmultiomics.__file__)
    shipped = [('modularDemultiplexer/barcodes/celseq1.bc', 'celseq1'),
               ('modularDemultiplexer/barcodes/DamID2.bc', 'DamID2'),
               ('modularDemultiplexer/barcodes/lennart96NLA.bc', 'lennart96NLA'),
               ('modularDemultiplexer/barcodes/lk_virus1.bc', 'lk_virus1'),
               ('modularDemultiplexer/barcodes/maya_384NLA.bc', 'maya_384NLA'),
               ('modularDemultiplexer/indices/illumina_i7_indices.bc', 'illumina_i7_indices')]
    for rel, alias in shipped:
        src = os.path.join(base, rel)
        dst = os.path.join(tmp, os.path.basename(src))
        shutil.copy(src, dst)
        wl = {}
        with open(src) as f:
            for i, line in enumerate(f):
                parts = line.split()
                if len(parts) == 1:
                    bc, idx = parts[0], i + 1
                elif all(c in 'ACGTN' for c in parts[0]):
                    bc, idx = parts[0], as_index(parts[1])
                else:
                    bc, idx = parts[1], as_index(parts[0])
                assert bc not in wl, f'duplicate barcode in {rel}'
                wl[bc] = idx
        assert len({len(b) for b in wl}) == 1
        specs[alias] = (dst, wl, False)
    return specs


def observed_strings(whitelist, exhaustive, n_samples=260):
    length = len(next(iter(whitelist)))
    if exhaustive:
        return [''.join(p) for p in itertools.product(ALPHABET, repeat=length)]
    members = list(whitelist)
    out = list(members[:25])
    while len(out) < n_samples:
        r = rng.random()
        if r < 0.8:
            out.append(mutate(rng.choice(members), rng.choice([1, 1, 2, 2, 3])))
        elif r < 0.9:
            # midpoint between two members: tie candidates
            a, b = rng.sample(members, 2)
            out.append(''.join(rng.choice(pair) for pair in zip(a, b)))
        else:
            out.append(''.join(rng.choice(ALPHABET) for _ in range(length)))
    return out


# ---------------------------------------------------------------- checks
def check_queries(parser, alias, whitelist, k, queries, label):
    global N_CHECKED
    for q in queries:
        got = parser.getIndexCorrectedBarcodeAndHammingDistance(q, alias)
        raw('RESULT', label, alias, k, q, repr(got))
        want = oracle(q, whitelist, k)
        N_CHECKED += 1
        ok = (len(got) == 3 and tuple(got) == want
              and type(got[0]) is type(want[0]) and type(got[2]) is type(want[2]))
        if not ok:
            FAILURES.append((label, alias, k, q, got, want))
    # exact whitelist members always map to themselves at distance 0
    for bc, idx in whitelist.items():
        got = parser.getIndexCorrectedBarcodeAndHammingDistance(bc, alias)
        N_CHECKED += 1
        if tuple(got) != (idx, bc, 0):
            FAILURES.append((label, alias, k, bc, got, (idx, bc, 0)))


def dump_state(parser, alias, label, tmp):
    """raw observable state the property does not talk about"""
    raw('TABLE_ORDER', label, alias, ','.join(parser.extendedBarcodes[alias].keys()))
    raw('WHITELIST_ORDER', label, alias, ','.join(parser.barcodes[alias].keys()))
    raw('TARGETS', label, alias, parser.getTargetCount(alias))
    stats = getattr(parser, 'collisionCounts', None)
    raw('COLLISIONS', label, alias, None if stats is None else stats.get(alias))


def logs(label, tmp, sort=False):
    lines = [l.replace(tmp, '<TMP>') for l in capture.take()]
    if sort:  # order of files inside a directory is up to the file system
        lines = sorted(lines)
    for l in lines:
        raw('LOG', label, l)


def main():
    tmp = tempfile.mkdtemp(prefix='c03_demo_')
    try:
        specs = build_inputs(tmp)
        queries = {a: observed_strings(wl, ex) for a, (_, wl, ex) in specs.items()}
        lazy_modes = [('eager', None), ('lazy_all', '*'),
                      ('lazy_some', ('gz6', 'celseq1', 'single3', 'tenx16'))]
        for k in (0, 1, 2):
            for mode_name, lazy in lazy_modes:
                label = f'k{k}/{mode_name}'
                parser = BarcodeParser(barcodeDirectory=tmp, hammingDistanceExpansion=k, lazyLoad=lazy)
                logs(label + '/init', tmp, sort=True)
                raw('PENDING', label, sorted(parser.pending_files))
                for alias in sorted(specs):
                    _, wl, _ = specs[alias]
                    q = queries[alias]
                    if mode_name != 'eager':  # keep the run short, the eager run does them all
                        q = q[::3]
                    check_queries(parser, alias, wl, k, q, label)
                    logs(label + '/' + alias, tmp)
                    dump_state(parser, alias, label, tmp)
                assert not parser.pending_files
                # alias nobody knows: nothing is assigned
                got = parser.getIndexCorrectedBarcodeAndHammingDistance('ACGT', 'no_such_alias')
                raw('RESULT', label, 'no_such_alias', repr(got))
                if tuple(got) != (None, None, None):
                    FAILURES.append((label, 'no_such_alias', got))
                try:
                    parser.parse_pending_barcode_file_of_alias('no_such_alias')
                    raw('EXC', label, 'none')
                except Exception as e:
                    raw('EXC', label, type(e).__name__, e)

            # programmatic whitelist (addBarcode + expand), as done for -si
            for name, bcs in (('user_short', ['AAA', 'AAT', 'TTT']),
                              ('user_n', ['ACGTN', 'ACGTA', 'NNNNN', 'TTTTT', 'TTTAA', 'CCCCC']),
                              ('user_idx', random_barcodes(12, 6))):
                label = f'k{k}/manual/{name}'
                parser = BarcodeParser(barcodeDirectory=os.path.join(tmp, 'empty_dir_does_not_exist'))
                wl = {}
                for i, b in enumerate(bcs):
                    parser.addBarcode(barcodeFileAlias='user', barcode=b, index=str(i))
                    wl[b] = str(i)
                parser.expand(k, alias='user')
                logs(label + '/expand', tmp)
                check_queries(parser, 'user', wl, k, observed_strings(wl, len(bcs[0]) <= 5, 400), label)
                dump_state(parser, 'user', label, tmp)

        # malformed file: message is free, but it has to be refused
        bad = os.path.join(tmp, 'bad')
        os.mkdir(bad)
        with open(os.path.join(bad, 'three.bc'), 'w') as f:
            f.write('1\tACGT\textra\n')
        try:
            BarcodeParser(barcodeDirectory=bad)
            raw('EXC', 'bad', 'none')
        except Exception as e:
            raw('EXC', 'bad', type(e).__name__, str(e).replace(tmp, '<TMP>'))
        logs('bad', tmp)
    finally:
        shutil.rmtree(tmp, ignore_errors=True)

    digest = hashlib.sha256('\n'.join(RAW).encode()).hexdigest()
    print(f'checked {N_CHECKED} lookups, {len(RAW)} raw output lines')
    if FAILURES:
        for f in FAILURES[:20]:
            print('VIOLATION', f)
        print(f'PROPERTY VIOLATED ({len(FAILURES)} mismatches)')
        print(f'BEHAVIOUR DIGEST {digest}')
        sys.exit(1)
    print('PROPERTY HOLDS')
    print(f'BEHAVIOUR DIGEST {digest}')
    if '--dump' in sys.argv:
        with open(sys.argv[sys.argv.index('--dump') + 1], 'w') as f:
            f.write('\n'.join(RAW) + '\n')


if __name__ == '__main__':
    main()
