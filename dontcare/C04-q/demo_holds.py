#!/usr/bin/env python3
# -*- coding: utf-8 -*-
"""Independent check of property C04 (read-name encoding round-trips).

FASTQ read pair -> demultiplexer (asFastq header) -> BAM record carrying that
read name -> QueryNameFlagger.digest -> BAM tags.  Every field which was
encoded must come back unchanged.

Prints "PROPERTY HOLDS" (exit 0) when the oracle is satisfied, and
"BEHAVIOUR DIGEST <sha256>" over all raw outputs which were observed.
"""
import hashlib
import os
import random
import string
import sys
import tempfile
import warnings

warnings.filterwarnings('ignore')

import pysam  # noqa: E402
from singlecellmultiomics.fastqProcessing.fastqIterator import FastqRecord  # noqa: E402
from singlecellmultiomics.barcodeFileParser.barcodeFileParser import BarcodeParser  # noqa: E402
import singlecellmultiomics.modularDemultiplexer.baseDemultiplexMethods as bdm  # noqa: E402
from singlecellmultiomics.modularDemultiplexer.baseDemultiplexMethods import (  # noqa: E402
    UmiBarcodeDemuxMethod, NonMultiplexable, TaggedRecord, TagDefinitions,
    phredToFastqHeaderSafeQualities, fastqHeaderSafeQualitiesToPhred)
from singlecellmultiomics.modularDemultiplexer.demultiplexModules.CELSeq2 import (  # noqa: E402
    CELSeq2_c8_u6, CELSeq2_c8_u6_NH, CELSeq2_c8_u6_swapped_reads)
from singlecellmultiomics.modularDemultiplexer.demultiplexModules.NLAIII import (  # noqa: E402
    NLAIII_96w_c8_u3, NLAIII_384w_c8_u3)
from singlecellmultiomics.modularDemultiplexer.demultiplexModules.scCHIC import SCCHIC_384w_c8_u3  # noqa: E402
from singlecellmultiomics.universalBamTagger.universalBamTagger import QueryNameFlagger  # noqa: E402

rng = random.Random(4004)
digest = hashlib.sha256()
failures = []
n_checked = 0


def observe(*items):
    for item in items:
        digest.update(repr(item).encode('utf8'))
        digest.update(b'\x00')


def check(condition, message):
    if not condition:
        failures.append(message)


# ----------------------------------------------------------------------------
# Inputs
# ----------------------------------------------------------------------------
module_dir = os.path.dirname(bdm.__file__)
barcode_parser = BarcodeParser(os.path.join(module_dir, 'barcodes'), lazyLoad='*')
index_parser = BarcodeParser(os.path.join(module_dir, 'indices'), lazyLoad='*')
INDEX_ALIAS = 'illumina_merged_ThruPlex48S_RP'
index_table = dict(index_parser[INDEX_ALIAS])

HEADER_SAFE = string.ascii_letters + string.digits + '-_+'
SATURATION = 33 + len(string.ascii_letters) - 1  # highest phred character which survives


def expected_phred(original):
    """What the stored UMI quality has to look like: the original character,
    saturated at the highest representable value"""
    return ''.join(chr(min(ord(c), SATURATION)) for c in original)


def random_dna(n):
    return ''.join(rng.choice('ACGT') for _ in range(n))


def random_phred(n, mode):
    if mode == 'full':
        return ''.join(chr(rng.randint(33, 126)) for _ in range(n))
    if mode == 'low':
        return ''.join(chr(rng.randint(33, SATURATION)) for _ in range(n))
    if mode == 'edge':
        return ''.join(rng.choice('!~' + chr(SATURATION) + chr(SATURATION + 1)) for _ in range(n))
    return ''.join(rng.choice('AE/6<#') for _ in range(n))


def random_library():
    kind = rng.random()
    if kind < 0.1:
        return rng.choice(HEADER_SAFE)
    if kind < 0.2:
        return str(rng.randint(0, 10 ** rng.randint(1, 6)))  # numbered library
    n = rng.randint(2, 40)
    return ''.join(rng.choice(HEADER_SAFE) for _ in range(n))


strategies = [
    ('CELSeq2_c8_u6', lambda **k: CELSeq2_c8_u6(barcodeFileParser=barcode_parser, **k)),
    ('CELSeq2_c8_u6_NH', lambda **k: CELSeq2_c8_u6_NH(barcodeFileParser=barcode_parser, **k)),
    ('CELSeq2_c8_u6_swapped_reads', lambda **k: CELSeq2_c8_u6_swapped_reads(barcodeFileParser=barcode_parser, **k)),
    ('NLAIII_96w_c8_u3', lambda **k: NLAIII_96w_c8_u3(barcodeFileParser=barcode_parser, **k)),
    ('NLAIII_384w_c8_u3', lambda **k: NLAIII_384w_c8_u3(barcodeFileParser=barcode_parser, **k)),
    ('SCCHIC_384w_c8_u3', lambda **k: SCCHIC_384w_c8_u3(barcodeFileParser=barcode_parser, **k)),
    ('generic_u5_c8', lambda **k: UmiBarcodeDemuxMethod(
        umiRead=0, umiStart=0, umiLength=5, barcodeRead=0, barcodeStart=5, barcodeLength=8,
        barcodeFileParser=barcode_parser, barcodeFileAlias='celseq2', **k)),
]


def make_pair(strategy, with_index_parser):
    """Build a read pair for the layout of the strategy, returns the records
    and the values which have to be recovered"""
    barcodes = barcode_parser[strategy.barcodeFileAlias]
    raw_barcode = rng.choice(list(barcodes))
    cell_index = barcodes[raw_barcode]
    umi = random_dna(strategy.umiLength)
    umi_qual = random_phred(strategy.umiLength, rng.choice(['full', 'low', 'edge', 'common']))
    # UMI at umiStart, barcode at barcodeStart (one of them is 0)
    prefix_len = strategy.umiLength + strategy.barcodeLength
    seq = [None] * prefix_len
    qual = [None] * prefix_len
    seq[strategy.umiStart:strategy.umiStart + strategy.umiLength] = umi
    qual[strategy.umiStart:strategy.umiStart + strategy.umiLength] = umi_qual
    seq[strategy.barcodeStart:strategy.barcodeStart + strategy.barcodeLength] = raw_barcode
    qual[strategy.barcodeStart:strategy.barcodeStart + strategy.barcodeLength] = random_phred(
        strategy.barcodeLength, 'common')
    insert_len = rng.randint(30, 60)
    barcoded_seq = ''.join(seq) + 'T' + random_dna(insert_len)
    barcoded_qual = ''.join(qual) + random_phred(insert_len + 1, 'common')
    other_len = rng.randint(30, 60)
    other_seq, other_qual = random_dna(other_len), random_phred(other_len, 'common')

    instrument = rng.choice(['NS500414', 'NB501013', 'A00123', 'M0', 'K00315', 'VH00-1_x'])
    run = str(rng.randint(1, 9999))
    flowcell = ''.join(rng.choice(string.ascii_uppercase + string.digits) for _ in range(rng.choice([5, 9, 10])))
    lane = str(rng.randint(1, 8))
    tile = str(rng.randint(1101, 29999))
    cx = str(rng.randint(0, 2 ** 20))
    cy = str(rng.randint(0, 2 ** 20))
    coordinates = (instrument, run, flowcell, lane, tile, cx, cy)
    base = ':'.join(coordinates)

    if with_index_parser:
        variant = rng.choice(['index', 'index', 'numeric'])
    else:
        variant = rng.choice(['index', 'numeric', 'seven', 'noindex'])
    filtered = rng.choice('NY')
    control = str(rng.choice([0, 0, 2, 18]))
    if variant == 'index':
        index = rng.choice(list(index_table))
        tails = [f' {mate}:{filtered}:{control}:{index}' for mate in (1, 2)]
    elif variant == 'numeric':
        index = str(rng.randint(0, 400))
        tails = [f' {mate}:{filtered}:{control}:{index}' for mate in (1, 2)]
    elif variant == 'noindex':
        index = 'N'
        tails = [f' {mate}:{filtered}:{control}::' for mate in (1, 2)]
    else:
        index = 'N'
        tails = ['', '']

    records = [None, None]
    b = strategy.barcodeRead
    records[b] = FastqRecord('@' + base + tails[b], barcoded_seq, '+', barcoded_qual)
    records[1 - b] = FastqRecord('@' + base + tails[1 - b], other_seq, '+', other_qual)
    expected = dict(raw_barcode=raw_barcode, barcode=raw_barcode, cell_index=str(cell_index),
                    umi=umi, umi_qual=umi_qual, coordinates=coordinates, index=index,
                    variant=variant)
    return records, expected


# ----------------------------------------------------------------------------
# Round trip over a few hundred pairs, the BAM records are really written and
# read back (the read name has to fit into a BAM record)
# ----------------------------------------------------------------------------
tmpdir = tempfile.mkdtemp(prefix='c04_demo_')
bam_path = os.path.join(tmpdir, 'named.bam')
bam_header = pysam.AlignmentHeader.from_dict(
    {'HD': {'VN': '1.6', 'SO': 'unsorted'}, 'SQ': [{'SN': 'chr1', 'LN': 100000}]})

cases = []
with pysam.AlignmentFile(bam_path, 'wb', header=bam_header) as out:
    for round_index in range(420):
        name, factory = strategies[round_index % len(strategies)]
        with_index_parser = (round_index % 5) != 4
        if with_index_parser:
            strategy = factory(indexFileParser=index_parser, indexFileAlias=INDEX_ALIAS)
        else:
            strategy = factory(indexFileParser=None)
        records, expected = make_pair(strategy, with_index_parser)
        library = random_library()
        try:
            tagged = strategy.demultiplex(records, library=library)
        except NonMultiplexable as e:
            observe('rejected', name, str(e))
            continue
        fastq = [tr.asFastq() for tr in tagged]
        observe(fastq)
        for mate, text in enumerate(fastq):
            header_line, sequence, plus, qualities = text.rstrip('\n').split('\n')
            check(header_line.startswith('@'), 'fastq header does not start with @')
            check(len(header_line) - 1 <= 254, 'a header longer than 254 was written')
            segment = pysam.AlignedSegment(bam_header)
            segment.query_name = header_line[1:]
            segment.query_sequence = sequence
            segment.query_qualities = pysam.qualitystring_to_array(qualities)
            segment.flag = 77 if mate == 0 else 141
            out.write(segment)
        expected.update(library=library, strategy=strategy.shortName, name=name,
                        with_index_parser=with_index_parser,
                        read_names=[t.split('\n')[0][1:] for t in fastq])
        cases.append(expected)

flagger = QueryNameFlagger()
with pysam.AlignmentFile(bam_path, check_sq=False) as bam:
    stored = list(bam)
check(len(stored) == 2 * len(cases), 'not every record was stored')

for case_index, expected in enumerate(cases):
    pair = stored[2 * case_index:2 * case_index + 2]
    for read, encoded_name in zip(pair, expected['read_names']):
        check(read.query_name == encoded_name, 'BAM storage changed the read name')
    flagger.digest(pair)
    for read in pair:
        n_checked += 1
        observe(read.query_name, read.get_tags())
        tags = dict(read.get_tags())
        where = f"case {case_index} ({expected['name']}, {expected['variant']})"
        check(tags.get('BC') == expected['barcode'], f'{where}: cell barcode')
        check(tags.get('bc') == expected['raw_barcode'], f'{where}: raw barcode')
        check(str(tags.get('bi')) == expected['cell_index'], f'{where}: cell index')
        check(tags.get('RX') == expected['umi'], f'{where}: UMI')
        check(tags.get('RQ') == expected_phred(expected['umi_qual']), f'{where}: UMI qualities')
        check(tags.get('LY') == expected['library'], f'{where}: library')
        check(tags.get('MX') == expected['strategy'], f'{where}: strategy')
        check(str(tags.get('aa')) == expected['index'], f'{where}: sequencing index')
        for tag, value in zip(('Is', 'RN', 'Fc', 'La', 'Ti', 'CX', 'CY'), expected['coordinates']):
            check(str(tags.get(tag)) == value, f'{where}: illumina coordinate {tag}')
        check(read.query_name == ':'.join(expected['coordinates']), f'{where}: restored illumina name')
        check(tags.get('SM') == f"{expected['library']}_{expected['cell_index']}", f'{where}: sample')
        if expected['with_index_parser']:
            # The index is known: it is part of the molecular identifier
            check(str(tags.get('aA')) == expected['index'], f'{where}: corrected sequencing index')
            check(tags.get('MI') == expected['barcode'] + expected['umi'] + expected['index'],
                  f'{where}: molecular identifier')
        elif 'MI' in tags:
            check(tags['MI'] == expected['barcode'] + expected['umi'] + str(tags.get('aA', '')),
                  f'{where}: molecular identifier')

# ----------------------------------------------------------------------------
# Quality encoding is total and saturating
# ----------------------------------------------------------------------------
for code in range(33, 127):
    c = chr(code)
    try:
        safe = phredToFastqHeaderSafeQualities(c, method=3)
        back = fastqHeaderSafeQualitiesToPhred(safe, method=3)
    except Exception as e:  # noqa
        failures.append(f'quality encoding failed for chr({code}): {e!r}')
        continue
    observe(code, safe, back)
    check(len(safe) == 1 and safe in string.ascii_letters, f'chr({code}) is not encoded header safe')
    check(back == chr(min(code, SATURATION)), f'chr({code}) does not round trip / saturate')
whole = ''.join(chr(c) for c in range(33, 127))
check(fastqHeaderSafeQualitiesToPhred(phredToFastqHeaderSafeQualities(whole)) == expected_phred(whole),
      'complete phred range')
check(phredToFastqHeaderSafeQualities('') == '', 'empty quality string')

# ----------------------------------------------------------------------------
# A header which can not be stored is refused, a header which just fits is not
# ----------------------------------------------------------------------------
strategy = CELSeq2_c8_u6(barcodeFileParser=barcode_parser, indexFileParser=index_parser,
                         indexFileAlias=INDEX_ALIAS)
seen = {'refused': 0, 'stored': 0}
for attempt in range(12):
    records, expected = make_pair(strategy, True)
    probe = strategy.demultiplex(records, library='L')
    base_length = len(probe[0].asFastq().split('\n')[0]) - 1 - 1  # without @ and without the library
    for total, should_fail in ((254, False), (255, True), (256, True), (300 + 37 * attempt, True),
                               (254 - attempt, False)):
        library = ''.join(rng.choice(HEADER_SAFE) for _ in range(total - base_length))
        tagged = strategy.demultiplex(records, library=library)
        for tr in tagged:
            try:
                text = tr.asFastq()
                refused = False
                seen['stored'] += 1
                observe('stored', len(text.split('\n')[0]) - 1)
            except ValueError as e:
                refused = True
                seen['refused'] += 1
                observe('refused', type(e).__name__, str(e))
            except Exception as e:  # noqa
                failures.append(f'too long header refused with {type(e).__name__} instead of ValueError')
                continue
            header_length = len(";".join(f"{k}:{v}" for k, v in tr.tags.items()
                                         if not TagDefinitions[k].doNotWrite))
            check(refused == (header_length > 254),
                  f'header of {header_length} characters: refused={refused}')
            if not refused:
                check(len(text.split('\n')[0]) - 1 == header_length, 'header was altered / truncated')
                check(f'LY:{library};' in text or text.split('\n')[0].endswith(f'LY:{library}'),
                      'library truncated')
check(seen['refused'] > 10 and seen['stored'] > 10, f'limit not exercised on both sides: {seen}')

# ----------------------------------------------------------------------------
# Not part of the property (only accepted pairs are quantified): a pair with an
# unknown sequencing index is rejected, the reason is recorded in the digest
# ----------------------------------------------------------------------------
for unknown_index in ('TTTTTTTTTT', 'ACGTNNAC', 'GGGGGGGGGGGG'):
    if unknown_index in index_table:
        continue
    records, expected = make_pair(strategy, True)
    records = [FastqRecord(r.header.rsplit(':', 1)[0] + ':' + unknown_index, r.sequence, r.plus, r.qual)
               for r in records]
    try:
        strategy.demultiplex(records, library='lib')
        observe('unknown index accepted')
    except NonMultiplexable as e:
        observe('rejected', str(e))

print(f'checked {n_checked} tagged reads from {len(cases)} accepted pairs')
if failures:
    print(f'PROPERTY VIOLATED ({len(failures)} failures)')
    for f in failures[:25]:
        print('  ', f)
    sys.exit(1)
print('PROPERTY HOLDS')
print('BEHAVIOUR DIGEST', digest.hexdigest())
