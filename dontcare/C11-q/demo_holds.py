#!/usr/bin/env python3
"""Independent check of property C11 (count tables count exactly the reads
passing the filters, at documented weights).

Builds synthetic tagged BAM files, runs create_count_table under a few hundred
option combinations and compares every written / returned table against an
oracle computed from the in-memory read descriptions (never from pysam reads).

Prints "PROPERTY HOLDS" and a "BEHAVIOUR DIGEST" over all raw outputs
(captured stdout + the raw table text).
"""
import sys
import os
import io
import csv
import random
import hashlib
import tempfile
import contextlib
import collections
from types import SimpleNamespace

import pysam
import singlecellmultiomics.bamProcessing.bamToCountTable as b2c

CONTIGS = [('chr1', 5000), ('chr2', 3000), ('chr3_alt', 2000)]
CIGARS = ['30M', '10S20M', '12M2I16M', '15M3D15M', '5S10M1I10M2D4M',
          '20M10S', '15M100N15M', '40M', '8M1D22M', '26M4I']
SAMPLES = ['cellA', 'cellB', 'cellC', 'cellD']
LIBS = ['lib1', 'lib2']
GENES = ['geneA', 'geneB', 'geneC', 'gene_D']
CONSUMES_QUERY = set('MIS=X')
CONSUMES_REF = set('MDN=X')


def parse_cigar(cigar):
    ops, n = [], ''
    for c in cigar:
        if c.isdigit():
            n += c
        else:
            ops.append((int(n), c))
            n = ''
    return ops


def make_reads(rng, n_fragments):
    """Returns a list of read descriptions (dicts)"""
    reads = []
    for f in range(n_fragments):
        paired = rng.random() < 0.7
        mates = [1, 2] if paired else [0]
        recs = []
        for m in mates:
            mapped = rng.random() < 0.85
            r = {'name': f'frag{f}', 'mate': m, 'paired': paired,
                 'mapped': mapped, 'tags': {}}
            if mapped:
                ci = rng.randrange(len(CONTIGS))
                r['tid'] = ci
                r['chrom'] = CONTIGS[ci][0]
                r['cigar'] = rng.choice(CIGARS)
                ops = parse_cigar(r['cigar'])
                ref_len = sum(l for l, o in ops if o in CONSUMES_REF)
                r['start'] = rng.randrange(0, CONTIGS[ci][1] - ref_len - 1)
                r['end'] = r['start'] + ref_len
                r['qlen'] = sum(l for l, o in ops if o in CONSUMES_QUERY)
                r['mapq'] = rng.choice([0, 1, 10, 20, 30, 42, 60])
            else:
                r['qlen'] = 30
                r['mapq'] = 0
            r['qcfail'] = rng.random() < 0.07
            r['duplicate'] = rng.random() < 0.12
            r['proper'] = paired and rng.random() < 0.6
            t = r['tags']
            t['SM'] = rng.choice(SAMPLES)
            t['LY'] = rng.choice(LIBS)
            if rng.random() < 0.6:
                t['DS'] = rng.randrange(0, 4) * 100
            if rng.random() < 0.7:
                t['XX'] = rng.choice(GENES)
            if rng.random() < 0.5:
                t['RC'] = rng.randrange(1, 4)
            if rng.random() < 0.1:
                t['RR'] = rng.choice(['MQ', 'NoSite', 'hamming'])
            if rng.random() < 0.3:
                t['NH'] = rng.randrange(1, 5)
            if rng.random() < 0.25:
                hits = []
                for _ in range(rng.randrange(1, 4)):
                    c = rng.choice(['chr1', 'chr2', 'chr3_alt', 'chr3_alt'])
                    hits.append(f'{c},{rng.choice("+-")}{rng.randrange(1, 900)},30M,{rng.randrange(0, 3)}')
                t['XA'] = ';'.join(hits) + ';'
                r['n_xa'] = len(hits)
                r['xa_non_alt'] = any(not h.split(',')[0].endswith('_alt') for h in hits)
            x = rng.random()
            if x < 0.6:
                t['mp'] = 'unique'
            elif x < 0.8:
                t['mp'] = 'multi'
            if rng.random() < 0.8:
                t['NM'] = rng.randrange(0, 6)
            recs.append(r)
        # mate flags follow the truth, with a few contradicting flags
        for r in recs:
            if paired:
                other = recs[1] if r is recs[0] else recs[0]
                r['mate_unmapped'] = (not other['mapped'])
                if rng.random() < 0.05:
                    r['mate_unmapped'] = not r['mate_unmapped']
                r['other'] = other
            else:
                r['mate_unmapped'] = False
                r['other'] = None
        reads.extend(recs)
    return reads


def write_bam(path, reads):
    header = {'HD': {'VN': '1.6', 'SO': 'unsorted'},
              'SQ': [{'SN': c, 'LN': l} for c, l in CONTIGS]}
    tmp = path + '.unsorted.bam'
    with pysam.AlignmentFile(tmp, 'wb', header=header) as out:
        for r in reads:
            a = pysam.AlignedSegment(out.header)
            a.query_name = r['name']
            a.query_sequence = 'A' * r['qlen']
            a.query_qualities = pysam.qualitystring_to_array('I' * r['qlen'])
            flag = 0
            if r['paired']:
                flag |= 1
                flag |= 64 if r['mate'] == 1 else 128
                if r['proper']:
                    flag |= 2
                if r['mate_unmapped']:
                    flag |= 8
            if not r['mapped']:
                flag |= 4
            if r['qcfail']:
                flag |= 512
            if r['duplicate']:
                flag |= 1024
            a.flag = flag
            other = r['other']
            if r['mapped']:
                a.reference_id = r['tid']
                a.reference_start = r['start']
                a.mapping_quality = r['mapq']
                a.cigarstring = r['cigar']
            elif other is not None and other['mapped']:
                # unmapped read placed at the position of its mate
                a.reference_id = other['tid']
                a.reference_start = other['start']
            else:
                a.reference_id = -1
                a.reference_start = -1
            if other is not None and other['mapped']:
                a.next_reference_id = other['tid']
                a.next_reference_start = other['start']
            else:
                a.next_reference_id = -1
                a.next_reference_start = -1
            for k, v in r['tags'].items():
                a.set_tag(k, v)
            out.write(a)
    pysam.sort('-o', path, tmp)
    pysam.index(path)
    os.remove(tmp)


# ---------------------------------------------------------------------------
# Oracle (works on the read descriptions only)
# ---------------------------------------------------------------------------

def passes(r, o, blacklist):
    if o['r1only'] and r['paired'] and r['mate'] == 2:
        return False
    if o['r2only'] and r['paired'] and r['mate'] == 1:
        return False
    if o['filterMP'] and r['tags'].get('mp') != 'unique':
        return False
    if not r['mapped'] or r['qcfail']:
        return False
    if r['mapq'] < o['minMQ']:
        return False
    if o['proper_pairs_only'] and not r['proper']:
        return False
    kinds = set(op for _, op in parse_cigar(r['cigar']))
    if o['no_indels'] and (kinds & {'I', 'D'}):
        return False
    if o['no_softclips'] and 'S' in kinds:
        return False
    if o['max_base_edits'] is not None and 'NM' in r['tags'] and r['tags']['NM'] > o['max_base_edits']:
        return False
    if o['filterXA'] and r.get('xa_non_alt', False):
        return False
    if o['dedup'] and (r['duplicate'] or 'RR' in r['tags']):
        return False
    if blacklist is not None:
        for c, s, e in blacklist:
            if c == r['chrom'] and (s <= r['start'] < e or s <= r['end'] < e):
                return False
    return True


def feature_value(r, tag):
    if tag in ('chrom', 'reference_name'):
        return r['chrom']
    if tag == 'mapping_quality':
        return str(r['mapq'])
    return str(r['tags'].get(tag))  # 'None' when the tag is missing


def weight(r, o):
    w = 1.0
    if not (o['r1only'] or o['r2only']) and not o['doNotDivideFragments']:
        if r['paired'] and not r['mate_unmapped']:
            w = 0.5
    if o['divideMultimapping']:
        if 'XA' in r['tags']:
            w /= (r['n_xa'] + 1)  # alternative hits + the reported alignment
        elif 'NH' in r['tags']:
            w /= r['tags']['NH']
    return w


def oracle(read_sets, o, blacklist, bed):
    table = collections.defaultdict(float)
    sample_tags = o['sampleTags'].split(',')
    for reads in read_sets:
        if bed is None:
            offered = [(r, ()) for r in reads
                       if o['contig'] is None or (r['mapped'] and r['chrom'] == o['contig'])]
        else:
            offered = []
            for c, s, e, name in bed:
                if o['contig'] is not None and c != o['contig']:
                    continue
                for r in reads:
                    if r['mapped'] and r['chrom'] == c and r['start'] < e and r['end'] > s:
                        offered.append((r, (str(s), str(e), name)))
        for r, suffix in offered:
            if not passes(r, o, blacklist):
                continue
            sample = tuple(r['tags'][t] for t in sample_tags)
            w = weight(r, o)
            if o['joined']:
                key = tuple(feature_value(r, t) for t in o['features'] if t != o['byValue'])
                if o['byValue'] is not None:
                    try:
                        w = float(feature_value(r, o['byValue']))
                    except ValueError:
                        w = 0.0
                table[(sample, key + suffix)] += w
            else:
                for t in o['features']:
                    table[(sample, (feature_value(r, t),) + suffix)] += w
    return {k: v for k, v in table.items() if v != 0}


# ---------------------------------------------------------------------------
# Reading the table back
# ---------------------------------------------------------------------------

def parse_table(text, n_sample_tags, n_index_levels):
    rows = list(csv.reader(io.StringIO(text)))
    rows = [r for r in rows if len(r)]
    if len(rows) <= 1:
        return {}
    header = rows[:n_sample_tags]
    body = rows[n_sample_tags:]
    columns = [tuple(h[i] for h in header) for i in range(n_index_levels, len(header[0]))]
    found = {}
    for row in body:
        key = tuple(row[:n_index_levels])
        values = row[n_index_levels:]
        assert len(values) == len(columns), (row, columns)
        if all(v == '' for v in values):
            continue  # the row holding the names of the index levels
        for col, v in zip(columns, values):
            if v == '':
                continue
            v = float(v)
            if v != 0:
                assert (col, key) not in found, f'duplicated cell {col} {key}'
                found[(col, key)] = v
    return found


def compare(found, expected, context):
    if set(found) != set(expected):
        missing = sorted(set(expected) - set(found))[:5]
        extra = sorted(set(found) - set(expected))[:5]
        raise AssertionError(f'{context}\ncells missing: {missing}\ncells unexpected: {extra}')
    for k, v in expected.items():
        if abs(found[k] - v) > 1e-9:
            raise AssertionError(f'{context}\ncell {k}: table {found[k]} expected {v}')


def random_options(rng, run):
    mode = run % 8
    o = dict(r1only=False, r2only=False, byValue=None, contig=None)
    x = rng.random()
    if x < 0.15:
        o['r1only'] = True
    elif x < 0.3:
        o['r2only'] = True
    for name in ('filterMP', 'proper_pairs_only', 'no_indels', 'no_softclips',
                 'filterXA', 'dedup', 'divideMultimapping', 'doNotDivideFragments', 'noNames'):
        o[name] = rng.random() < 0.3
    o['minMQ'] = rng.choice([0, 0, 1, 20, 30, 50])
    o['max_base_edits'] = rng.choice([None, None, 0, 2, 4])
    o['sampleTags'] = rng.choice(['SM', 'SM', 'SM,LY'])
    pool = ['DS', 'XX', 'chrom', 'NM', 'reference_name', 'mapping_quality', 'RC']
    o['use_bed'] = False
    o['use_blacklist'] = rng.random() < 0.3
    if mode in (0, 1):    # single feature tags
        o['joined'] = False
        o['features'] = rng.sample(pool, 1 if mode == 0 else 2)
    elif mode in (2, 3):  # joined feature tags
        o['joined'] = True
        o['features'] = rng.sample(pool, rng.choice([1, 2, 3]))
    elif mode == 4:       # by value
        o['joined'] = True
        o['byValue'] = rng.choice(['NM', 'DS', 'RC', 'XX'])
        o['features'] = rng.sample([p for p in pool if p != o['byValue']], rng.choice([1, 2]))
        if rng.random() < 0.5:
            o['features'].insert(rng.randrange(len(o['features']) + 1), o['byValue'])
    elif mode == 5:       # contig selection
        o['joined'] = rng.random() < 0.5
        o['features'] = rng.sample(pool, rng.choice([1, 2]))
        o['contig'] = rng.choice([c for c, _ in CONTIGS])
    else:                 # BED regions
        o['use_bed'] = True
        o['joined'] = (mode == 6)
        o['features'] = rng.sample(pool, rng.choice([1, 2]))
        if rng.random() < 0.3:
            o['contig'] = rng.choice([c for c, _ in CONTIGS])
    o['return_df'] = rng.random() < 0.35
    return o


def main():
    rng = random.Random(20260928)
    digest = hashlib.sha256()
    n_runs = 320
    n_cells = 0
    start_dir = os.getcwd()
    with tempfile.TemporaryDirectory() as tmpdir:
        os.chdir(tmpdir)  # relative paths only: the messages mention the file names
        try:
            bams = []
            for i in range(10):
                reads = make_reads(rng, rng.choice([40, 80, 120]))
                if i == 9:  # a file in which nothing can be counted
                    for r in reads:
                        r['qcfail'] = True
                path = f'in_{i}.bam'
                write_bam(path, reads)
                bams.append((path, reads))

            for run in range(n_runs):
                o = random_options(rng, run)
                chosen = rng.sample(bams, 2 if rng.random() < 0.25 else 1)
                blacklist = bed = None
                if o['use_blacklist']:
                    blacklist = []
                    for _ in range(rng.randrange(1, 4)):
                        c, l = rng.choice(CONTIGS)
                        s = rng.randrange(0, l - 10)
                        blacklist.append((c, s, min(l, s + rng.randrange(5, 1500))))
                    with open('blacklist.bed', 'w') as h:
                        for c, s, e in blacklist:
                            h.write(f'{c}\t{s}\t{e}\n')
                if o['use_bed']:
                    bed = []
                    for j in range(rng.randrange(1, 6)):
                        c, l = rng.choice(CONTIGS)
                        s = rng.randrange(0, l - 10)
                        bed.append((c, s, min(l, s + rng.randrange(1, 1200)), f'region{j}'))
                    with open('regions.bed', 'w') as h:
                        for c, s, e, name in bed:
                            h.write(f'{c}\t{s}\t{e}\t{name}\n')

                # (a by-value tag that is left out of the joined tags is appended automatically)
                features_arg = ','.join(o['features'])
                args = SimpleNamespace(
                    alignmentfiles=[p for p, _ in chosen], head=None,
                    o=None if o['return_df'] else 'table.csv',
                    bin=None, binTag='DS', sliding=None, keepOverBounds=False,
                    bedfile='regions.bed' if bed is not None else None,
                    showtags=False,
                    featureTags=None if o['joined'] else features_arg,
                    joinedFeatureTags=features_arg if o['joined'] else None,
                    byValue=o['byValue'], sampleTags=o['sampleTags'],
                    proper_pairs_only=o['proper_pairs_only'], no_indels=o['no_indels'],
                    max_base_edits=o['max_base_edits'], no_softclips=o['no_softclips'],
                    minMQ=o['minMQ'], filterXA=o['filterXA'], dedup=o['dedup'],
                    divideMultimapping=o['divideMultimapping'],
                    doNotDivideFragments=o['doNotDivideFragments'],
                    contig=o['contig'],
                    blacklist='blacklist.bed' if blacklist is not None else None,
                    r1only=o['r1only'], r2only=o['r2only'], filterMP=o['filterMP'],
                    splitFeatures=False, featureDelimiter=',', feature_delimiter=',',
                    noNames=o['noNames'], bulk=False)

                if os.path.exists('table.csv'):
                    os.remove('table.csv')
                captured = io.StringIO()
                with contextlib.redirect_stdout(captured):
                    result = b2c.create_count_table(args, return_df=o['return_df'])
                if o['return_df']:
                    text = result.to_csv()
                else:
                    assert result == 'table.csv' and os.path.isfile('table.csv')
                    with open('table.csv', newline='') as h:
                        text = h.read()
                digest.update(f'RUN {run}\n'.encode())
                digest.update(captured.getvalue().encode())
                digest.update(text.encode())

                key_tags = [t for t in o['features'] if t != o['byValue']]
                n_levels = (len(key_tags) if o['joined'] else 1) + (3 if bed is not None else 0)
                expected = oracle([r for _, r in chosen], o, blacklist, bed)
                found = parse_table(text, len(o['sampleTags'].split(',')), n_levels)
                compare(found, expected,
                        f'run {run} options {o} files {[p for p, _ in chosen]} blacklist {blacklist} bed {bed}')
                n_cells += len(expected)
        finally:
            os.chdir(start_dir)

    assert n_cells > 2000, n_cells
    print(f'{n_runs} count tables checked, {n_cells} non-zero cells compared')
    print('PROPERTY HOLDS')
    print('BEHAVIOUR DIGEST ' + digest.hexdigest())
    return 0


if __name__ == '__main__':
    sys.exit(main())
