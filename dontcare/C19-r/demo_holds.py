#!/usr/bin/env python3
"""Independent check of property C19 (per-cell file splitting loses no record
under handle limits and open failures) plus a digest of the observable
behaviour the property leaves free.

Prints "PROPERTY HOLDS" and exits 0 when every scenario satisfies the property.
"""
import builtins
import contextlib
import errno
import hashlib
import io
import os
import random
import shutil
import struct
import sys
import tempfile
import zlib

import pysam

from singlecellmultiomics.pyutils.handlelimiter import HandleLimiter
from singlecellmultiomics.fastqProcessing.fastqHandle import FastqHandle
from singlecellmultiomics.bamProcessing.bamSplitByTag import split_bam_by_tag

REAL_OPEN = builtins.open
violations = []
totals = {'injected_failures': 0, 'raises': 0, 'files_checked': 0, 'gzip_members': 0}
digest = hashlib.sha256()


def note(*parts):
    digest.update(('\x1f'.join(str(p) for p in parts) + '\n').encode())


def fail(msg):
    violations.append(msg)
    if len(violations) <= 20:
        print('VIOLATION', msg)


# ---------------------------------------------------------------- gzip oracle
def parse_gzip_members(raw):
    """Own gzip parser: returns (payload, [(mtime, fname), ...]); raises
    ValueError when raw is not a sequence of complete valid gzip members."""
    pos = 0
    out = []
    members = []
    while pos < len(raw):
        if raw[pos:pos + 2] != b'\x1f\x8b' or len(raw) < pos + 10:
            raise ValueError('bad magic at %d' % pos)
        method, flags, mtime = struct.unpack('<BBI', raw[pos + 2:pos + 8])
        if method != 8:
            raise ValueError('bad method')
        pos += 10
        if flags & 4:
            xlen, = struct.unpack('<H', raw[pos:pos + 2])
            pos += 2 + xlen
        fname = None
        if flags & 8:
            end = raw.index(b'\x00', pos)
            fname = raw[pos:end]
            pos = end + 1
        if flags & 16:
            pos = raw.index(b'\x00', pos) + 1
        if flags & 2:
            pos += 2
        d = zlib.decompressobj(-15)
        data = d.decompress(raw[pos:]) + d.flush()
        if not d.eof:
            raise ValueError('truncated deflate stream')
        rest = d.unused_data
        if len(rest) < 8:
            raise ValueError('missing trailer')
        crc, isize = struct.unpack('<II', rest[:8])
        if crc != (zlib.crc32(data) & 0xffffffff) or isize != (len(data) & 0xffffffff):
            raise ValueError('crc / size mismatch')
        pos = len(raw) - len(rest) + 8
        out.append(data)
        members.append((mtime, fname))
    return b''.join(out), members


# ------------------------------------------------------------ fault injection
class Faults(object):
    """Replaces builtins.open; tracks the descriptors opened below `root`."""

    def __init__(self, root, mode='none', k=None, fail_calls=(), bad_path=None):
        self.root = root
        self.mode = mode
        self.k = k
        self.fail_calls = set(fail_calls)
        self.bad_path = bad_path
        self.tracked = []
        self.calls = 0
        self.failures = 0
        self.others_open_at_last_failure = None
        self.max_open = 0

    def n_open(self):
        self.tracked = [f for f in self.tracked if not f.closed]
        return len(self.tracked)

    def __call__(self, file, *args, **kwargs):
        if not (isinstance(file, str) and file.startswith(self.root)):
            return REAL_OPEN(file, *args, **kwargs)
        self.calls += 1
        n = self.n_open()
        boom = False
        if self.mode == 'emfile' and n >= self.k:
            boom = True  # one more would exceed k simultaneously open files
        elif self.mode == 'transient' and self.calls in self.fail_calls:
            boom = True
        elif self.mode == 'permanent' and file == self.bad_path:
            boom = True
        if boom:
            self.failures += 1
            self.others_open_at_last_failure = n
            raise OSError(errno.EMFILE, 'Too many open files (injected)', file)
        f = REAL_OPEN(file, *args, **kwargs)
        self.tracked.append(f)
        self.max_open = max(self.max_open, n + 1)
        return f


@contextlib.contextmanager
def injected(faults):
    builtins.open = faults
    try:
        yield faults
    finally:
        builtins.open = REAL_OPEN


# ------------------------------------------------------- HandleLimiter checks
def run_limiter_scenario(idx, rng, root, n_files, n_writes, max_handles,
                         prune_every, fmode, method=1):
    d = os.path.join(root, 's%d' % idx)
    os.mkdir(d)
    paths = [os.path.join(d, 'cell_%03d.%s' % (i, 'gz' if method == 1 else 'txt'))
             for i in range(n_files)]
    hot = paths[:max(1, n_files // 4)]
    kwargs = {}
    if max_handles is not None:
        kwargs['maxHandles'] = max_handles
    if prune_every is not None:
        kwargs['pruneEvery'] = prune_every
    k = None
    fail_calls = ()
    bad_path = None
    if fmode == 'emfile':
        k = rng.choice([1, 1, 2, 3, 5, 8, 17, 40])
    elif fmode == 'transient':
        fail_calls = rng.sample(range(1, 3 * n_writes + 2),
                                rng.randint(1, max(1, min(12, n_writes // 3))))
    elif fmode == 'permanent':
        bad_path = rng.choice(paths)
    faults = Faults(d, fmode, k, fail_calls, bad_path)
    expected = {}
    raised = 0
    trace = []
    captured = io.StringIO()
    with injected(faults), contextlib.redirect_stdout(captured), \
            contextlib.redirect_stderr(captured):
        h = HandleLimiter(**kwargs)
        for w in range(n_writes):
            path = rng.choice(hot) if rng.random() < 0.35 else rng.choice(paths)
            rec = '@r%d_%d\n%s\n+\n%s\n' % (
                idx, w, ''.join(rng.choice('ACGTN') for _ in range(rng.randint(0, 30))),
                'I' * rng.randint(0, 5))
            if rng.random() < 0.03:
                rec = ''  # empty write
            before = faults.failures
            try:
                h.write(path, rec, method=method)
            except OSError as e:
                raised += 1
                # raising is only allowed when the file could not be opened
                # with all other handles closed
                if faults.failures == before:
                    fail('s%d: write raised %r without an injected failure' % (idx, e))
                elif faults.others_open_at_last_failure != 0:
                    fail('s%d: raised while %d other handles were still open' % (
                        idx, faults.others_open_at_last_failure))
                if fmode == 'emfile':
                    fail('s%d: raised although opening succeeds once others are closed' % idx)
                if fmode == 'permanent' and path != bad_path:
                    fail('s%d: raised for a path that can be opened' % idx)
                continue
            if fmode == 'permanent' and path == bad_path:
                fail('s%d: write to unopenable path did not raise' % idx)
            expected.setdefault(path, []).append(rec)
            trace.append(len(h.openHandles))
        h.close()
    if faults.n_open() != 0:
        fail('s%d: %d descriptors still open after close()' % (idx, faults.n_open()))
    if k is not None and faults.max_open > k:
        fail('s%d: harness error, more than k descriptors open' % idx)
    # every file: exactly the records of that cell, in write order, valid gzip
    n_members = 0
    zero_mtime = 0
    for path in paths:
        want = ''.join(expected.get(path, [])).encode()
        if path not in expected:
            if os.path.exists(path) and path != bad_path:
                fail('s%d: unexpected file %s' % (idx, path))
            continue
        if not os.path.exists(path):
            fail('s%d: missing file %s' % (idx, path))
            continue
        with REAL_OPEN(path, 'rb') as f:
            raw = f.read()
        if method == 1:
            try:
                got, members = parse_gzip_members(raw)
            except Exception as e:
                fail('s%d: %s is not valid gzip: %r' % (idx, path, e))
                continue
            n_members += len(members)
            zero_mtime += sum(1 for m in members if m[0] == 0)
        else:
            got = raw
        if got != want:
            fail('s%d: content of %s differs (%d vs %d bytes)' % (
                idx, os.path.basename(path), len(got), len(want)))
        note('file', idx, os.path.basename(path), hashlib.sha256(got).hexdigest())
    totals['injected_failures'] += faults.failures
    totals['raises'] += raised
    totals['files_checked'] += len(expected)
    totals['gzip_members'] += n_members
    # behaviour the property leaves free
    note('scenario', idx, n_files, n_writes, max_handles, prune_every, fmode, k,
         method, 'raised', raised, 'members', n_members, 'zero_mtime', zero_mtime,
         'opens', faults.calls, 'failures', faults.failures,
         'max_open', faults.max_open,
         'trace', hashlib.sha256(repr(trace).encode()).hexdigest(),
         'stats', sorted(getattr(h, 'stats', {}).items()),
         'log', hashlib.sha256(captured.getvalue().replace(root, '<tmp>').encode()).hexdigest())
    shutil.rmtree(d)


def limiter_scenarios(root):
    rng = random.Random(190019)
    idx = 0
    handle_choices = [1, 1, 2, 3, 4, 7, 8, 16, 31, 32, 64, 199, 200, 500, None]
    prune_choices = [1, 1, 2, 3, 5, 10, 37, 100, 1000, 10000, None]
    plan = []
    # corner cases first
    for n_files in (1, 2, 200):
        for mh in (1, 8, 200):
            for pe in (1, 50):
                for fmode in ('none', 'emfile'):
                    plan.append((n_files, 3 * n_files + 20, mh, pe, fmode, 1))
    plan.append((200, 900, None, None, 'none', 1))     # defaults
    plan.append((200, 2500, 16, None, 'none', 1))      # default prune interval
    plan.append((120, 2500, None, 100, 'emfile', 1))   # default handle limit
    plan.append((200, 800, 40, 10, 'permanent', 1))
    plan.append((200, 800, 40, 10, 'transient', 1))
    for _ in range(300):
        n_files = rng.choice([1, 2, 3, 5, 9, 17, 33, 60, 100, 200])
        n_writes = rng.randint(1, 4 * n_files + 40)
        plan.append((n_files, n_writes, rng.choice(handle_choices),
                     rng.choice(prune_choices),
                     rng.choice(['none', 'emfile', 'emfile', 'transient', 'permanent']),
                     0 if rng.random() < 0.1 else 1))
    for (n_files, n_writes, mh, pe, fmode, method) in plan:
        run_limiter_scenario(idx, rng, root, n_files, n_writes, mh, pe, fmode, method)
        idx += 1
    return idx


# --------------------------------------------------------- FastqHandle checks
class Rec(object):
    def __init__(self, name, seq, tags):
        self.name, self.seq, self.tags = name, seq, tags

    def __str__(self):
        return '@%s\n%s\n+\n%s\n' % (self.name, self.seq, 'F' * len(self.seq))


def fastq_scenarios(root):
    rng = random.Random(77)
    n = 0
    for si, (cells, pairs, mh, k) in enumerate([
            (1, 30, None, None), (20, 400, 3, None), (100, 600, 5, 4),
            (100, 2600, 8, None), (60, 500, None, 1), (150, 700, 400, 9)]):
        d = os.path.join(root, 'fq%d' % si)
        os.mkdir(d)
        prefix = os.path.join(d, 'lib')
        faults = Faults(d, 'emfile' if k else 'none', k)
        expected = {}
        with injected(faults), contextlib.redirect_stdout(io.StringIO()):
            fh = FastqHandle(prefix, pairedEnd=True, single_cell=True,
                             **({} if mh is None else {'maxHandles': mh}))
            for p in range(pairs):
                c = rng.randrange(cells)
                tags = {'bi': str(c), 'MX': 'CS2'}
                if c == 0:
                    tags = {}  # no cell id
                recs = [Rec('p%d/%d' % (p, m), ''.join(
                    rng.choice('ACGT') for _ in range(rng.randint(1, 20))), tags)
                    for m in (1, 2)]
                fh.write(recs)
                cell = '%s.%s' % (tags.get('bi', 'no_cell_id'), tags.get('MX', 'unk'))
                for rid, r in zip(('R1', 'R2'), recs):
                    expected.setdefault('%s.%s.%s.fastq.gz' % (prefix, cell, rid),
                                        []).append(str(r))
            fh.close()
        if faults.n_open():
            fail('fq%d: descriptors left open' % si)
        found = sorted(os.path.join(d, x) for x in os.listdir(d))
        if found != sorted(expected):
            fail('fq%d: set of per-cell files differs' % si)
        members = 0
        for path in sorted(expected):
            try:
                got, mem = parse_gzip_members(REAL_OPEN(path, 'rb').read())
            except Exception as e:
                fail('fq%d: invalid gzip %s %r' % (si, path, e))
                continue
            members += len(mem)
            if got != ''.join(expected[path]).encode():
                fail('fq%d: content differs for %s' % (si, path))
            note('fq', si, os.path.basename(path), hashlib.sha256(got).hexdigest())
        note('fqscenario', si, members, faults.calls, faults.failures, faults.max_open)
        shutil.rmtree(d)
        n += 1
    return n


# ------------------------------------------------------- bamSplitByTag checks
def bam_scenarios(root):
    rng = random.Random(5)
    n = 0
    for si, (cells, reads, mh) in enumerate([(1, 20, 1), (7, 150, 2), (25, 400, 4),
                                             (12, 200, 50)]):
        d = os.path.join(root, 'bam%d' % si)
        os.mkdir(d)
        src = os.path.join(d, 'in.bam')
        header = {'HD': {'VN': '1.6', 'SO': 'coordinate'},
                  'SQ': [{'SN': 'chr1', 'LN': 100000}]}
        expected = {}
        with pysam.AlignmentFile(src, 'wb', header=header) as out:
            for i in range(reads):
                a = pysam.AlignedSegment(out.header)
                a.query_name = 'read%d' % i
                a.query_sequence = 'ACGTACGTAC'
                a.query_qualities = pysam.qualitystring_to_array('IIIIIIIIII')
                a.reference_id = 0
                a.reference_start = 10 + i * 3
                a.cigarstring = '10M'
                a.mapping_quality = 60
                a.flag = 0
                if rng.random() < 0.9:
                    c = 'cell%d' % rng.randrange(cells)
                    a.set_tag('SM', c)
                    expected.setdefault(c, []).append(a.query_name)
                out.write(a)
        outdir = os.path.join(d, 'out') + os.sep
        os.mkdir(outdir)
        skip = set()
        waiting = {0}
        iterations = 0
        with contextlib.redirect_stdout(io.StringIO()):
            while waiting:
                done, waiting = split_bam_by_tag(src, outdir, 'SM', max_handles=mh,
                                                 skip=skip)
                skip.update(done)
                iterations += 1
                if iterations > 100:
                    fail('bam%d: does not terminate' % si)
                    break
        if skip != set(expected):
            fail('bam%d: tag values written %r != expected' % (si, sorted(skip)))
        for c, names in sorted(expected.items()):
            p = outdir + c + '.bam'
            if not os.path.exists(p):
                fail('bam%d: missing %s' % (si, p))
                continue
            with pysam.AlignmentFile(p, 'rb') as f:
                got = [r.query_name for r in f]
            if got != names:
                fail('bam%d: records of %s differ' % (si, c))
            note('bam', si, c, len(got))
        note('bamscenario', si, iterations, sorted(os.listdir(outdir)))
        shutil.rmtree(d)
        n += 1
    return n


def main():
    root = tempfile.mkdtemp(prefix='c19_demo_')
    try:
        h = HandleLimiter()
        note('defaults', h.maxHandles, h.pruneEvery, h.compressionLevel,
             sorted(k for k in vars(h)))
        n = limiter_scenarios(root)
        n += fastq_scenarios(root)
        n += bam_scenarios(root)
    finally:
        builtins.open = REAL_OPEN
        shutil.rmtree(root, ignore_errors=True)
    print('scenarios checked: %d' % n)
    print('totals', sorted(totals.items()))
    print('BEHAVIOUR DIGEST %s' % digest.hexdigest())
    if violations:
        print('PROPERTY VIOLATED (%d violations)' % len(violations))
        return 1
    print('PROPERTY HOLDS')
    return 0


if __name__ == '__main__':
    sys.exit(main())
