#!/usr/bin/env python
"""Independent check of property C07:

  For coordinate-sorted input whose fragments are shorter than the molecule cache radius,
  the set of molecules produced (which fragments are grouped together) is identical for every
  buffer-ejection interval, including never ejecting, and for both pooling methods when UMIs are
  compared exactly. No molecule is emitted while a later fragment could still join it, and every
  fragment is emitted exactly once.

The oracle is independent of the repository code: with exact UMI comparison and assignment
radius 0 a molecule is the set of fragments sharing (cell, UMI, strand, contig, anchor coordinate).

Prints "PROPERTY HOLDS" and a "BEHAVIOUR DIGEST <sha256>" over everything that was observed
(emission order, iterator statistics, reprs, exception messages).
"""
import collections
import hashlib
import itertools
import os
import random
import sys
import tempfile

import pysam

from singlecellmultiomics.molecule import MoleculeIterator, Molecule, CHICMolecule
from singlecellmultiomics.fragment import Fragment, CHICFragment

CONTIGS = ['chr1', 'chr2', 'chr10']
CONTIG_LEN = 1_000_000
CELLS = ['LIB_CELL1', 'LIB_CELL2', 'LIB_CELL3']
UMIS = ['AAA', 'AAC', 'CCC', 'GTA']  # AAA / AAC differ by one base: must NOT merge when exact
READ_LEN = 30

digest = hashlib.sha256()
failures = []


def observe(*items):
    digest.update(('\t'.join(str(i) for i in items) + '\n').encode())


def fail(msg):
    failures.append(msg)
    if len(failures) < 20:
        print('VIOLATION:', msg)


# --------------------------------------------------------------------------------------
# input generation
# --------------------------------------------------------------------------------------
Spec = collections.namedtuple('Spec', 'name tid start end reverse paired cell umi')


def make_case(rng, cache_size, n_frag, kind):
    """Return list of Spec sorted by (contig, start). All fragments shorter than cache_size/2
    (which is shorter than the cache radius under every reading of 'radius')."""
    max_len = max(READ_LEN * 2 + 2, cache_size // 2 - 10)
    region = cache_size * rng.choice([2, 4, 8])
    n_contigs = rng.choice([1, 2, 3])
    start_sites = sorted(rng.sample(range(100, 100 + region), min(6, region)))
    end_sites = sorted(rng.sample(range(100 + max_len, 100 + max_len + region), min(6, region)))
    specs = []
    for i in range(n_frag):
        tid = rng.randrange(n_contigs)
        reverse = rng.random() < 0.5
        if kind == 'equal_length':
            length, paired = READ_LEN + 10, False
        else:
            is_long = rng.random() < 0.4 and max_len >= 2 * READ_LEN + 2
            if is_long:
                length = rng.randint(max(2 * READ_LEN + 2, max_len // 2), max_len)
                paired = rng.random() < 0.7
            else:
                length = rng.randint(20, min(READ_LEN + 20, max_len))
                paired = False
            if paired and length < 2 * READ_LEN + 2:
                paired = False
        if reverse and kind != 'equal_length':
            # reverse fragments are anchored on their END: duplicates with a later start
            end = rng.choice(end_sites)
            start = end - length
        else:
            start = rng.choice(start_sites)
            end = start + length
        specs.append(Spec(f'f{i:03d}', tid, start, end, reverse, paired,
                          rng.choice(CELLS[:rng.choice([1, 2, 3])]), rng.choice(UMIS[:rng.choice([1, 2, 4])])))
    # cross contig twins: same coordinates / cell / umi on another contig
    if n_contigs > 1 and specs:
        for j in range(min(3, len(specs))):
            s = rng.choice(specs)
            specs.append(s._replace(name=f'tw{j}', tid=(s.tid + 1) % n_contigs))
    specs.sort(key=lambda s: (s.tid, s.start))  # stable: coordinate sorted by fragment start
    return specs


def oracle_key(s):
    anchor = s.end if s.reverse else s.start
    return (s.cell, s.umi, s.reverse, s.tid, anchor)


def oracle_partition(specs):
    groups = collections.defaultdict(set)
    for s in specs:
        groups[oracle_key(s)].add(s.name)
    return frozenset(frozenset(g) for g in groups.values())


def segment(header, name, tid, start, length, reverse, cell, umi):
    a = pysam.AlignedSegment(header)
    a.query_name = name
    a.reference_id = tid
    a.reference_start = start
    a.query_sequence = ('ACGT' * (length // 4 + 1))[:length]
    a.cigartuples = [(0, length)]
    a.mapping_quality = 60
    a.is_reverse = reverse
    a.query_qualities = pysam.qualitystring_to_array('I' * length)
    a.set_tag('SM', cell)
    a.set_tag('RX', umi)
    return a


def records_for(header, s):
    if not s.paired:
        return [segment(header, s.name, s.tid, s.start, s.end - s.start, s.reverse, s.cell, s.umi)]
    left = segment(header, s.name, s.tid, s.start, READ_LEN, False, s.cell, s.umi)
    right = segment(header, s.name, s.tid, s.end - READ_LEN, READ_LEN, True, s.cell, s.umi)
    r1, r2 = (right, left) if s.reverse else (left, right)  # R1 carries the strand / anchor
    for a, b in ((r1, r2), (r2, r1)):
        a.is_paired = True
        a.is_proper_pair = True
        a.next_reference_id = b.reference_id
        a.next_reference_start = b.reference_start
        a.mate_is_reverse = b.is_reverse
    r1.is_read1, r2.is_read2 = True, True
    r1.template_length = (s.end - s.start) * (-1 if s.reverse else 1)
    r2.template_length = -r1.template_length
    return [r1, r2]


def write_case(tmpdir, idx, specs):
    """Write (a) a fragment-ordered bam (mates adjacent) and (b) a record-sorted bam. Returns paths."""
    header = pysam.AlignmentHeader.from_dict({
        'HD': {'VN': '1.6', 'SO': 'coordinate'},
        'SQ': [{'SN': c, 'LN': CONTIG_LEN} for c in CONTIGS]})
    frag_path = os.path.join(tmpdir, f'case{idx}.fragments.bam')
    sorted_path = os.path.join(tmpdir, f'case{idx}.sorted.bam')
    recs = []
    with pysam.AlignmentFile(frag_path, 'wb', header=header) as out:
        for s in specs:
            for r in records_for(header, s):
                out.write(r)
                recs.append(r)
    recs.sort(key=lambda r: (r.reference_id, r.reference_start))
    with pysam.AlignmentFile(sorted_path, 'wb', header=header) as out:
        for r in recs:
            out.write(r)
    return frag_path, sorted_path


def load_fragments(frag_path):
    """Read the fragment-ordered bam back: list of (R1,) or (R1, R2) tuples in fragment order"""
    out = []
    with pysam.AlignmentFile(frag_path, check_sq=False) as f:
        pending = None
        for r in f.fetch(until_eof=True):
            if not r.is_paired:
                out.append((r,))
            elif pending is None:
                pending = r
            else:
                assert pending.query_name == r.query_name
                out.append((pending, r) if pending.is_read1 else (r, pending))
                pending = None
    return out


# --------------------------------------------------------------------------------------
# running the iterator
# --------------------------------------------------------------------------------------
def stats_of(it):
    rep = '\n'.join(l.strip() for l in repr(it).split('\n') if 'Mate pair iterator' not in l)
    return (it.yielded_fragments, it.waiting_fragments, it.deleted_fragments,
            it.get_molecule_cache_size(), getattr(it, 'yielded_molecules', 'n/a'), rep)


def names_of(molecule):
    names = []
    for fragment in molecule:
        for read in fragment:
            if read is not None:
                names.append(read.query_name)
                break
    return names


def run(fragments, fclass, mclass, cache_size, pooling, eject, schedule=None, **extra):
    """Returns list of (consumed_when_emitted, [fragment names]) in emission order.
    schedule: optional tuple of booleans, True = check for ejection right after fragment k."""
    consumed = [0]
    holder = []

    def feed():
        for k, item in enumerate(fragments):
            if schedule is not None:
                holder[0].check_eject_every = 0 if schedule[k] else None
            consumed[0] = k + 1
            yield item

    it = MoleculeIterator(feed(), molecule_class=mclass, fragment_class=fclass,
                          check_eject_every=eject, pooling_method=pooling, perform_qflag=False,
                          molecule_class_args={'cache_size': cache_size},
                          fragment_class_args={'umi_hamming_distance': 0, 'assignment_radius': 0},
                          **extra)
    holder.append(it)
    emitted = []
    for m in it:
        emitted.append((consumed[0], names_of(m)))
        observe('EMIT', consumed[0], ','.join(names_of(m)), len(m), *stats_of(it))
    observe('END', *stats_of(it))
    return emitted


def run_bam(path, fclass, mclass, cache_size, pooling, eject):
    with pysam.AlignmentFile(path, check_sq=False) as f:
        it = MoleculeIterator(f, molecule_class=mclass, fragment_class=fclass,
                              check_eject_every=eject, pooling_method=pooling, perform_qflag=False,
                              molecule_class_args={'cache_size': cache_size},
                              fragment_class_args={'umi_hamming_distance': 0, 'assignment_radius': 0})
        emitted = []
        for m in it:
            emitted.append((None, names_of(m)))
            observe('EMITBAM', ','.join(names_of(m)), len(m), *stats_of(it)[:5])
    return emitted


def check_run(label, specs, emitted, expected, check_timing=True):
    all_names = [n for _, names in emitted for n in names]
    counts = collections.Counter(all_names)
    wanted = set(s.name for s in specs)
    if set(counts) != wanted or any(v != 1 for v in counts.values()):
        fail(f'{label}: fragments not emitted exactly once: missing={sorted(wanted - set(counts))} '
             f'multi={[k for k, v in counts.items() if v != 1]}')
    partition = frozenset(frozenset(names) for _, names in emitted)
    if len(partition) != len(emitted):
        fail(f'{label}: the same molecule was emitted twice')
    if expected is not None and partition != expected:
        fail(f'{label}: partition differs from expectation ({len(partition)} vs {len(expected)} molecules)')
    if check_timing:
        index_of = {s.name: i for i, s in enumerate(specs)}
        key_of = {s.name: oracle_key(s) for s in specs}
        last_index_of_key = {}
        for s in specs:
            last_index_of_key[oracle_key(s)] = index_of[s.name]
        for consumed_n, names in emitted:
            # fragments with index >= consumed_n have not been seen yet by the iterator
            if last_index_of_key[key_of[names[0]]] >= consumed_n:
                fail(f'{label}: molecule {names} emitted after {consumed_n} fragments while a later fragment joins it')
    return partition


def eject_values(n):
    if n <= 14:
        return list(range(0, n + 1)) + [None]
    return sorted(set([0, 1, 2, 3, 5, 8, 13, n // 2, n - 1, n])) + [None]


def main():
    rng = random.Random(20240907)
    n_cases = 0
    n_runs = 0
    with tempfile.TemporaryDirectory(prefix='c07_demo_') as tmpdir:
        plans = []
        for i in range(240):
            cache_size = rng.choice([200, 700, 2000])
            kind = 'chic' if i % 3 else 'equal_length'
            plans.append((cache_size, rng.randint(3, 26), kind))
        # small inputs for the exhaustive schedule enumeration
        for i in range(12):
            plans.append((rng.choice([200, 700]), rng.randint(4, 7), 'chic_exhaustive'))

        for idx, (cache_size, n_frag, kind) in enumerate(plans):
            specs = make_case(rng, cache_size, n_frag, 'equal_length' if kind == 'equal_length' else 'chic')
            frag_path, sorted_path = write_case(tmpdir, idx, specs)
            fragments = load_fragments(frag_path)
            assert [f[0].query_name for f in fragments] == [s.name for s in specs]
            expected = oracle_partition(specs)
            n_cases += 1
            observe('CASE', idx, kind, cache_size, len(specs), len(expected))
            if kind == 'equal_length':
                classes = (Fragment, Molecule)  # generic fragments, all the same length, single end
            else:
                classes = (CHICFragment, CHICMolecule)
            n = len(specs)
            for pooling in (0, 1):
                for eject in eject_values(n):
                    emitted = run(fragments, *classes, cache_size, pooling, eject)
                    check_run(f'case{idx}/{kind}/pool{pooling}/eject{eject}/cache{cache_size}', specs, emitted, expected)
                    n_runs += 1
                if kind == 'chic_exhaustive':
                    for schedule in itertools.product((False, True), repeat=n):
                        emitted = run(fragments, *classes, cache_size, pooling, None, schedule=schedule)
                        check_run(f'case{idx}/{kind}/pool{pooling}/schedule{schedule}', specs, emitted, expected)
                        n_runs += 1
                # the real thing: a record-sorted bam file through the mate pair iterator. Mate pairs are
                # delivered when their right-most mate is read, up to one fragment length late, so the
                # fragments are kept shorter than a quarter of the cache size here.
                if idx % 4 == 0:
                    for eject in (0, 1, 3, n, None):
                        emitted = run_bam(sorted_path, *classes, 2 * cache_size, pooling, eject)
                        check_run(f'case{idx}/{kind}/bam/pool{pooling}/eject{eject}', specs, emitted, expected, check_timing=False)
                        n_runs += 1
                # the buffer limit: the message is free, raising or not depends only on the buffer contents
                if idx % 10 == 0:
                    try:
                        run(fragments, *classes, cache_size, pooling, None, max_buffer_size=2)
                        observe('NO_MEMORY_ERROR', idx)
                        if n > 2:
                            fail(f'case{idx}: expected a MemoryError with {n} fragments never ejected and max_buffer_size=2')
                    except MemoryError as e:
                        observe('MEMORY_ERROR', idx, str(e))

    print(f'{n_cases} inputs, {n_runs} iterator runs, {len(failures)} violations')
    print('BEHAVIOUR DIGEST', digest.hexdigest())
    if failures:
        print('PROPERTY VIOLATED')
        sys.exit(1)
    print('PROPERTY HOLDS')
    sys.exit(0)


if __name__ == '__main__':
    main()
