#!/usr/bin/env python3
"""Independent check of property C14 (TAPS methylation calls reflect reference
context and observed conversion).

Molecules are simulated on random references with random methylation patterns,
both mapping strands, both TAPS strand conventions, paired and dove-tailed
fragments, fragments touching the contig ends, non-ACGT / lower case reference
bases, indels and soft clips, disagreeing mates and PCR duplicates.

The oracle below is written from the statement of the property, it does not use
the consensus / context code of the package.

Prints "PROPERTY HOLDS" (exit 0) or "PROPERTY VIOLATED" (exit 1) and a line
"BEHAVIOUR DIGEST <sha256>" over all raw outputs (call dictionaries and all tags
written to the reads).
"""
import hashlib
import os
import random
import sys
import tempfile
from collections import Counter

import pysam

from singlecellmultiomics.molecule import TAPS, TAPSMolecule
from singlecellmultiomics.fragment import Fragment

N_REFERENCES = 40
MOLECULES_PER_REFERENCE = 12
COMPLEMENT = {'A': 'T', 'T': 'A', 'C': 'G', 'G': 'C'}
TOTAL_TAGS = {'sZ': 'Z', 'sz': 'z', 'sX': 'X', 'sx': 'x', 'sH': 'H', 'sh': 'h'}

digest = hashlib.sha256()
violations = []
stats = Counter()


def fail(msg):
    violations.append(msg)


# --------------------------------------------------------------------------
# input simulation
# --------------------------------------------------------------------------
def random_reference(rng):
    contigs = {}
    for i in range(rng.randint(1, 3)):
        length = rng.randint(45, 160)
        # CpG / CHG rich so that all contexts occur often
        seq = [rng.choice('ACGTCGCG') for _ in range(length)]
        if rng.random() < 0.6:  # non ACGT bases
            for _ in range(rng.randint(1, 6)):
                seq[rng.randrange(length)] = rng.choice('NNRYM')
        if rng.random() < 0.4:  # soft masked stretch
            a = rng.randrange(length)
            b = min(length, a + rng.randint(1, 25))
            seq[a:b] = [x.lower() for x in seq[a:b]]
        if rng.random() < 0.5:  # make sure contig ends carry C / G
            seq[0] = rng.choice('GC')
            seq[1] = rng.choice('GC')
            seq[-1] = rng.choice('GC')
            seq[-2] = rng.choice('GC')
        contigs[f'ctg{i}'] = ''.join(seq)
    return contigs


def random_cigar(rng, ref_len):
    """cigar operations (op, length) consuming exactly ref_len reference bases"""
    if ref_len < 12 or rng.random() < 0.65:
        ops = [('M', ref_len)]
    else:
        a = rng.randint(3, ref_len - 8)
        kind = rng.choice('ID')
        if kind == 'I':
            ops = [('M', a), ('I', rng.randint(1, 3)), ('M', ref_len - a)]
        else:
            d = rng.randint(1, 3)
            ops = [('M', a), ('D', d), ('M', ref_len - a - d)]
    if rng.random() < 0.2:
        ops = [('S', rng.randint(1, 4))] + ops
    if rng.random() < 0.2:
        ops = ops + [('S', rng.randint(1, 4))]
    return ops


def build_read(rng, header, contig, refseq, start, end, ops, is_reverse, is_read1,
               name, converted_positions, conv_from, conv_to, forced_bases, forced_quals):
    """Returns (AlignedSegment, aligned) where aligned is a list of
    (reference position, query base, phred) for every aligned (M) base."""
    upper = refseq.upper()
    query, quals, md, aligned = [], [], [], []
    rpos = start
    run = 0
    for op, length in ops:
        if op == 'S' or op == 'I':
            for _ in range(length):
                query.append(rng.choice('ACGT'))
                quals.append(rng.randint(2, 40))
        elif op == 'D':
            md.append(str(run))
            run = 0
            md.append('^' + upper[rpos:rpos + length])
            rpos += length
        else:
            for _ in range(length):
                refbase = upper[rpos]
                base = refbase if refbase in 'ACGT' else rng.choice('ACGT')
                if refbase == conv_from and rpos in converted_positions:
                    base = conv_to
                if rng.random() < 0.04:  # sequencing error
                    base = rng.choice('ACGT')
                q = rng.randint(5, 40)
                if rpos in forced_bases:
                    base = forced_bases[rpos]
                if rpos in forced_quals:
                    q = forced_quals[rpos]
                query.append(base)
                quals.append(q)
                aligned.append((rpos, base, q))
                if base == refbase:
                    run += 1
                else:
                    md.append(str(run))
                    md.append(refbase)
                    run = 0
                rpos += 1
    md.append(str(run))
    assert rpos == end
    read = pysam.AlignedSegment(header)
    read.query_name = name
    read.reference_name = contig
    read.reference_start = start
    read.query_sequence = ''.join(query)
    read.query_qualities = pysam.qualitystring_to_array(''.join(chr(q + 33) for q in quals))
    read.cigarstring = ''.join(f'{length}{op}' for op, length in ops)
    read.mapping_quality = 60
    read.is_paired = True
    read.is_proper_pair = True
    read.is_reverse = is_reverse
    read.mate_is_reverse = not is_reverse
    read.is_read1 = is_read1
    read.is_read2 = not is_read1
    read.set_tag('SM', 'cell_1')
    read.set_tag('RX', 'ACGTAC')
    read.set_tag('MD', ''.join(md))
    assert read.reference_end == end
    return read, aligned


def simulate_molecule(rng, header, contigs, index):
    contig = rng.choice(sorted(contigs))
    refseq = contigs[contig]
    upper = refseq.upper()
    L = len(refseq)
    r1_reverse = rng.random() < 0.5           # mapping strand of the molecule
    taps_strand = rng.choice('FR')
    # the base which is converted, written out from the property statement:
    # convention F: C on forward molecules, G on reverse molecules; convention R: the opposite
    if taps_strand == 'F':
        conv_from = 'G' if r1_reverse else 'C'
    else:
        conv_from = 'C' if r1_reverse else 'G'
    conv_to = 'T' if conv_from == 'C' else 'A'

    layout = rng.choice(['plain', 'plain', 'dove', 'left_end', 'right_end', 'whole', 'disjoint'])
    flen = rng.randint(14, min(L, 90))
    fstart = rng.randint(0, L - flen)
    if layout == 'left_end':
        fstart = 0
    elif layout == 'right_end':
        fstart = L - flen
    elif layout == 'whole':
        fstart, flen = 0, L
    fend = fstart + flen
    methylated = {p for p in range(L) if rng.random() < 0.5}

    n_fragments = rng.choice([1, 1, 1, 2, 3])
    fragments = []
    for fi in range(n_fragments):
        # forward mate covers [fs, fe) reverse mate covers [rs, re)
        fs = fstart
        re_ = fend
        if layout == 'disjoint' and flen >= 30:
            fe = fs + rng.randint(8, flen // 2 - 2)
            rs = re_ - rng.randint(8, flen // 2 - 2)
        else:
            fe = rng.randint(fs + 8, fend)
            rs = rng.randint(fs, fend - 8)
        if layout == 'dove':
            # mates read past each others start: these bases lie outside the safe span
            if rng.random() < 0.6 and fe + 1 <= L:
                fe = min(L, max(fe, re_) + rng.randint(1, 6))
                re_ = min(re_, fe - 1) if fe <= re_ else re_
            if rng.random() < 0.6 and fs >= 1:
                rs = max(0, fs - rng.randint(1, 6))
            if fe <= re_ and rs >= fs:
                rs = max(0, fs - 1) if fs > 0 else rs
        # mates disagree at some positions; equal quality gives a tie
        forced_f, forced_fq, forced_r, forced_rq = {}, {}, {}, {}
        for p in range(max(fs, rs), min(fe, re_)):
            if upper[p] == conv_from and rng.random() < 0.25:
                forced_f[p] = rng.choice([conv_from, conv_to, rng.choice('ACGT')])
                forced_r[p] = rng.choice([conv_from, conv_to, rng.choice('ACGT')])
                q = rng.randint(5, 40)
                forced_fq[p] = q
                forced_rq[p] = q if rng.random() < 0.5 else rng.randint(5, 40)
        name = f'mol{index}_frag{fi}'
        fwd, fwd_aligned = build_read(rng, header, contig, refseq, fs, fe, random_cigar(rng, fe - fs),
                                      False, not r1_reverse, name, methylated, conv_from, conv_to,
                                      forced_f, forced_fq)
        rev, rev_aligned = build_read(rng, header, contig, refseq, rs, re_, random_cigar(rng, re_ - rs),
                                      True, r1_reverse, name, methylated, conv_from, conv_to,
                                      forced_r, forced_rq)
        fwd.next_reference_id = rev.reference_id
        fwd.next_reference_start = rev.reference_start
        rev.next_reference_id = fwd.reference_id
        rev.next_reference_start = fwd.reference_start
        r1, r2 = (rev, fwd) if r1_reverse else (fwd, rev)
        fragments.append({'R1': r1, 'R2': r2,
                          'reads': [(fwd, fwd_aligned), (rev, rev_aligned)],
                          'safe': (fwd.reference_start, rev.reference_end - 1)})
    return {'contig': contig, 'refseq': refseq, 'r1_reverse': r1_reverse, 'taps_strand': taps_strand,
            'conv_from': conv_from, 'conv_to': conv_to, 'fragments': fragments, 'layout': layout}


# --------------------------------------------------------------------------
# oracle
# --------------------------------------------------------------------------
def oracle_consensus(sim):
    """{position: base} majority vote over fragments; per fragment the mate with the best
    phred wins, equal phreds for different bases give no call. Only reference
    conv_from positions inside the mate-overlap-safe span are considered."""
    upper = sim['refseq'].upper()
    votes = {}
    covered = set()
    for frag in sim['fragments']:
        lo, hi = frag['safe']
        per_pos = {}
        for read, aligned in frag['reads']:
            for pos, base, q in aligned:
                if lo <= pos <= hi and upper[pos] == sim['conv_from']:
                    per_pos.setdefault(pos, []).append((base, q))
        for pos, obs in per_pos.items():
            covered.add(pos)
            best_q = max(q for _, q in obs)
            best = {b for b, q in obs if q == best_q}
            if len(best) != 1:
                continue
            votes.setdefault(pos, Counter())[best.pop()] += 1
    consensus = {}
    for pos, counter in votes.items():
        ranked = counter.most_common()
        if len(ranked) > 1 and ranked[0][1] == ranked[1][1]:
            continue
        consensus[pos] = ranked[0][0]
    return consensus, covered


def oracle_letter(sim, pos, consensus_base):
    upper = sim['refseq'].upper()
    if sim['conv_from'] == 'C':
        context = upper[pos:pos + 3]
    else:
        if pos - 2 < 0:
            return '.'  # context truncated by the contig start
        context = ''.join(COMPLEMENT.get(b, b) for b in reversed(upper[pos - 2:pos + 1]))
    if len(context) != 3 or any(b not in 'ACGT' for b in context) or context[0] != 'C':
        return '.'  # truncated by the contig end or not an ACGT context
    if context[1] == 'G':
        letter = 'z'
    elif context[2] == 'G':
        letter = 'x'
    else:
        letter = 'h'
    if consensus_base == sim['conv_to']:
        return letter.upper()
    if consensus_base == sim['conv_from']:
        return letter
    return '.'


def check_molecule(sim, molecule, label):
    calls = molecule.methylation_call_dict
    if calls is None:
        fail(f'{label}: no call dictionary')
        return
    upper = sim['refseq'].upper()
    expected_strand = sim['r1_reverse']
    if molecule.strand != expected_strand:
        fail(f'{label}: unexpected molecule strand')
    consensus, covered = oracle_consensus(sim)
    safe_positions = set()
    for frag in sim['fragments']:
        safe_positions.update(range(frag['safe'][0], frag['safe'][1] + 1))

    for (contig, pos), call in calls.items():
        stats['calls'] += 1
        letter = call['context']
        if contig != sim['contig']:
            fail(f'{label}: call on foreign contig {contig}')
            continue
        if upper[pos] != sim['conv_from']:
            fail(f'{label}: call at {pos} is on reference {upper[pos]} instead of {sim["conv_from"]}')
        if pos not in safe_positions or pos not in covered:
            fail(f'{label}: call at {pos} lies outside the mate-overlap-safe span')
        if pos not in consensus:
            fail(f'{label}: call at {pos} is not covered by the consensus')
            continue
        if call['consensus'] != consensus[pos]:
            fail(f'{label}: consensus at {pos} is {call["consensus"]}, expected {consensus[pos]}')
        if call['reference_base'] != sim['conv_from']:
            fail(f'{label}: reference base of call at {pos} is {call["reference_base"]}')
        expected = oracle_letter(sim, pos, consensus[pos])
        if letter != expected:
            fail(f'{label}: call at {pos} is {letter!r}, expected {expected!r}')
        stats['letter_' + letter] += 1
    # every consensus position on the converted base is expected in the dictionary
    missing = set(consensus) - {pos for (_, pos) in calls}
    if missing:
        fail(f'{label}: consensus positions without entry: {sorted(missing)}')

    totals = Counter(call['context'] for call in calls.values())
    for frag in sim['fragments']:
        for read, aligned in frag['reads']:
            xm = read.get_tag('XM')
            if len(xm) != len(aligned):
                fail(f'{label}: XM has {len(xm)} characters for {len(aligned)} aligned bases')
                continue
            for (pos, base, q), character in zip(aligned, xm):
                if upper[pos] == sim['conv_from']:
                    if not frag_safe_any(sim, pos):
                        stats['unsafe_candidate_bases'] += 1
                    elif (sim['contig'], pos) not in calls:
                        stats['safe_candidate_bases_without_consensus'] += 1
                expected = calls.get((sim['contig'], pos), {}).get('context', '.')
                if character != expected:
                    fail(f'{label}: XM character {character!r} at {pos}, expected {expected!r}')
                if character != '.' and not (frag_safe_any(sim, pos)):
                    fail(f'{label}: XM calls position {pos} outside the safe span')
            for tag, kind in TOTAL_TAGS.items():
                if read.get_tag(tag) != totals[kind]:
                    fail(f'{label}: {tag}={read.get_tag(tag)} but {totals[kind]} calls of kind {kind}')
            if read.get_tag('MC') != totals['Z'] + totals['X'] + totals['H']:
                fail(f'{label}: MC={read.get_tag("MC")} does not equal the methylated calls')
            if read.get_tag('uC') != totals['z'] + totals['x'] + totals['h']:
                fail(f'{label}: uC={read.get_tag("uC")} does not equal the unmethylated calls')


def frag_safe_any(sim, pos):
    return any(frag['safe'][0] <= pos <= frag['safe'][1] for frag in sim['fragments'])


def record_raw(sim, molecule):
    calls = molecule.methylation_call_dict or {}
    for key in sorted(calls):
        digest.update(repr((key, sorted((k, repr(v)) for k, v in calls[key].items()))).encode())
    for frag in sim['fragments']:
        for read, _ in frag['reads']:
            digest.update(repr((read.query_name, read.is_read1, sorted(
                (tag, repr(value)) for tag, value in read.get_tags()))).encode())


# --------------------------------------------------------------------------
def main():
    rng = random.Random(20140614)
    index = 0
    with tempfile.TemporaryDirectory(prefix='c14_demo_') as tmp:
        for ri in range(N_REFERENCES):
            contigs = random_reference(rng)
            ref_path = os.path.join(tmp, f'ref_{ri}.fa')
            with open(ref_path, 'w') as handle:
                for name, seq in contigs.items():
                    handle.write(f'>{name}\n{seq}\n')
            pysam.faidx(ref_path)
            header = pysam.AlignmentHeader.from_references(
                list(contigs), [len(s) for s in contigs.values()])
            with pysam.FastaFile(ref_path) as reference:
                for _ in range(MOLECULES_PER_REFERENCE):
                    index += 1
                    sim = simulate_molecule(rng, header, contigs, index)
                    taps = TAPS(taps_strand=sim['taps_strand'])
                    molecule = None
                    for frag in sim['fragments']:
                        fragment = Fragment([frag['R1'], frag['R2']])
                        if molecule is None:
                            molecule = TAPSMolecule(fragment, taps=taps, reference=reference,
                                                    taps_strand=sim['taps_strand'])
                        else:
                            molecule._add_fragment(fragment)
                    molecule.__finalise__()
                    stats['molecules'] += 1
                    stats['layout_' + sim['layout']] += 1
                    label = f'molecule {index} ({sim["layout"]}, strand {"-" if sim["r1_reverse"] else "+"}, ' \
                            f'taps {sim["taps_strand"]}, {len(sim["fragments"])} fragments)'
                    check_molecule(sim, molecule, label)
                    record_raw(sim, molecule)

    print(f'molecules: {stats["molecules"]}, calls checked: {stats["calls"]}')
    print('letters:', {k[7:]: v for k, v in sorted(stats.items()) if k.startswith('letter_')})
    print('candidate bases outside the safe span:', stats['unsafe_candidate_bases'],
          '/ inside without consensus (ties):', stats['safe_candidate_bases_without_consensus'])
    print('layouts:', {k[7:]: v for k, v in sorted(stats.items()) if k.startswith('layout_')})
    print(f'BEHAVIOUR DIGEST {digest.hexdigest()}')
    if violations:
        print(f'PROPERTY VIOLATED ({len(violations)} findings)')
        for v in violations[:25]:
            print('  ', v)
        return 1
    print('PROPERTY HOLDS')
    return 0


if __name__ == '__main__':
    sys.exit(main())
