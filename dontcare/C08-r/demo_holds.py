#!/usr/bin/env python3
"""Independent check of property C08: parallel tagging is equivalent to serial tagging.

Simulated scCHiC libraries (several contigs, molecules straddling bin boundaries, molecules flush with the contig
ends, duplicates, qc-failed and wrongly oriented pairs, unmapped pairs) are tagged
  * in one serial pass (tag_multiome_single_thread),
  * with tag_multiome_multi_processing for worker counts 1..8, many bin sizes / fetch margins / job sizes and the
    contig-per-process mode,
  * with the region tiling API (blacklisted_binning_contigs -> bp_chunked -> generate_tasks -> run_tagging_tasks ->
    merge_bams) with random completion / merge orders.
For every run the records, their flags and the molecule level tags are compared with the serial pass and with the
ground truth of the simulation; for the tiling API it is also verified that every record is written by exactly one job,
the one whose bin contains the cut site.

Prints "PROPERTY HOLDS" and exits 0 when everything agrees, also prints "BEHAVIOUR DIGEST <sha256>" over the raw outputs
(job bed files, messages and the tagged records of the deterministic runs).
"""
import contextlib
import hashlib
import io
import os
import random
import re
import shutil
import sys
import tempfile
from collections import Counter, defaultdict

import pysam

import singlecellmultiomics.fragment
import singlecellmultiomics.molecule
import singlecellmultiomics.universalBamTagger.bamtagmultiome as tm
from singlecellmultiomics.bamProcessing.bamBinCounts import blacklisted_binning_contigs
from singlecellmultiomics.bamProcessing.bamFunctions import merge_bams, sorted_bam_file
from singlecellmultiomics.molecule import MoleculeIterator
from singlecellmultiomics.universalBamTagger.tagging import generate_tasks, run_tagging_tasks
from singlecellmultiomics.utils.binning import bp_chunked

tm.sleep = lambda *a, **k: None  # do not wait five seconds before the temporary folder is removed

READ_LEN = 40
MAX_FRAGMENT = 400  # largest simulated fragment, fetch margins are at least this
MOLECULE_TAGS = ('DS', 'RS', 'RC', 'af', 'TF', 'SM', 'RX', 'RG', 'mI', 'TR', 'ms', 'fS', 'MQ', 'RR')
FAILURES = []
DIGEST = hashlib.sha256()
N_INPUTS = 0


def fail(message):
    FAILURES.append(message)
    if len(FAILURES) < 25:
        print('VIOLATION:', message, file=sys.__stdout__, flush=True)


def digest(label, text):
    DIGEST.update(label.encode())
    DIGEST.update(b'\0')
    DIGEST.update(text.encode() if isinstance(text, str) else text)
    DIGEST.update(b'\1')


# ---------------------------------------------------------------------------------------------------------------------
# Simulation
# ---------------------------------------------------------------------------------------------------------------------
def random_seq(rng, n):
    return ''.join(rng.choice('ACGT') for _ in range(n))


def make_pair(header, name, contig_id, r1_start, r2_start, r1_reverse, sample, umi, rng, qcfail=False,
              same_orientation=False):
    reads = []
    for is_r1, start, reverse in ((True, r1_start, r1_reverse), (False, r2_start, not r1_reverse)):
        if same_orientation:
            reverse = r1_reverse
        a = pysam.AlignedSegment(header)
        a.query_name = name
        a.query_sequence = random_seq(rng, READ_LEN)
        a.query_qualities = pysam.qualitystring_to_array('I' * READ_LEN)
        a.reference_id = contig_id
        a.reference_start = start
        a.cigarstring = f'{READ_LEN}M'
        a.mapping_quality = 60
        a.is_paired = True
        a.is_proper_pair = True
        a.is_read1 = is_r1
        a.is_read2 = not is_r1
        a.is_reverse = reverse
        a.is_qcfail = qcfail
        a.set_tag('SM', sample)
        a.set_tag('RX', umi)
        a.set_tag('MX', 'scCHIC384C8U3')
        a.set_tag('LY', 'simlib')
        reads.append(a)
    r1, r2 = reads
    for a, b in ((r1, r2), (r2, r1)):
        a.next_reference_id = b.reference_id
        a.next_reference_start = b.reference_start
        a.mate_is_reverse = b.is_reverse
    left = min(r1.reference_start, r2.reference_start)
    right = max(r1.reference_end, r2.reference_end)
    for a in reads:
        a.template_length = (right - left) * (1 if a.reference_start == left else -1)
    return reads


def make_unmapped_pair(header, name, sample, umi, rng):
    reads = []
    for is_r1 in (True, False):
        a = pysam.AlignedSegment(header)
        a.query_name = name
        a.query_sequence = random_seq(rng, READ_LEN)
        a.query_qualities = pysam.qualitystring_to_array('I' * READ_LEN)
        a.is_paired = True
        a.is_unmapped = True
        a.mate_is_unmapped = True
        a.is_read1 = is_r1
        a.is_read2 = not is_r1
        a.reference_id = -1
        a.reference_start = -1
        a.next_reference_id = -1
        a.next_reference_start = -1
        a.set_tag('SM', sample)
        a.set_tag('RX', umi)
        a.set_tag('MX', 'scCHIC384C8U3')
        a.set_tag('LY', 'simlib')
        reads.append(a)
    return reads


def simulate_library(rng, path, contigs, boundaries, n_molecules, n_unmapped):
    """ Write a coordinate sorted, indexed library, returns the truth: {query name: dict}

    boundaries: coordinates next to which many cut sites are placed (the bin edges of the tilings which are tried)
    """
    header = pysam.AlignmentHeader.from_dict({
        'HD': {'VN': '1.6', 'SO': 'coordinate'},
        'SQ': [{'SN': name, 'LN': length} for name, length in contigs]})
    cells = [f'cell_{i}' for i in range(rng.randint(1, 4))]
    truth = {}
    reads = []
    used_sites = set()
    serial = 0
    for m in range(n_molecules):
        contig_id = rng.randrange(len(contigs))
        contig, contig_len = contigs[contig_id]
        reverse = rng.random() < 0.5
        sample = rng.choice(cells)
        mode = rng.random()
        # Anchor: the outer coordinate of read 1 (start of a forward read, end of a reverse read)
        if mode < 0.55 and boundaries:
            anchor = rng.choice(boundaries) % contig_len + rng.randint(-4, 4)
        elif mode < 0.62:
            anchor = 0 if not reverse else contig_len  # flush with the contig edge, the cut site is outside the contig
        elif mode < 0.69:
            anchor = rng.choice((1, 2, 3, contig_len - 1, contig_len - 2, contig_len - 3))
        else:
            anchor = rng.randint(0, contig_len)
        n_frag = rng.choice((1, 1, 1, 2, 2, 3, 5))
        kind = rng.choices(('ok', 'qcfail', 'orientation'), (0.86, 0.08, 0.06))[0]
        if kind != 'ok':
            n_frag = 1
        umi = random_seq(rng, 8)
        if not reverse:
            anchor = min(max(anchor, 0), contig_len - MAX_FRAGMENT)
            site = anchor - 2
        else:
            anchor = max(min(anchor, contig_len), MAX_FRAGMENT)
            site = anchor + 1
        key = (contig, site, reverse, sample)
        if key in used_sites:
            continue  # keep one molecule per (cell, site, strand): the truth stays unambiguous
        used_sites.add(key)
        for f in range(n_frag):
            size = rng.randint(READ_LEN + 5, MAX_FRAGMENT)
            if not reverse:
                r1_start = anchor
                r2_start = anchor + size - READ_LEN
            else:
                r1_start = anchor - READ_LEN
                r2_start = anchor - size
            frag_umi = umi
            if f == 1 and rng.random() < 0.4:  # one sequencing error in the umi of at most one fragment
                i = rng.randrange(len(umi))
                frag_umi = umi[:i] + rng.choice([c for c in 'ACGT' if c != umi[i]]) + umi[i + 1:]
            name = f'q{serial:06d}_m{m}'
            serial += 1
            reads += make_pair(header, name, contig_id, r1_start, r2_start, reverse, sample, frag_umi, rng,
                               qcfail=(kind == 'qcfail'), same_orientation=(kind == 'orientation'))
            truth[name] = {'contig': contig, 'site': site, 'reverse': reverse, 'n_frag': n_frag, 'kind': kind,
                           'molecule': m, 'sample': sample,
                           'first_start': min(r1_start, r2_start) if kind != 'ok' else None,
                           'r1_start': r1_start}
    for u in range(n_unmapped):
        name = f'u{u:05d}'
        reads += make_unmapped_pair(header, name, rng.choice(cells), random_seq(rng, 8), rng)
        truth[name] = {'contig': None, 'kind': 'unmapped'}

    mapped = [r for r in reads if not r.is_unmapped]
    unmapped = [r for r in reads if r.is_unmapped]
    mapped.sort(key=lambda r: (r.reference_id, r.reference_start))
    with pysam.AlignmentFile(path, 'wb', header=header) as out:
        for r in mapped + unmapped:
            out.write(r)
    pysam.index(path)
    return truth


# ---------------------------------------------------------------------------------------------------------------------
# Running the taggers
# ---------------------------------------------------------------------------------------------------------------------
def iterator_args():
    return {
        'query_name_flagger': None,
        'molecule_class': singlecellmultiomics.molecule.CHICMolecule,
        'fragment_class': singlecellmultiomics.fragment.CHICFragment,
        'molecule_class_args': {'umi_hamming_distance': 1, 'reference': None},
        'fragment_class_args': {'read_group_format': 0, 'umi_hamming_distance': 1},
        'yield_invalid': True,
        'yield_overflow': True,
        'start': None, 'end': None, 'contig': None,
        'every_fragment_as_molecule': False,
        'skip_contigs': set(),
        'progress_callback_function': None,
        'pooling_method': 1,
        'perform_allele_clustering': False,
    }


@contextlib.contextmanager
def captured():
    """ Capture what python prints (sys.stdout / sys.stderr) """
    out = io.StringIO()
    with contextlib.redirect_stdout(out), contextlib.redirect_stderr(out):
        yield out


def run_serial(in_path, out_path):
    with captured():
        tm.tag_multiome_single_thread(in_path, out_path, molecule_iterator=MoleculeIterator,
                                      molecule_iterator_args=iterator_args())
    return out_path


def run_multi(in_path, out_path, tmp, **kwargs):
    with captured() as log:
        tm.tag_multiome_multi_processing(in_path, out_path, molecule_iterator=MoleculeIterator,
                                         molecule_iterator_args=iterator_args(), temp_folder_root=tmp,
                                         additional_args={}, **kwargs)
    return log.getvalue()


def record_key(read):
    return read.query_name, 1 if read.is_read1 else 2


def summarise(read):
    """ Everything the property constrains for one record """
    core = (read.reference_name, read.reference_start, read.cigarstring, read.query_sequence,
            tuple(read.query_qualities), read.mapping_quality, read.next_reference_name, read.next_reference_start,
            read.template_length)
    tags = tuple((t, read.get_tag(t) if read.has_tag(t) else None) for t in MOLECULE_TAGS)
    return core, read.flag, tags


def molecule_identifier(read):
    for tag in ('mi', ):  # (ix of the parallel tagger is an index within one segment, not a molecule identifier)
        if read.has_tag(tag):
            return tag, read.get_tag(tag)
    return None, None


def load(path):
    """ records {key: summary}, partition into molecules, coordinates in file order """
    records = {}
    order = []
    groups = defaultdict(set)
    with pysam.AlignmentFile(path) as f:
        for read in f:
            k = record_key(read)
            if k in records:
                records[(k[0], k[1], 'dup%d' % len(records))] = summarise(read)
                fail(f'{path}: record {k} written more than once')
                continue
            records[k] = summarise(read)
            order.append((read.reference_id if read.reference_id >= 0 else 1 << 30, read.reference_start))
            groups[molecule_identifier(read)].add(k)
    return records, order, groups


def partition(groups, with_identifier=True):
    return sorted(sorted(g) for g in groups.values())


def compare(label, serial, other, check_partition=True):
    s_records, _, s_groups = serial
    o_records, o_order, o_groups = other
    if o_order != sorted(o_order):
        fail(f'{label}: output is not coordinate sorted')
    missing = set(s_records) - set(o_records)
    extra = set(o_records) - set(s_records)
    if missing:
        fail(f'{label}: {len(missing)} records of the serial pass are missing, e.g. {sorted(missing)[:3]}')
    if extra:
        fail(f'{label}: {len(extra)} records are not in the serial pass, e.g. {sorted(extra)[:3]}')
    for k in set(s_records) & set(o_records):
        if s_records[k] != o_records[k]:
            fail(f'{label}: record {k} differs\n   serial   {s_records[k][1:]}\n   parallel {o_records[k][1:]}')
            break
    return not (missing or extra)


def check_truth(label, data, truth):
    """ The independent oracle: flags and molecule level tags follow from the simulation """
    records, _, groups = data
    if set(k[0] for k in records) != set(truth):
        fail(f'{label}: query names differ from the simulated ones')
    per_molecule = defaultdict(list)
    for (name, mate), (core, flag, tags) in records.items():
        t = truth[name]
        tags = dict(tags)
        if t['kind'] == 'unmapped':
            if not flag & 4:
                fail(f'{label}: {name} should be unmapped')
            continue
        if t['kind'] == 'ok':
            if tags['DS'] != t['site']:
                fail(f'{label}: {name} cut site {tags["DS"]}, expected {t["site"]}')
            if bool(tags['RS']) != t['reverse']:
                fail(f'{label}: {name} strand {tags["RS"]}, expected {t["reverse"]}')
            if tags['af'] != t['n_frag'] or tags['TF'] != t['n_frag']:
                fail(f'{label}: {name} fragment counts af={tags["af"]} TF={tags["TF"]}, expected {t["n_frag"]}')
            if flag & 512:
                fail(f'{label}: {name} is qc failed')
            if bool(flag & 1024) != (tags['RC'] > 0):
                fail(f'{label}: {name} duplicate bit does not follow the rank')
            per_molecule[t['molecule']].append((mate, tags['RC']))
        else:
            if not flag & 512:
                fail(f'{label}: {name} ({t["kind"]}) should be qc failed')
            if flag & 1024:
                fail(f'{label}: {name} ({t["kind"]}) should not be a duplicate')
    for m, ranks in per_molecule.items():
        for mate in (1, 2):
            got = sorted(r for mt, r in ranks if mt == mate)
            if got != list(range(len(got))):
                fail(f'{label}: molecule {m} ranks of mate {mate} are {got}')


def check_molecule_partition(label, data, truth):
    """ The per run identifiers may differ, the grouping of the records into molecules may not """
    _, _, groups = data
    for (tag, identifier), members in groups.items():
        if tag is None:
            continue
        molecules = set((truth[name]['kind'], truth[name].get('molecule', name)) for name, _ in members)
        if len(molecules) != 1:
            fail(f'{label}: identifier {tag}={identifier} spans several simulated molecules {sorted(molecules)[:3]}')


def owner_site(t, contig_len):
    """ Coordinate which decides what job writes the molecule """
    if t['kind'] in ('ok', 'qcfail'):
        site = t['site']  # (a qc failed pair is not assigned to a molecule, its cut site is still determined)
    else:
        site = t['r1_start']  # no cut site can be determined, the position of read 1 is used
    return min(max(site, 0), contig_len - 1)


def run_tiling_api(label, in_path, out_path, tmp, contigs, truth, rng, bin_size, margin, job_size):
    """ The region tiling API with a random completion order; returns the tiling """
    regions = list(blacklisted_binning_contigs(contig_length_resource=in_path, bin_size=bin_size,
                                               fragment_size=margin, blacklist_path=None,
                                               contig_whitelist=[c for c, _ in contigs]))
    lengths = dict(contigs)
    # The bins tile every contig, fetch windows have the requested margin
    per_contig = defaultdict(list)
    for contig, start, end, fetch_start, fetch_end in regions:
        per_contig[contig].append((start, end))
        if fetch_start > max(0, start - margin) or fetch_end < min(lengths[contig], end + margin):
            fail(f'{label}: fetch window of {contig}:{start}-{end} is smaller than the margin')
    for contig, length in contigs:
        bins = sorted(per_contig[contig])
        if not bins or bins[0][0] != 0 or bins[-1][1] != length or any(
                a[1] != b[0] for a, b in zip(bins, bins[1:])):
            fail(f'{label}: the bins do not tile {contig}')
    jobs = [[('*', None, None, None, None)]] + [j for j in bp_chunked(regions, job_size)]
    args = iterator_args()
    for prune in ('start', 'end', 'contig', 'progress_callback_function'):
        del args[prune]
    job_dir = tempfile.mkdtemp(dir=tmp)
    tasks = list(generate_tasks(input_bam_path=in_path, temp_folder=job_dir, job_gen=jobs,
                                iteration_args={'molecule_iterator_args': args,
                                                'molecule_iterator_class': MoleculeIterator},
                                additional_args={}, max_time_per_segment=None))
    order = list(range(len(tasks)))
    rng.shuffle(order)  # completion order
    written = []
    seen = Counter()
    with captured():
        for i in order:
            bam, meta = run_tagging_tasks(tasks[i])
            if bam is None:
                continue
            written.append(bam)
            # Exactly one job writes a molecule: the one whose bin contains its cut site
            with pysam.AlignmentFile(bam) as f:
                for read in f:
                    seen[record_key(read)] += 1
                    t = truth[read.query_name]
                    if t['kind'] == 'unmapped':
                        if jobs[i][0][0] != '*':
                            fail(f'{label}: unmapped read {read.query_name} written by a region job')
                        continue
                    site = owner_site(t, lengths[t['contig']])
                    if not any(c == t['contig'] and s <= site < e for c, s, e, _, _ in jobs[i]):
                        fail(f'{label}: {read.query_name} (site {t["contig"]}:{site}) written by job {i} {jobs[i][:2]}')
    multiple = [k for k, n in seen.items() if n != 1]
    if multiple:
        fail(f'{label}: records written by more than one job: {multiple[:3]}')
    header_bam = os.path.join(job_dir, 'header.bam')
    with pysam.AlignmentFile(in_path) as f, pysam.AlignmentFile(header_bam, 'wb', header=f.header) as o:
        pass
    pysam.index(header_bam)
    rng.shuffle(written)
    with captured():
        merge_bams([header_bam] + written, out_path, threads=1)
    shutil.rmtree(job_dir, ignore_errors=True)


def sam_text(path):
    lines = []
    with pysam.AlignmentFile(path) as f:
        for read in f:
            lines.append(read.to_string())
    return '\n'.join(lines)


def normalise_log(text, tmp):
    text = text.replace(tmp, '<TMP>')
    text = re.sub(r'[0-9a-f]{8}-[0-9a-f]{4}-[0-9a-f]{4}-[0-9a-f]{4}-[0-9a-f]{12}', '<UUID>', text)
    return text


# ---------------------------------------------------------------------------------------------------------------------
def main():
    global N_INPUTS
    n_libraries = int(os.environ.get('DEMO_LIBRARIES', 14))
    tmp = tempfile.mkdtemp(prefix='demo_c08_')
    try:
        for lib in range(n_libraries):
            rng = random.Random(1000 + lib)
            n_contigs = rng.randint(2, 4)
            contigs = [(f'chr{i + 1}', rng.choice((3_000, 9_973, 20_000, 40_000, 120_000))) for i in range(n_contigs)]
            if lib % 3 == 0:
                contigs[-1] = ('chrBig', 130_000)  # larger than the small contig threshold of contig-per-process mode
            total_length = sum(length for _, length in contigs)
            bin_sizes = [rng.choice((700, 1_000, 2_500, 4_096, 10_000, 33_333, 50_000, 1_000_000)) for _ in range(3)]
            boundaries = [b * k for b in bin_sizes for k in range(1, 6)]
            lib_path = os.path.join(tmp, f'lib{lib}.bam')
            truth = simulate_library(rng, lib_path, contigs, boundaries, n_molecules=rng.randint(40, 160),
                                     n_unmapped=rng.choice((0, 3, 11)))
            serial_path = os.path.join(tmp, f'lib{lib}.serial.bam')
            run_serial(lib_path, serial_path)
            serial = load(serial_path)
            check_truth(f'lib{lib} serial', serial, truth)
            check_molecule_partition(f'lib{lib} serial', serial, truth)
            digest(f'lib{lib} serial', sam_text(serial_path))

            configurations = []
            # tag_multiome_multi_processing: worker counts, tilings, contig-per-process
            for i, bin_size in enumerate(bin_sizes):
                margin = rng.choice((MAX_FRAGMENT, MAX_FRAGMENT + 1, 1_000, 5_000))
                job_size = max(rng.choice((bin_size, 3 * bin_size, 20_000, 10_000_000)), total_length // 40)
                workers = 1 + (lib * 3 + i) % 8
                configurations.append(('multi', dict(bp_per_segment=bin_size, fragment_size=margin,
                                                     bp_per_job=job_size, n_threads=workers, use_pool=True)))
                configurations.append(('multi', dict(bp_per_segment=bin_size, fragment_size=margin,
                                                     bp_per_job=job_size, n_threads=1, use_pool=False,
                                                     job_bed_file=os.path.join(tmp, f'lib{lib}.jobs{i}.bed'))))
            configurations.append(('multi', dict(bp_per_segment=1000, fragment_size=1000, bp_per_job=1000,
                                                 n_threads=1 + lib % 8, use_pool=True, one_contig_per_process=True)))
            configurations.append(('multi', dict(bp_per_segment=1000, fragment_size=1000, bp_per_job=1000,
                                                 n_threads=1, use_pool=False, one_contig_per_process=True)))
            # region tiling API, random completion orders
            for _ in range(14):
                bin_size = rng.choice(bin_sizes + [rng.randint(500, 60_000)])
                configurations.append(('api', dict(bin_size=bin_size,
                                                   margin=rng.choice((MAX_FRAGMENT, 450, 2_000, 100_000)),
                                                   job_size=max(rng.choice((1, bin_size, 5 * bin_size, 10 ** 9)),
                                                                total_length // 30))))

            for c, (kind, kwargs) in enumerate(configurations):
                N_INPUTS += 1
                label = f'lib{lib} run{c} {kind} ' + ' '.join(
                    f'{k}={v}' for k, v in kwargs.items() if k != 'job_bed_file')
                out_path = os.path.join(tmp, f'lib{lib}.run{c}.bam')
                if kind == 'multi':
                    log = run_multi(lib_path, out_path, tmp, **kwargs)
                    if not kwargs['use_pool']:
                        # deterministic runs: raw outputs go into the behaviour digest
                        digest(label + ' log', normalise_log(log, tmp))
                        digest(label + ' records', sam_text(out_path))
                        if kwargs.get('job_bed_file'):
                            with open(kwargs['job_bed_file']) as f:
                                digest(label + ' job bed', f.read())
                else:
                    run_tiling_api(label, lib_path, out_path, tmp, contigs, truth, rng, **kwargs)
                data = load(out_path)
                compare(label, serial, data)
                check_truth(label, data, truth)
            print(f'library {lib}: {len(truth)} read pairs, {len(configurations)} parallel runs checked', flush=True)
    finally:
        shutil.rmtree(tmp, ignore_errors=True)

    print(f'{N_INPUTS} parallel runs compared with the serial pass')
    print('BEHAVIOUR DIGEST', DIGEST.hexdigest())
    if FAILURES:
        print(f'PROPERTY VIOLATED ({len(FAILURES)} differences)')
        sys.exit(1)
    print('PROPERTY HOLDS')


if __name__ == '__main__':
    main()
