#!/usr/bin/env python3
"""Independent check of property C16 (feature lookups return exactly the
overlapping features after any add history) plus a digest over all raw outputs.

Prints "PROPERTY HOLDS" and exits 0 when every lookup agrees with a brute force
oracle. Prints "BEHAVIOUR DIGEST <sha256>" over everything the code under test
returned / printed / raised, in the order and wording it was produced.
"""
import os
import sys

# Set iteration order of tuples holding strings depends on the hash seed: pin it
# so that the digest is reproducible from run to run.
if os.environ.get('PYTHONHASHSEED') != '0':
    os.environ['PYTHONHASHSEED'] = '0'
    os.execv(sys.executable, [sys.executable] + sys.argv)

import collections
import contextlib
import hashlib
import io
import random
import tempfile

import pysam

from singlecellmultiomics.features import FeatureContainer
from singlecellmultiomics.fragment import Fragment
from singlecellmultiomics.molecule.featureannotatedmolecule import FeatureAnnotatedMolecule

CONTIGS = ['chr1', 'chr2', 'chrX']
HEADER = pysam.AlignmentHeader.from_dict({
    'HD': {'VN': '1.0'},
    'SQ': [{'SN': c, 'LN': 1000000} for c in CONTIGS + ['chrEmpty']]})

digest = hashlib.sha256()
failures = []
n_checks = 0


def record(label, value):
    digest.update(('%s\t%s\n' % (label, value)).encode())


def fail(msg):
    failures.append(msg)
    if len(failures) <= 20:
        print('VIOLATION', msg)


# --------------------------------------------------------------------------
# oracle: plain scan over the list of everything that was ever added
# --------------------------------------------------------------------------
def oracle_at(added, contig, pos, strand):
    return collections.Counter(
        f[1:] for f in added
        if f[0] == contig and f[1] <= pos <= f[2] and (strand is None or f[4] == strand))


def oracle_between(added, contig, a, b, strand):
    return collections.Counter(
        f[1:] for f in added
        if f[0] == contig and max(a, f[1]) <= min(b, f[2]) and (strand is None or f[4] == strand))


def check_multiset(label, got, expected):
    """got: list as returned; must hold every expected feature, once per added copy"""
    global n_checks
    n_checks += 1
    record(label, repr(list(got)))
    if collections.Counter(got) != expected:
        fail('%s: got %r expected %r' % (label, sorted(map(repr, got)), sorted(map(repr, expected.elements()))))


def check_set(label, got, expected):
    """got: collection of distinct features; must equal the set of expected features"""
    global n_checks
    n_checks += 1
    got = list(got)
    record(label, repr(got))
    if len(got) != len(set(got)) or set(got) != set(expected):
        fail('%s: got %r expected %r' % (label, sorted(map(repr, got)), sorted(map(repr, expected))))


# --------------------------------------------------------------------------
# input generation
# --------------------------------------------------------------------------
def make_feature(rng, k, style):
    contig = rng.choice(CONTIGS if style != 'single' else CONTIGS[:1])
    if style == 'nested':
        centre = rng.choice([500, 2000])
        half = rng.randint(0, 300)
        start, end = max(0, centre - half), centre + rng.randint(0, 300)
    elif style == 'points':
        start = rng.randint(0, 60)
        end = start
    elif style == 'dense':
        start = rng.randint(0, 80)
        end = start + rng.choice([0, 0, 1, 2, 5, 40, 200])
    else:
        start = rng.randint(0, 5000)
        end = start + rng.choice([0, 1, 10, 100, 1000, 4000])
    strand = rng.choice(['+', '-', '+', '-', None])
    # the strand is part of the name: tuples with None and str strands are never compared on the strand
    name = 'f%d%s' % (k, {'+': 'p', '-': 'm', None: 'n'}[strand])
    gene = 'G%d' % rng.randint(0, 6)
    data = (('type', rng.choice(['exon', 'exon', 'intron'])),
            ('gene_id', gene),
            ('transcript_id', 'T' + gene[1:] + rng.choice('ab')),
            ('exon_id', 'E%d' % k),
            ('gene_name', rng.choice(['zeta', 'alpha', 'Mid', 'beta', 'omega']) + gene[1:]))
    return (contig, start, end, name, strand, data)


def make_read(rng, added, idx):
    contig = rng.choice(CONTIGS)
    on_contig = [f for f in added if f[0] == contig]
    anchor = rng.choice(on_contig)[1] if on_contig and rng.random() < 0.8 else rng.randint(0, 6000)
    read = pysam.AlignedSegment(HEADER)
    read.query_name = 'read%d' % idx
    read.reference_id = HEADER.get_tid(contig)
    read.reference_start = max(0, anchor - rng.randint(0, 30))
    cigar = rng.choice(['20M', '8M40N12M', '5M2D5M300N6M1I4M', '1M', '3S10M100N7M'])
    read.cigarstring = cigar
    qlen = read.infer_query_length()
    read.query_sequence = 'A' * qlen
    read.query_qualities = pysam.qualitystring_to_array('I' * qlen)
    read.flag = rng.choice([0, 16])
    read.mapping_quality = 60
    for tag, value in (('SM', 'cellA'), ('RX', 'ACG'), ('BC', 'AAAA'), ('MX', 'scCS2')):
        read.set_tag(tag, value)
    return read


def query_points(rng, added):
    pts = {-1000, -1, 0, 1, 10 ** 7}
    for f in rng.sample(added, min(len(added), 12)):
        pts.update((f[1] - 1, f[1], f[1] + 1, f[2] - 1, f[2], f[2] + 1, (f[1] + f[2]) // 2))
    pts.update(rng.randint(-50, 6500) for _ in range(6))
    return sorted(pts)


def run_queries(label, fc, added, rng, with_reads):
    pts = query_points(rng, added)
    for contig in CONTIGS + ['chrEmpty', 'unknown_contig']:
        for pos in rng.sample(pts, min(len(pts), 14)):
            for strand in (None, '+', '-'):
                exp = oracle_at(added, contig, pos, strand)
                check_multiset('%s at %s:%s %s' % (label, contig, pos, strand),
                               fc.findFeaturesAt(contig, pos, strand), exp)
            for optim in ('nb', 'optim'):  # the variants the property names
                check_set('%s at[%s] %s:%s' % (label, optim, contig, pos),
                          fc.findFeaturesAt(contig, pos, None, optim), oracle_at(added, contig, pos, None))
        for _ in range(8):
            a = rng.choice(pts)
            b = a + rng.choice([0, 0, 1, 3, 50, 700, 10 ** 6])
            strand = rng.choice([None, '+', '-'])
            check_set('%s between %s:%s-%s %s' % (label, contig, a, b, strand),
                      fc.findFeaturesBetween(contig, a, b, strand), oracle_between(added, contig, a, b, strand))
    if not with_reads:
        return
    for idx in range(4):
        read = make_read(rng, added, idx)
        contig = read.reference_name
        strand = rng.choice([None, '+', '-'])
        bases = [ref for q, ref in read.get_aligned_pairs(matches_only=True)]
        exp = set()
        for pos in bases:
            exp.update(oracle_at(added, contig, pos, strand))
        for method in (0, 1):
            check_set('%s read%d method%d %s' % (label, idx, method, strand),
                      fc.findFeaturesAtPysamAlign(read, strand=strand, method=method), exp)
        # molecule level annotation
        stranded = rng.choice([None, False, True])
        for method in (0, 1):
            molecule = FeatureAnnotatedMolecule(Fragment([read, None]), features=fc, stranded=stranded)
            mstrand = None if stranded is None else '+-'[(not molecule.strand if stranded else molecule.strand)]
            molecule.annotate(method=method)
            mexp = set()
            for pos in bases:
                mexp.update(oracle_at(added, contig, pos, mstrand))
            global n_checks
            n_checks += 1
            got_meta = set(k for k, v in molecule.hits.items() if len(v))
            record('%s molecule%d method%d hits' % (label, idx, method), sorted(map(repr, got_meta)))
            if got_meta != set(f[4] for f in mexp):
                fail('%s molecule %d method %d: hits %r expected %r' % (label, idx, method, got_meta, mexp))
            if method == 0:
                got_locs = set((s, e, k) for k, v in molecule.hits.items() for c, (s, e) in v)
                if got_locs != set((f[0], f[1], f[4]) for f in mexp):
                    fail('%s molecule %d: locations %r expected %r' % (label, idx, got_locs, mexp))
                molecule.set_intron_exon_features()
                molecule.write_tags()
                tags = dict(read.get_tags())
                for tag in ('GN', 'EX', 'IN', 'gn', 'DB'):
                    record('%s molecule%d tag %s' % (label, idx, tag), tags.get(tag))
                metas = [dict(f[4]) for f in mexp]
                exp_genes = set(m['gene_id'] for m in metas)
                exp_exons = set(m['exon_id'] for m in metas if m['type'] == 'exon')
                exp_introns = set(m['gene_id'] for m in metas if m['type'] == 'intron')
                exp_names = set(m['gene_name'] for m in metas if m['type'] == 'exon')

                def as_set(value, sep):
                    return set(value.split(sep)) if value else set()
                if as_set(tags.get('GN'), ',') != exp_genes or as_set(tags.get('EX'), ',') != exp_exons \
                        or as_set(tags.get('IN'), ',') != exp_introns or as_set(tags.get('gn'), ';') != exp_names:
                    fail('%s molecule %d: tags %r do not report exactly %r' % (label, idx, tags, mexp))
                db_exons = set()
                for part in (tags.get('DB') or '').split(';'):
                    if part:
                        db_exons.update(part.split(':')[1].split(','))
                if db_exons != exp_exons:
                    fail('%s molecule %d: DB tag %r expected exons %r' % (label, idx, tags.get('DB'), exp_exons))


def add_all(fc, added, feats):
    for contig, start, end, name, strand, data in feats:
        fc.addFeature(contig, start, end, name, strand=strand, data=data)
        added.append((contig, start, end, name, strand, data))


def scenario(seed):
    rng = random.Random(seed)
    style = ['nested', 'points', 'dense', 'spread', 'single'][seed % 5]
    n = rng.choice([1, 2, 3, 5, 10, 25, 60, 200]) if seed % 7 else 1
    fc = FeatureContainer()
    added = []
    first = [make_feature(rng, k, style if style != 'single' else 'dense') for k in range(n)]
    # identical copies
    first += [rng.choice(first) for _ in range(rng.randint(0, 4))]
    rng.shuffle(first)
    add_all(fc, added, first[:200])
    fc.sort()
    run_queries('s%d/a' % seed, fc, added, rng, with_reads=(seed % 3 == 0))
    # second round: more features (incl. copies of old ones, enclosing and zero length ones), re-index, query again
    second = [make_feature(rng, 1000 + k, rng.choice(['nested', 'dense', 'points', 'spread']))
              for k in range(rng.randint(1, 12))]
    second.append(rng.choice(added))
    old = rng.choice(added)
    second.append((old[0], 0, 9000, 'outer%d' % seed, '+', (('type', 'intron'), ('gene_id', 'G9'))))
    second.append((old[0], old[1], old[1], 'dot%d' % seed, '-', (('type', 'intron'), ('gene_id', 'G8'))))
    add_all(fc, added, second)
    fc.sort()
    if seed % 4 == 0:
        fc.sort()  # re-indexing twice must not matter
    run_queries('s%d/b' % seed, fc, added, rng, with_reads=(seed % 3 == 0))
    if seed % 6 == 0:
        third = [make_feature(rng, 2000 + k, 'dense') for k in range(3)]
        add_all(fc, added, third)
        fc.sort()
        run_queries('s%d/c' % seed, fc, added, rng, with_reads=False)
    record('s%d repr' % seed, repr(fc))
    record('s%d len' % seed, len(fc))
    record('s%d extra attributes' % seed, sorted(k for k in vars(fc) if k.startswith('index_') or k.endswith('_count')))
    return fc


def diagnostics():
    """Wording of messages: not constrained by the property, but observable"""
    fc = FeatureContainer(verbose=True)
    fc.debug = True
    out = io.StringIO()
    with contextlib.redirect_stdout(out):
        fc.addFeature('chr1', 10, 20, 'a', strand='+', data='x')
        fc.addFeature('chr1', 12, 14, 'b', strand='-', data='y')
        fc.sort()
        r1 = fc.findFeaturesAt('chr1', 13)
        r2 = fc.findFeaturesAt('chr7', 13)
        r3 = fc.findFeaturesBetween('chr1', 0, 100)
    record('debug output', out.getvalue())
    record('diag results', repr((r1, r2, r3)))
    if collections.Counter(r1) != collections.Counter([(10, 20, 'a', '+', 'x'), (12, 14, 'b', '-', 'y')]) \
            or r2 != [] or set(r3) != set(r1) or len(r3) != 2:
        fail('diagnostic container returned %r %r %r' % (r1, r2, r3))
    for bad in ('*', '.', 'plus'):
        try:
            fc.addFeature('chr1', 1, 2, 'bad', strand=bad)
            fail('invalid strand %r accepted' % bad)
        except ValueError as e:
            record('invalid strand message', str(e))
    record('empty repr', repr(FeatureContainer()))


def main():
    with tempfile.TemporaryDirectory() as tmp:
        os.chdir(tmp)
        n_scenarios = 300
        for seed in range(n_scenarios):
            scenario(seed)
        diagnostics()
    print('%d feature sets, %d lookups compared with the oracle' % (n_scenarios, n_checks))
    print('BEHAVIOUR DIGEST %s' % digest.hexdigest())
    if failures:
        print('PROPERTY VIOLATED (%d mismatches)' % len(failures))
        return 1
    print('PROPERTY HOLDS')
    return 0


if __name__ == '__main__':
    sys.exit(main())
