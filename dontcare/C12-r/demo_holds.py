#!/usr/bin/env python
"""Independent check of property C12 (binned molecule counting is independent of
how the genome is split into jobs) + a digest over raw observable behaviour.

Prints "PROPERTY HOLDS" and exits 0 when every configuration matches the oracle.
Prints "BEHAVIOUR DIGEST <sha256>" over the raw outputs (job lists, matrices,
outcomes of calls outside the quantified domain).
"""
import hashlib
import os
import random
import shutil
import signal
import sys
import tempfile
from collections import Counter

import pysam

from singlecellmultiomics.bamProcessing.bamBinCounts import (
    generate_commands, obtain_counts, count_fragments_binned)

# header order is deliberately not sorted by length and contains a tie
CONTIGS = [('chrA', 3000), ('chrB', 12000), ('chrC', 3000), ('chrD', 7000), ('chrE', 500)]
CELLS = ['cell_%d' % i for i in range(5)]
ALLELES = ['a1', 'a2', None]

DIGEST = hashlib.sha256()
TMP = None


def feed(*things):
    for t in things:
        DIGEST.update(repr(t).replace(TMP, '<TMP>').encode())
        DIGEST.update(b'\n')


def build_bam(path, seed, max_site_distance, boundary_unit):
    """Sorted+indexed BAM. Sites (DS) lie at most max_site_distance outside the
    aligned span of the read; max_site_distance==0 -> site inside the span."""
    rng = random.Random(seed)
    header = {'HD': {'VN': '1.6', 'SO': 'coordinate'},
              'SQ': [{'SN': c, 'LN': l} for c, l in CONTIGS]}
    records = []
    n = 0
    for tid, (contig, length) in enumerate(CONTIGS):
        n_reads = rng.randint(40, 90) if length > 600 else rng.randint(5, 12)
        for _ in range(n_reads):
            rlen = rng.choice([20, 36, 75, 120])
            rlen = min(rlen, length - 1)
            mode = rng.random()
            if mode < 0.35:
                # put the site exactly on a multiple of boundary_unit (job / bin edges)
                k = rng.randint(0, (length - 1) // boundary_unit)
                site = min(k * boundary_unit - rng.choice([0, 0, 1]), length - 1)
                site = max(site, 0)
                # read placed such that the site is first base, last base or far inside
                how = rng.choice(['first', 'last', 'inside'])
                if how == 'first':
                    start = site
                elif how == 'last':
                    start = site - rlen + 1
                else:
                    start = site - rng.randint(0, rlen - 1)
            else:
                start = rng.randint(0, length - rlen)
                site = None
            start = max(0, min(start, length - rlen))
            end = start + rlen
            if site is None or not (start <= site < end):
                if site is None or max_site_distance == 0:
                    site = rng.choice([start, end - 1, rng.randint(start, end - 1)])
                # else: keep boundary site only when near enough
            if max_site_distance and rng.random() < 0.4:
                d = rng.randint(1, max_site_distance)
                site = rng.choice([start - d, end - 1 + d])
            if not (start - max_site_distance <= site <= end - 1 + max_site_distance):
                site = start
            site = max(0, min(site, length - 1))

            a = pysam.AlignedSegment()
            n += 1
            a.query_name = 'r%06d' % n
            a.reference_id = tid
            a.reference_start = start
            a.query_sequence = 'A' * rlen
            a.query_qualities = pysam.qualitystring_to_array('I' * rlen)
            a.cigartuples = [(0, rlen)]
            flag_kind = rng.random()
            a.is_paired = True
            if flag_kind < 0.72:
                a.is_read1 = True
            elif flag_kind < 0.9:
                a.is_read2 = True
            else:
                a.is_paired = False  # single end, not flagged as read 1
            a.is_reverse = rng.random() < 0.5
            a.is_duplicate = rng.random() < 0.15
            a.is_qcfail = rng.random() < 0.1
            a.mapping_quality = rng.choice([0, 3, 19, 20, 49, 50, 51, 60, 60, 60, 255])
            tags = []
            if rng.random() < 0.93:
                tags.append(('SM', rng.choice(CELLS)))
            # else: no sample tag
            if rng.random() < 0.85 or site != start:
                tags.append(('DS', site))
            else:
                site = start  # no DS tag: site is the start of the alignment
            mp = rng.choice(['unique', 'unique', 'unique', None, 'multi', 'ambiguous'])
            if mp is not None:
                tags.append(('mp', mp))
            allele = rng.choice(ALLELES)
            if allele is not None:
                tags.append(('DA', allele))
            a.set_tags(tags)
            records.append((tid, start, a))
    records.sort(key=lambda x: (x[0], x[1]))
    with pysam.AlignmentFile(path, 'wb', header=header) as out:
        for _, _, a in records:
            out.write(a)
    pysam.index(path)


def oracle(path, bin_size, min_mq, key_tags):
    """Own implementation of the statement: walk over every record once."""
    lengths = dict(CONTIGS)
    expected = {}
    total = 0
    with pysam.AlignmentFile(path) as f:
        for r in f.fetch(until_eof=True):
            if not (r.flag & 0x40):
                continue
            if r.flag & 0x400 or r.flag & 0x200:
                continue
            t = dict(r.get_tags())
            if 'mp' in t and t['mp'] != 'unique':
                continue
            if min_mq is not None and r.mapping_quality < min_mq:
                continue
            total += 1
            site = t.get('DS', r.reference_start)
            contig = r.reference_name
            b0 = (site // bin_size) * bin_size
            b1 = min(b0 + bin_size, lengths[contig])
            assert b0 <= site < b1
            key = (contig, b0, b1)
            if key_tags:
                key = tuple(t.get(k) for k in key_tags) + key
            cell = t.get('SM', 'bulk')
            expected.setdefault(key, Counter())[cell] += 1
    return {k: dict(v) for k, v in expected.items()}, total


def canonical(counts):
    return sorted(((tuple('' if x is None else x for x in k[:-3]) + k[-3:]),
                   sorted(v.items())) for k, v in counts.items())


def matrix_total(counts):
    return sum(sum(v.values()) for v in counts.values())


class Timeout(Exception):
    pass


def _alarm(*a):
    raise Timeout()


def outcome(fn):
    """Run fn, describe what happened (value or exception class + message)."""
    signal.signal(signal.SIGALRM, _alarm)
    signal.alarm(60)
    try:
        return ('ok', fn())
    except Timeout:
        return ('timeout',)
    except BaseException as e:  # noqa
        return ('raised', type(e).__name__, str(e)[:80] if not '0x' in str(e) else '')
    finally:
        signal.alarm(0)


def main():
    global TMP
    TMP = tempfile.mkdtemp(prefix='c12demo_')
    failures = []
    n_checked = 0
    try:
        rng = random.Random(20260928)
        bams = []
        for seed, (dist, unit) in enumerate([(0, 100), (0, 250), (0, 1000), (300, 100), (300, 500), (40, 37)]):
            path = os.path.join(TMP, 'in_%d.bam' % seed)
            build_bam(path, seed, dist, unit)
            bams.append((path, dist))

        configs = []
        for path, dist in bams:
            for bin_size in (37, 100, 250, 1000, 5000, 20000):
                max_jobs_bins = max(1, 12000 // bin_size + 1)
                bpjs = sorted({1, 2, 3, 7, max_jobs_bins, max_jobs_bins + 5})
                for bpj in bpjs:
                    if bin_size * bpj < 200:   # keep the number of jobs reasonable
                        continue
                    mfs_options = [m for m in (0, 50, 1000, 100000) if m > dist or dist == 0]
                    for _rep in range(2):
                      configs.append(dict(path=path, bin_size=bin_size, bpj=bpj,
                                        threads=rng.choice([1, 1, 2, 3, 5]),
                                        mfs=rng.choice(mfs_options),
                                        min_mq=rng.choice([None, 0, 20, 50, 51, 60]),
                                        key_tags=rng.choice([None, None, ['DA']]),
                                        shuffle=rng.random() < 0.4))
        # bin of a single base, jobs of 500 / 5000 bins
        configs.append(dict(path=bams[0][0], bin_size=1, bpj=500, threads=2, mfs=0, min_mq=50, key_tags=None, shuffle=False))
        configs.append(dict(path=bams[1][0], bin_size=1, bpj=5000, threads=1, mfs=1000, min_mq=20, key_tags=['DA'], shuffle=True))

        by_group = {}
        totals_seen = []
        for c in configs:
            exp, total = oracle(c['path'], c['bin_size'], c['min_mq'], c['key_tags'])
            commands = list(generate_commands(
                c['path'], bin_size=c['bin_size'], bins_per_job=c['bpj'],
                min_mq=c['min_mq'], max_fragment_size=c['mfs'], key_tags=c['key_tags'],
                kwargs={}))
            feed('COMMANDS', sorted(c.items(), key=str), commands)
            # jobs must tile every contig, width = bin * bins_per_job (set semantics)
            width = c['bin_size'] * c['bpj']
            jobs = sorted((cmd[3], cmd[4], cmd[5]) for cmd in commands)
            want = sorted((ctg, s, s + width) for ctg, l in CONTIGS for s in range(0, l, width))
            if jobs != want:
                failures.append(('jobs do not tile the genome', c))
            if c['shuffle']:
                random.Random(len(commands)).shuffle(commands)
            got = obtain_counts(commands, reference=None, live_update=False,
                                threads=c['threads'], show_progress=False)
            n_checked += 1
            if c['threads'] == 1:
                feed('RAW ORDER', list(got.items()))
            feed('MATRIX', canonical(got), matrix_total(got))
            if canonical(got) != canonical(exp):
                failures.append(('matrix differs from oracle', c))
            totals_seen.append(total)
            if matrix_total(got) != total:
                failures.append(('total differs from number of records', c, matrix_total(got), total))
            group = (c['path'], c['bin_size'], c['min_mq'], tuple(c['key_tags'] or ()))
            by_group.setdefault(group, []).append(canonical(got))
        for group, results in by_group.items():
            if any(r != results[0] for r in results[1:]):
                failures.append(('matrix depends on job split / schedule', group))

        # ---- calls outside the quantified domain: only recorded, never judged ----
        path = bams[0][0]
        for name, kw in (('bin0', dict(bin_size=0, bins_per_job=3)),
                         ('bpj0', dict(bin_size=100, bins_per_job=0)),
                         ('bpj-1', dict(bin_size=100, bins_per_job=-1)),
                         ('bin-5', dict(bin_size=-5, bins_per_job=2)),
                         ('bpj2.5', dict(bin_size=100, bins_per_job=2.5))):
            created = outcome(lambda: type(generate_commands(path, kwargs={}, **kw)).__name__)
            consumed = outcome(lambda: len(list(generate_commands(path, kwargs={}, **kw))))
            feed('INVALID', name, created, consumed)

        def no_kwargs():
            cmds = list(generate_commands(path, bin_size=500, bins_per_job=2, min_mq=20))
            return canonical(obtain_counts(cmds, reference=None, live_update=False, threads=2))
        feed('KWARGS NONE', outcome(no_kwargs))

        seen = []

        def local_counter(args):  # closure: can not be pickled
            seen.append(args[3:6])
            return count_fragments_binned(args)

        def closure_run():
            cmds = list(generate_commands(path, bin_size=500, bins_per_job=2, min_mq=20, kwargs={}))
            return canonical(obtain_counts(cmds, reference=None, live_update=False, threads=1,
                                           count_function=local_counter))
        feed('CLOSURE SINGLE THREAD', outcome(closure_run), seen)
    finally:
        shutil.rmtree(TMP, ignore_errors=True)

    print('configurations checked: %d (counted records per configuration: %d..%d)' % (n_checked, min(totals_seen), max(totals_seen)))
    print('BEHAVIOUR DIGEST %s' % DIGEST.hexdigest())
    if failures:
        for f in failures[:20]:
            print('FAIL', f)
        print('PROPERTY VIOLATED (%d failures)' % len(failures))
        sys.exit(1)
    print('PROPERTY HOLDS')
    sys.exit(0)


if __name__ == '__main__':
    main()
