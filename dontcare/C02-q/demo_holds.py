#!/usr/bin/env python3
# -*- coding: utf-8 -*-
"""
Independent check of property C02:

  Demultiplexed records contain exactly the bases the protocol layout prescribes.

The oracle below has its own, hand written table of protocol layouts (it does not
look at umiStart / sequenceCapture / slices of the strategy objects). For every
accepted read pair it
  * compares bc / RX / RQ / rS / lh / lq with the bases and qualities at the
    protocol positions of the input mates,
  * checks that the emitted sequence and qualities are the same contiguous
    stretch of the same mate, starting at the insert start, index aligned,
  * rebuilds every mate from (tags at layout positions) + (emitted stretch) and
    requires that this reproduces the input mate: every base accounted for, none
    invented, nothing taken from the other mate.
The check is performed on the returned TaggedRecord objects and once more on the
fastq text which asFastq() writes.

Prints "PROPERTY HOLDS" and a "BEHAVIOUR DIGEST" over all raw outputs.
"""
import gzip
import hashlib
import os
import random
import string
import sys
import tempfile
import warnings

warnings.filterwarnings('ignore')

import pkg_resources
from singlecellmultiomics.barcodeFileParser.barcodeFileParser import BarcodeParser
from singlecellmultiomics.fastqProcessing.fastqIterator import FastqIterator
from singlecellmultiomics.modularDemultiplexer.baseDemultiplexMethods import NonMultiplexable
from singlecellmultiomics.modularDemultiplexer.demultiplexingStrategyLoader import DemultiplexingStrategyLoader

LETTERS = 'abcdefghijklmnopqrstuvwxyzABCDEFGHIJKLMNOPQRSTUVWXYZ'  # phred 0..51

# shortName -> layout. Fields are (mate, start, end) with end exclusive.
# 'ins' : per mate the position at which the emitted stretch starts
LAYOUTS = {
    'CS1C8U4': dict(alias='celseq1', bc=[(0, 0, 8)], umi=[(0, 8, 12)], rp=(1, 0, 6), lig=None, ins=[12, 6]),
    'CS2C8U6': dict(alias='celseq2', bc=[(0, 6, 14)], umi=[(0, 0, 6)], rp=(1, 0, 6), lig=None, ins=[14, 6]),
    'CS2C8U6NH': dict(alias='celseq2', bc=[(0, 6, 14)], umi=[(0, 0, 6)], rp=None, lig=None, ins=[14, 0]),
    'CS2C8U8S': dict(alias='celseq2', bc=[(1, 8, 16)], umi=[(1, 0, 8)], rp=(0, 0, 6), lig=None, ins=[6, 16]),
    'CS2C8U8NNLA': dict(alias='celseq2_noNla', bc=[(0, 8, 16)], umi=[(0, 0, 8)], rp=(1, 0, 6), lig=None, ins=[16, 6]),
    'CS2C8U6S': dict(alias='celseq2', bc=[(1, 6, 14)], umi=[(1, 0, 6)], rp=(0, 0, 6), lig=None, ins=[6, 14]),
    'NLAIII384C8U3': dict(alias='maya_384NLA', bc=[(0, 3, 11)], umi=[(0, 0, 3)], rp=(1, 0, 6), lig=None, ins=[11, 6]),
    'NLAIII96C8U3': dict(alias='lennart96NLA', bc=[(0, 3, 11)], umi=[(0, 0, 3)], rp=(1, 0, 6), lig=None, ins=[11, 6]),
    'NLAIII384C8U3SE': dict(alias='maya_384NLA', bc=[(0, 3, 11)], umi=[(0, 0, 3)], rp=None, lig=None, ins=[11]),
    'NLAIII96C8U3SE': dict(alias='lennart96NLA', bc=[(0, 3, 11)], umi=[(0, 0, 3)], rp=None, lig=None, ins=[11]),
    'scCHIC384C8U3': dict(alias='maya_384NLA', bc=[(0, 3, 11)], umi=[(0, 0, 3)], rp=(1, 0, 6), lig=(0, 11, 13), ins=[12, 6]),
    'scCHIC384C8U3l': dict(alias='maya_384NLA', bc=[(0, 3, 11)], umi=[(0, 0, 3)], rp=None, lig=(0, 11, 13), ins=[12, 0]),
    'scCHIC384C8U3se': dict(alias='maya_384NLA', bc=[(0, 3, 11)], umi=[(0, 0, 3)], rp=None, lig=(0, 11, 13), ins=[12]),
    'MSPJIC8U3': dict(alias='maya_mspj1', bc=[(0, 3, 11)], umi=[(0, 0, 3)], rp=None, lig=None, ins=[11, 0]),
    'SCARC8R2': dict(alias='scartrace', bc=[(1, 0, 8)], umi=[], rp=None, lig=None, ins=[0, 8]),
    'SCARC8R1': dict(alias='scartrace', bc=[(0, 0, 8)], umi=[], rp=None, lig=None, ins=[8, 0]),
    'SCARC8R2R4': dict(alias='scartrace', bc=[(1, 0, 8)], umi=[], rp=(0, 0, 4), lig=None, ins=[4, 8]),
    'CHROMC16U12': dict(alias='10x_3M-february-2018', bc=[(0, 0, 16)], umi=[(0, 16, 28)], rp=None, lig=None, ins=[28, 0]),
    'DamID2': dict(alias='DamID2', bc=[(0, 3, 13)], umi=[(0, 0, 3)], rp=None, lig=(0, 11, 13), ins=[12, 0]),
    'DamID2_8bp_noCA': dict(alias='DamID2_8bp', bc=[(0, 3, 11)], umi=[(0, 0, 3)], rp=None, lig=(0, 11, 13), ins=[10, 0]),
    'DamID2_3u4b3u6b': dict(alias='DamID2_scattered_8bp', bc=[(0, 3, 7), (0, 10, 14)], umi=[(0, 0, 3), (0, 7, 10)],
                            rp=None, lig=(0, 14, 16), ins=[14, 0]),
}

# Strategies with data dependent trimming / two protocols in one: only part of the digest
DIGEST_ONLY = {
    'TCHIC': 'maya_384NLA',
    'DamAndT': 'DamID2',
    'DamID2andT_3u4b3u4b': 'DamID2_scattered_8bp',
}

N_PAIRS = int(os.environ.get('N_PAIRS', 24))   # per strategy
rng = random.Random(20240202)
failures = []
digest = hashlib.sha256()


def feed(*parts):
    for p in parts:
        digest.update(str(p).encode())
        digest.update(b'\x00')


def rand_seq(n, p_n=0.06):
    return ''.join('N' if rng.random() < p_n else rng.choice('ACGT') for _ in range(n))


def rand_qual(n):
    return ''.join(chr(33 + rng.randint(0, 51)) for _ in range(n))


def prefix_length(layout, mate):
    # Amount of bases in front of the insert. (A ligation motif belongs to the insert)
    fields = [f for f in layout['bc'] + layout['umi'] if f[0] == mate]
    if layout['rp'] is not None and layout['rp'][0] == mate:
        fields.append(layout['rp'])
    return max([f[2] for f in fields] + [0])


def build_mate(layout, mate, barcode, insert_len):
    n = prefix_length(layout, mate)
    seq = list(rand_seq(n))
    # write the (concatenated) barcode at the barcode positions of this mate
    offset = 0
    for m, s, e in layout['bc']:
        if m == mate:
            seq[s:e] = barcode[offset:offset + (e - s)]
        offset += e - s
    seq = ''.join(seq) + rand_seq(insert_len)
    return seq, rand_qual(len(seq))


def mutate(barcode):
    i = rng.randrange(len(barcode))
    return barcode[:i] + rng.choice([b for b in 'ACGTN' if b != barcode[i]]) + barcode[i + 1:]


def take(mates, fields, what):
    return ''.join(mates[m][what][s:e] for m, s, e in fields)


def check_one(name, layout, mates, tags, emitted, where):
    """mates: [ {seq, qual}, ..]; tags: dict of strings; emitted: [(seq, qual), ..]"""
    def bad(msg):
        failures.append(f'{name} {where}: {msg}')

    exp_bc = take(mates, layout['bc'], 'seq')
    if str(tags.get('bc')) != exp_bc:
        bad(f'raw barcode {tags.get("bc")} != {exp_bc}')
    if layout['umi']:
        exp_umi = take(mates, layout['umi'], 'seq')
        exp_umiq = ''.join(LETTERS[ord(c) - 33] for c in take(mates, layout['umi'], 'qual'))
        if tags.get('RX') != exp_umi:
            bad(f'UMI {tags.get("RX")} != {exp_umi}')
        if tags.get('RQ') != exp_umiq:
            bad(f'UMI qualities {tags.get("RQ")} != {exp_umiq}')
    elif 'RX' in tags or 'RQ' in tags:
        bad('UMI recorded for a protocol without UMI')
    if layout['rp'] is not None:
        exp = take(mates, [layout['rp']], 'seq')
        if tags.get('rS') != exp:
            bad(f'random primer {tags.get("rS")} != {exp}')
    elif 'rS' in tags:
        bad('random primer recorded for protocol without random primer')
    if layout['lig'] is not None:
        exp = take(mates, [layout['lig']], 'seq')
        expq = ''.join(LETTERS[ord(c) - 33] for c in take(mates, [layout['lig']], 'qual'))
        if tags.get('lh') != exp:
            bad(f'ligation {tags.get("lh")} != {exp}')
        if tags.get('lq') != expq:
            bad(f'ligation qualities {tags.get("lq")} != {expq}')
    elif 'lh' in tags or 'lq' in tags:
        bad('ligation recorded for protocol without ligation motif')

    if len(emitted) != len(mates):
        bad('amount of emitted mates differs from the input')
        return
    for mate, (eseq, equal) in enumerate(emitted):
        start = layout['ins'][mate]
        iseq, iqual = mates[mate]['seq'], mates[mate]['qual']
        if len(eseq) != len(equal):
            bad(f'mate {mate} bases and qualities are not index aligned')
        if eseq != iseq[start:] or equal != iqual[start:]:
            bad(f'mate {mate} emitted stretch is not input[{start}:]')
        # rebuild the mate from what was recorded + what was emitted
        rebuilt = [None] * min(start, len(iseq))
        rebuilt_q = [None] * len(rebuilt)
        recorded = [('bc', None, layout['bc']), ('RX', 'RQ', layout['umi'])]
        if layout['rp'] is not None:
            recorded.append(('rS', None, [layout['rp']]))
        if layout['lig'] is not None:
            recorded.append(('lh', 'lq', [layout['lig']]))
        for tag, qtag, fields in recorded:
            value = str(tags.get(tag, ''))
            qvalue = tags.get(qtag, '') if qtag else None
            offset = 0
            for m, s, e in fields:
                # fields can run over the end of a short read:
                got = max(0, min(e, len(mates[m]['seq'])) - s)
                if m == mate:
                    for k in range(got):
                        if s + k < len(rebuilt):
                            rebuilt[s + k] = value[offset + k] if offset + k < len(value) else '?'
                            if qvalue is not None:
                                rebuilt_q[s + k] = chr(33 + LETTERS.index(qvalue[offset + k])) if offset + k < len(qvalue) else '?'
                offset += got
        if any(b is None for b in rebuilt):
            bad(f'mate {mate}: bases in front of the emitted stretch are not accounted for')
        elif ''.join(rebuilt) + eseq != iseq:
            bad(f'mate {mate}: recorded + emitted bases do not reproduce the input mate')
        for k, q in enumerate(rebuilt_q):
            if q is not None and q != iqual[k]:
                bad(f'mate {mate}: recorded quality at {k} differs from the input')


def parse_fastq_text(text):
    header, seq, plus, qual, rest = text.split('\n')
    assert header.startswith('@') and rest == ''
    tags = dict(kv.split(':', 1) for kv in header[1:].split(';'))
    return tags, seq, plus, qual


def main():
    barcode_folder = pkg_resources.resource_filename('singlecellmultiomics', 'modularDemultiplexer/barcodes/')
    index_folder = pkg_resources.resource_filename('singlecellmultiomics', 'modularDemultiplexer/indices/')
    barcode_parser = BarcodeParser(barcode_folder, lazyLoad='*')
    index_parser = BarcodeParser(index_folder, lazyLoad='*')
    loader = DemultiplexingStrategyLoader(
        barcodeParser=barcode_parser, indexParser=index_parser,
        indexFileAlias='illumina_merged_ThruPlex48S_RP')
    strategies = {s.shortName: s for s in loader.demultiplexingStrategies}
    missing = set(LAYOUTS) - set(strategies)
    if missing:
        failures.append(f'strategies not in the loader: {missing}')

    n_accepted = n_rejected = 0
    with tempfile.TemporaryDirectory(prefix='c02_demo_') as tmp:
        for name in list(LAYOUTS) + list(DIGEST_ONLY):
            if name not in strategies:
                continue
            strategy = strategies[name]
            checked = name in LAYOUTS
            layout = LAYOUTS[name] if checked else LAYOUTS[
                {'TCHIC': 'scCHIC384C8U3l', 'DamAndT': 'DamID2', 'DamID2andT_3u4b3u4b': 'DamID2_3u4b3u6b'}[name]]
            known = sorted(barcode_parser[layout['alias']].keys())[:5000]
            n_mates = len(layout['ins'])
            feed('STRATEGY', name, repr(strategy), strategy.longName, strategy.description)
            if len(known) == 0:
                # The bundled barcode file of this protocol is empty: no pair can be accepted
                print(f'{name}: no barcodes available for {layout["alias"]}, nothing can be accepted')
                continue

            # The corner cases first, then random insert sizes
            insert_lengths = [0, 0, 1, 2, 3, 150, 150, 149] + [rng.randint(0, 150) for _ in range(N_PAIRS)]
            paths = [os.path.join(tmp, f'{name}_R{m + 1}.fastq.gz') for m in range(n_mates)]
            handles = [gzip.open(p, 'wt') for p in paths]
            written = []
            for i, ilen in enumerate(insert_lengths):
                barcode = rng.choice(known)
                kind = i % 6
                if kind == 4:
                    barcode = mutate(barcode)      # might be rescued at hamming distance 1
                elif kind == 5 and i > 8:
                    barcode = rand_seq(len(barcode), p_n=0.2)  # most likely rejected
                mates = []
                for m in range(n_mates):
                    # the other mate has its own, independent insert length
                    seq, qual = build_mate(layout, m, barcode, ilen if m == 0 or i < 8 else rng.randint(0, 150))
                    mates.append({'seq': seq, 'qual': qual})
                    handles[m].write(
                        f'@NS500414:628:H7YVNBGXC:{1 + i % 4}:{11101 + i}:{15963 + i}:{1046 + 7 * i} {m + 1}:N:0:GTGAAA\n{seq}\n+\n{qual}\n')
                written.append(mates)
            for h in handles:
                h.close()

            for i, records in enumerate(FastqIterator(*paths)):
                mates = written[i]
                for m, r in enumerate(records):
                    assert r.sequence == mates[m]['seq'] and r.qual == mates[m]['qual']
                try:
                    tagged = strategy.demultiplex(records, library='LIB1')
                except NonMultiplexable as reason:
                    n_rejected += 1
                    feed('REJECT', name, i, str(reason))
                    continue
                n_accepted += 1
                texts = [t.asFastq() for t in tagged]
                feed('ACCEPT', name, i, *texts)
                feed(*[sorted((k, str(v)) for k, v in t.tags.items()) for t in tagged])
                if not checked:
                    continue
                # 1: objects
                for t in tagged:
                    check_one(name, layout, mates, {k: v for k, v in t.tags.items()},
                              [(u.sequence, u.qualities) for u in tagged], f'pair {i} (object)')
                # 2: text written to the fastq file
                parsed = [parse_fastq_text(t) for t in texts]
                for ptags, _, _, _ in parsed:
                    check_one(name, layout, mates, ptags, [(p[1], p[3]) for p in parsed], f'pair {i} (fastq text)')

            # A tuple which is neither single end nor a mate pair is never accepted
            try:
                first = next(iter(FastqIterator(*paths)))
                strategy.demultiplex(tuple(first) * 3, library='LIB1')
                feed('TRIPLE', name, 'accepted')
            except NonMultiplexable as reason:
                feed('TRIPLE', name, str(reason))
            except Exception as e:  # single end strategies index records first
                feed('TRIPLE', name, type(e).__name__)

    print(f'{len(LAYOUTS)} strategies checked, {n_accepted} accepted and {n_rejected} rejected read pairs')
    if n_accepted < 200:
        failures.append('too few accepted read pairs')
    if failures:
        for f in failures[:25]:
            print('VIOLATION', f)
        print(f'PROPERTY VIOLATED ({len(failures)} findings)')
        print('BEHAVIOUR DIGEST', digest.hexdigest())
        return 1
    print('PROPERTY HOLDS')
    print('BEHAVIOUR DIGEST', digest.hexdigest())
    return 0


if __name__ == '__main__':
    sys.exit(main())
