#!/usr/bin/env python3
"""Independent check of property C20

    "Status marker reports success only for a complete, sorted, indexed output"

Every scenario runs bamtagmultiome (single process or --multiprocess, method nla or chic) on a
synthetic BAM file inside a forked child process.  In the child a fault is injected at one step
boundary (molecule k, fragment construction, writing, read-group re-headering, sort, index, removal of
the unsorted intermediate, per-job worker, header bam, merge, final index, temp-folder cleanup, final
wait): either an exception (several classes, including KeyboardInterrupt / SystemExit) or a SIGKILL
of the process.  Clean runs are observed at the same boundaries without raising.

The oracle, which does not use any code of the repository:

  (A) at every step boundary that is observed, the status file does not report success
  (B) when the run did not return normally (exception or kill), the status file does not report success
  (C) whenever the status file reports success the output BAM exists, has a BGZF EOF block, can be
      read to the end, is coordinate sorted, has a usable index and holds exactly the input records

Prints "PROPERTY HOLDS" and a "BEHAVIOUR DIGEST" over all raw observations (status texts at every
observed moment, names of the files which are left next to the output, outcome and content of the
output).
"""
import collections
import hashlib
import os
import random
import re
import shutil
import signal
import sys
import tempfile
import time
import traceback

import pysam

HERE = os.path.dirname(os.path.abspath(__file__))
sys.path.insert(0, HERE)

BGZF_EOF = bytes.fromhex('1f8b08040000000000ff0600424302001b0003000000000000000000')
UUID_RE = re.compile(r'[0-9a-f]{8}-[0-9a-f]{4}-[0-9a-f]{4}-[0-9a-f]{4}-[0-9a-f]{12}')
SUCCESS_RE = re.compile(r'all\s+ok|all\s+done|success|finished\s+ok', re.I)


def says_success(text):
    """Does the text of a status file claim that the run finished successfully?"""
    if text is None:
        return False
    return SUCCESS_RE.search(text) is not None


def read_status(out_path):
    status_path = out_path[:-len('.bam')] + '.status.txt'
    try:
        with open(status_path) as h:
            return h.read()
    except FileNotFoundError:
        return None


# ----------------------------------------------------------------------------------------------
# Synthetic inputs
# ----------------------------------------------------------------------------------------------
def build_input(path, rng, contigs, n_pairs, n_unmapped, method, site_grid):
    header = {'HD': {'VN': '1.6', 'SO': 'coordinate'},
              'SQ': [{'SN': c, 'LN': l} for c, l in contigs]}
    bases = 'ACGT'

    def rs(n):
        return ''.join(rng.choice(bases) for _ in range(n))

    records = []
    for i in range(n_pairs):
        tid = rng.randrange(len(contigs))
        length = contigs[tid][1]
        site = rng.randrange(100, length - 700)
        site -= site % site_grid  # few distinct sites, gives duplicates and multi fragment molecules
        site = max(site, 50)
        cell = rng.randrange(4)
        umi = ''.join(rng.choice('AC') for _ in range(3))
        bc = ['AAAC', 'CCGT', 'GGTA', 'TTAG'][cell]
        rl = rng.randrange(30, 76)
        frag = rng.randrange(rl + 5, 400)
        reverse_r1 = rng.random() < 0.5
        valid = rng.random() < 0.8
        name = f'r{i:05d}'

        def mk(is_r1, start, reverse, seq):
            a = pysam.AlignedSegment()
            a.query_name = name
            a.flag = 1 | 2 | (64 if is_r1 else 128) | (16 if reverse else 32)
            a.reference_id = tid
            a.reference_start = start
            a.mapping_quality = rng.choice([0, 20, 60])
            a.cigarstring = f'{len(seq)}M'
            a.query_sequence = seq
            a.query_qualities = pysam.qualitystring_to_array('F' * len(seq))
            a.next_reference_id = tid
            a.set_tag('SM', f'LIB_{cell}')
            a.set_tag('LY', 'LIB')
            a.set_tag('BI', cell)
            a.set_tag('bc', bc)
            a.set_tag('BC', bc)
            a.set_tag('RX', umi)
            a.set_tag('MX', 'NLAIII96C8U3' if method == 'nla' else 'CS2C8U3')
            a.set_tag('Fc', 'FLOW')
            a.set_tag('La', str(1 + i % 2))
            a.set_tag('MI', bc + umi)
            return a

        if not reverse_r1:
            s1 = ('CATG' if valid else 'TTTT') + rs(rl - 4)
            r1 = mk(True, site, False, s1)
            r2 = mk(False, site + frag - rl, True, rs(rl))
        else:
            s1 = rs(rl - 4) + ('CATG' if valid else 'TTTT')
            r1 = mk(True, site + frag - rl, True, s1)
            r2 = mk(False, site, False, rs(rl))
        r1.next_reference_start = r2.reference_start
        r2.next_reference_start = r1.reference_start
        if r1.is_reverse:
            r1.template_length, r2.template_length = -frag, frag
        else:
            r1.template_length, r2.template_length = frag, -frag
        records += [r1, r2]

    records.sort(key=lambda a: (a.reference_id, a.reference_start))
    for j in range(n_unmapped):
        a = pysam.AlignedSegment()
        a.query_name = f'u{j:04d}'
        a.flag = 4
        a.query_sequence = rs(12)
        a.query_qualities = pysam.qualitystring_to_array('F' * 12)
        a.reference_id = -1
        a.reference_start = -1
        for tag, value in (('SM', 'LIB_0'), ('RX', 'AAA'), ('BC', 'AAAC'), ('MI', 'AAACAAA'),
                           ('LY', 'LIB'), ('Fc', 'FLOW'), ('La', '1')):
            a.set_tag(tag, value)
        records.append(a)

    with pysam.AlignmentFile(path, 'wb', header=header) as o:
        for r in records:
            o.write(r)
    pysam.index(path)


def record_key(r):
    return (r.query_name, bool(r.is_read2), r.reference_id, r.reference_start, r.query_sequence,
            r.cigarstring)


def fingerprint(path):
    c = collections.Counter()
    with pysam.AlignmentFile(path) as f:
        for r in f.fetch(until_eof=True):
            c[record_key(r)] += 1
    return c


# ----------------------------------------------------------------------------------------------
# Fault injection (runs in the forked child only)
# ----------------------------------------------------------------------------------------------
class Injector:
    def __init__(self, out_path, result_path):
        self.out_path = out_path
        self.result_path = result_path

    def log(self, *fields):
        line = '\t'.join(str(f).replace('\n', '\\n').replace('\t', ' ') for f in fields) + '\n'
        fd = os.open(self.result_path, os.O_WRONLY | os.O_APPEND | os.O_CREAT)
        try:
            os.write(fd, line.encode())
        finally:
            os.close(fd)

    def fire(self, point, mode):
        status = read_status(self.out_path)
        self.log('SNAP', point, mode, 'None' if status is None else 'S:' + status)
        if mode == 'observe':
            return
        if mode == 'kill':
            os.kill(os.getpid(), signal.SIGKILL)
            time.sleep(60)
        exc = {'ValueError': ValueError, 'RuntimeError': RuntimeError, 'OSError': OSError,
               'MemoryError': MemoryError, 'KeyError': KeyError, 'KeyboardInterrupt': KeyboardInterrupt,
               'SystemExit': SystemExit, 'SamtoolsError': pysam.SamtoolsError}[mode]
        raise exc(f'injected at {point}')

    def wrap(self, owner, name, point, mode, when='before', predicate=None, k=None):
        original = getattr(owner, name)
        state = {'calls': 0}
        injector = self

        def wrapper(*args, **kwargs):
            hit = predicate is None or predicate(*args, **kwargs)
            if hit:
                index = state['calls']
                state['calls'] += 1
                if k is not None and index != k:
                    hit = False
            if hit and when == 'before':
                injector.fire(point, mode)
            result = original(*args, **kwargs)
            if hit and when == 'after':
                injector.fire(point, mode)
            return result

        setattr(owner, name, wrapper)

    def install(self, injections):
        import singlecellmultiomics.universalBamTagger.bamtagmultiome as tm
        import singlecellmultiomics.bamProcessing.bamFunctions as bf
        import singlecellmultiomics.molecule.molecule as mm
        import singlecellmultiomics.fragment.fragment as ff

        out_path = self.out_path
        tm.sleep = lambda seconds: None  # do not wait five seconds in every multiprocess run

        for inj in injections:
            point, mode = inj['point'], inj['mode']
            when, k = inj.get('when', 'before'), inj.get('k')
            if point == 'write_tags':
                self.wrap(mm.Molecule, 'write_tags', point, mode, when, k=k)
            elif point == 'write_pysam':
                self.wrap(mm.Molecule, 'write_pysam', point, mode, when, k=k)
            elif point == 'fragment_init':
                self.wrap(ff.Fragment, '__init__', point, mode, when, k=k)
            elif point == 'rg_header':
                self.wrap(bf, 'add_readgroups_to_header', point, mode, when)
            elif point == 'sort':
                self.wrap(pysam, 'sort', point, mode, when)
            elif point == 'index_out':  # index of the final output (single process: by sort_and_index, multi: merge)
                self.wrap(pysam, 'index', point, mode, when, predicate=lambda *a, **kw: a[0] == out_path)
            elif point == 'index_worker':  # index of a per-job bam file
                self.wrap(pysam, 'index', point, mode, when,
                          predicate=lambda *a, **kw: a[0] != out_path and not a[0].endswith('_header.bam')
                          and not os.path.basename(a[0]).startswith('in_'))
            elif point == 'index_header':
                self.wrap(pysam, 'index', point, mode, when, predicate=lambda *a, **kw: a[0].endswith('_header.bam'))
            elif point == 'remove_unsorted':
                self.wrap(os, 'remove', point, mode, when, predicate=lambda *a, **kw: 'unsorted' in str(a[0]))
            elif point == 'merge':
                self.wrap(tm, 'merge_bams', point, mode, when)
            elif point == 'rmtree':
                self.wrap(shutil, 'rmtree', point, mode, when)
            elif point == 'sleep':
                self.wrap(tm, 'sleep', point, mode, when)
            else:
                raise ValueError(point)


OBSERVE_ALL = [{'point': p, 'mode': 'observe'} for p in
               ('fragment_init', 'write_tags', 'write_pysam', 'rg_header', 'sort', 'index_out', 'index_header',
                'remove_unsorted', 'merge', 'rmtree', 'sleep')]
for _o in OBSERVE_ALL:
    if _o['point'] in ('fragment_init', 'write_tags', 'write_pysam'):
        _o['k'] = 0


def child_main(command, injections, out_path, result_path, log_path, work_dir):
    os.setpgid(0, 0)
    os.chdir(work_dir)
    log_fd = os.open(log_path, os.O_WRONLY | os.O_CREAT | os.O_APPEND)
    os.dup2(log_fd, 1)
    os.dup2(log_fd, 2)
    injector = Injector(out_path, result_path)
    outcome = 'returned'
    try:
        import singlecellmultiomics.universalBamTagger.bamtagmultiome as tm
        injector.install(injections)
        tm.run_multiome_tagging_cmd(command)
    except BaseException as e:  # noqa
        outcome = f'raised:{type(e).__name__}'
        traceback.print_exc()
    try:
        import multiprocessing
        for p in multiprocessing.active_children():
            p.terminate()
    except BaseException:
        pass
    injector.log('OUTCOME', outcome)
    try:
        sys.stdout.flush()
        sys.stderr.flush()
    except BaseException:
        pass
    os._exit(0)


def run_child(command, injections, out_path, result_path, log_path, work_dir, timeout=300):
    sys.stdout.flush()
    sys.stderr.flush()
    pid = os.fork()
    if pid == 0:
        try:
            child_main(command, injections, out_path, result_path, log_path, work_dir)
        finally:
            os._exit(99)
    started = time.time()
    exit_status = None
    while True:
        done, exit_status = os.waitpid(pid, os.WNOHANG)
        if done == pid:
            break
        if time.time() - started > timeout:
            exit_status = None
            break
        time.sleep(0.01)
    try:
        os.killpg(pid, signal.SIGKILL)  # orphaned pool workers
    except (ProcessLookupError, PermissionError):
        pass
    if exit_status is None:
        try:
            os.waitpid(pid, 0)
        except ChildProcessError:
            pass
        return 'timeout'
    if os.WIFSIGNALED(exit_status):
        return f'killed:{os.WTERMSIG(exit_status)}'
    return f'exit:{os.WEXITSTATUS(exit_status)}'


# ----------------------------------------------------------------------------------------------
# Oracle
# ----------------------------------------------------------------------------------------------
def check_output(out_path, expected):
    """ Return a list of problems of the output bam file, empty when it is complete, sorted and indexed """
    problems = []
    if not os.path.exists(out_path):
        return ['output bam does not exist']
    with open(out_path, 'rb') as h:
        h.seek(0, 2)
        size = h.tell()
        h.seek(max(0, size - len(BGZF_EOF)))
        if h.read() != BGZF_EOF:
            problems.append('no BGZF EOF block, file is truncated')
    observed = collections.Counter()
    n_mapped = 0
    try:
        with pysam.AlignmentFile(out_path) as f:
            hd = f.header.as_dict().get('HD', {})
            if hd.get('SO') != 'coordinate':
                problems.append(f'header sort order is {hd.get("SO")}')
            previous = None
            for r in f.fetch(until_eof=True):
                observed[record_key(r)] += 1
                key = (r.reference_id if r.reference_id >= 0 else 1 << 40, r.reference_start)
                if previous is not None and key < previous:
                    problems.append(f'not coordinate sorted at {r.query_name}')
                    break
                previous = key
                if r.reference_id >= 0:
                    n_mapped += 1
            references = f.references
    except Exception as e:
        return problems + [f'not readable to the end: {type(e).__name__} {e}']
    if observed != expected:
        missing = sum((expected - observed).values())
        extra = sum((observed - expected).values())
        problems.append(f'records differ from the input: {missing} missing, {extra} unexpected')
    if not (os.path.exists(out_path + '.bai') or os.path.exists(out_path + '.csi')):
        problems.append('no index file')
    else:
        try:
            with pysam.AlignmentFile(out_path) as f:
                f.check_index()
                via_index = sum(f.count(contig) for contig in references)
                if via_index != n_mapped:
                    problems.append(f'index yields {via_index} mapped records, file holds {n_mapped}')
        except Exception as e:
            problems.append(f'index not usable: {type(e).__name__} {e}')
    return problems


def parse_result(result_path):
    snaps, outcome = [], None
    if os.path.exists(result_path):
        with open(result_path) as h:
            for line in h:
                parts = line.rstrip('\n').split('\t')
                if parts[0] == 'SNAP':
                    text = None if parts[3] == 'None' else parts[3][2:].replace('\\n', '\n')
                    snaps.append((parts[1], parts[2], text))
                elif parts[0] == 'OUTCOME':
                    outcome = parts[1]
    return snaps, outcome


def scenarios_for(rng):
    """ (label, multiprocess, [list of runs, every run is a list of injections]) """
    mid = rng.randrange(1, 6)
    S = []

    def one(label, multi, *injections):
        S.append((label, multi, [list(injections)]))

    def rerun(label, multi, *injections):
        S.append((label, multi, [OBSERVE_ALL, list(injections)]))

    # single process
    S.append(('clean', False, [OBSERVE_ALL]))
    for mode in ('ValueError', 'RuntimeError', 'OSError', 'MemoryError', 'KeyboardInterrupt', 'SystemExit', 'kill'):
        one(f'write_tags0-{mode}', False, {'point': 'write_tags', 'mode': mode, 'k': 0})
    for mode in ('ValueError', 'KeyError', 'KeyboardInterrupt', 'kill'):
        one(f'write_tags{mid}-{mode}', False, {'point': 'write_tags', 'mode': mode, 'k': mid})
    one('write_tags-never', False, {'point': 'write_tags', 'mode': 'ValueError', 'k': 10 ** 7})
    one('write_pysam-OSError', False, {'point': 'write_pysam', 'mode': 'OSError', 'k': mid})
    one('write_pysam-after-kill', False, {'point': 'write_pysam', 'mode': 'kill', 'k': mid + 1, 'when': 'after'})
    one('fragment-ValueError', False, {'point': 'fragment_init', 'mode': 'ValueError', 'k': 2 * mid})
    one('fragment-kill', False, {'point': 'fragment_init', 'mode': 'kill', 'k': 2 * mid + 1})
    one('rg-before-RuntimeError', False, {'point': 'rg_header', 'mode': 'RuntimeError'})
    one('rg-after-RuntimeError', False, {'point': 'rg_header', 'mode': 'RuntimeError', 'when': 'after'})
    one('rg-before-kill', False, {'point': 'rg_header', 'mode': 'kill'})
    one('sort-before-SamtoolsError', False, {'point': 'sort', 'mode': 'SamtoolsError'})
    one('sort-after-OSError', False, {'point': 'sort', 'mode': 'OSError', 'when': 'after'})
    one('sort-before-kill', False, {'point': 'sort', 'mode': 'kill'})
    one('sort-after-KeyboardInterrupt', False, {'point': 'sort', 'mode': 'KeyboardInterrupt', 'when': 'after'})
    one('index-before-SamtoolsError', False, {'point': 'index_out', 'mode': 'SamtoolsError'})
    one('index-after-OSError', False, {'point': 'index_out', 'mode': 'OSError', 'when': 'after'})
    one('index-before-kill', False, {'point': 'index_out', 'mode': 'kill'})
    one('index-after-kill', False, {'point': 'index_out', 'mode': 'kill', 'when': 'after'})
    one('remove-unsorted-OSError', False, {'point': 'remove_unsorted', 'mode': 'OSError'})
    rerun('stale-write_tags-ValueError', False, {'point': 'write_tags', 'mode': 'ValueError', 'k': 1})
    rerun('stale-index-kill', False, {'point': 'index_out', 'mode': 'kill'})
    # multiprocess
    S.append(('mp-clean', True, [OBSERVE_ALL]))
    one('mp-worker-write_tags0-ValueError', True, {'point': 'write_tags', 'mode': 'ValueError', 'k': 0})
    one(f'mp-worker-write_tags{mid}-RuntimeError', True, {'point': 'write_tags', 'mode': 'RuntimeError', 'k': mid})
    one('mp-worker-sort-SamtoolsError', True, {'point': 'sort', 'mode': 'SamtoolsError'})
    one('mp-worker-index-OSError', True, {'point': 'index_worker', 'mode': 'OSError'})
    one('mp-header-index-OSError', True, {'point': 'index_header', 'mode': 'OSError'})
    one('mp-merge-before-RuntimeError', True, {'point': 'merge', 'mode': 'RuntimeError'})
    one('mp-merge-after-RuntimeError', True, {'point': 'merge', 'mode': 'RuntimeError', 'when': 'after'})
    one('mp-merge-before-kill', True, {'point': 'merge', 'mode': 'kill'})
    one('mp-merge-before-KeyboardInterrupt', True, {'point': 'merge', 'mode': 'KeyboardInterrupt'})
    one('mp-final-index-SamtoolsError', True, {'point': 'index_out', 'mode': 'SamtoolsError'})
    one('mp-final-index-kill', True, {'point': 'index_out', 'mode': 'kill'})
    one('mp-rmtree-OSError', True, {'point': 'rmtree', 'mode': 'OSError'})
    one('mp-sleep-KeyboardInterrupt', True, {'point': 'sleep', 'mode': 'KeyboardInterrupt'})
    one('mp-sleep-kill', True, {'point': 'sleep', 'mode': 'kill'})
    rerun('mp-stale-merge-kill', True, {'point': 'merge', 'mode': 'kill'})
    return S


def main():
    # Import once in the parent, the forked children inherit the modules (patches are applied in the children only)
    import singlecellmultiomics.universalBamTagger.bamtagmultiome  # noqa
    rng = random.Random(20)
    root = tempfile.mkdtemp(prefix='c20_demo_')
    digest = hashlib.sha256()
    violations = []
    n_runs = n_success = n_failed_runs = n_snaps = 0

    input_specs = [
        ('nla', [('chr1', 5000), ('chr2', 200000), ('chrM', 3000)], 40, 3, 50),
        ('chic', [('chr1', 5000), ('chr2', 200000), ('chrM', 3000)], 40, 3, 50),
        ('nla', [('1', 150000)], 12, 0, 200),
        ('chic', [('1', 150000)], 12, 0, 200),
        ('nla', [('chrA', 300000000), ('chrB', 120000), ('chrC', 110000), ('scaf_1', 2000)], 70, 5, 1000),
        ('chic', [('chrA', 300000000), ('chrB', 120000), ('chrC', 110000), ('scaf_1', 2000)], 70, 5, 1000),
        ('nla', [('c1', 4000), ('c2', 4000)], 6, 1, 10),
        ('chic', [('c1', 4000), ('c2', 4000)], 25, 0, 10),
    ]
    try:
        for input_index, (method, contigs, n_pairs, n_unmapped, grid) in enumerate(input_specs):
            in_dir = os.path.join(root, f'input{input_index}')
            os.makedirs(in_dir)
            in_path = os.path.join(in_dir, f'in_{method}_{input_index}.bam')
            build_input(in_path, rng, contigs, n_pairs, n_unmapped, method, grid)
            expected = fingerprint(in_path)

            for label, multi, runs in scenarios_for(rng):
                scen_id = f'{input_index}:{method}:{label}'
                work_dir = os.path.join(in_dir, re.sub(r'[^A-Za-z0-9_-]', '_', label))
                out_dir = os.path.join(work_dir, 'out')
                temp_dir = os.path.join(work_dir, 'temp')
                os.makedirs(out_dir)
                os.makedirs(temp_dir)
                out_path = os.path.join(out_dir, 'tagged.bam')
                command = [in_path, '-method', method, '-o', out_path]
                if multi:
                    command += ['--multiprocess', '-tagthreads', '2', '-temp_folder', temp_dir]
                for run_index, injections in enumerate(runs):
                    n_runs += 1
                    result_path = os.path.join(work_dir, f'result{run_index}.tsv')
                    log_path = os.path.join(work_dir, f'log{run_index}.txt')
                    process_end = run_child(command, injections, out_path, result_path, log_path, work_dir)
                    snaps, outcome = parse_result(result_path)
                    completed = (outcome == 'returned' and process_end == 'exit:0')
                    final_status = read_status(out_path)

                    if process_end == 'timeout' or process_end == 'exit:99':
                        violations.append(f'{scen_id} run {run_index}: harness problem {process_end}')

                    # (A) status at every observed step boundary
                    for point, mode, text in snaps:
                        n_snaps += 1
                        if says_success(text):
                            violations.append(f'{scen_id} run {run_index}: status says "{text.strip()}" at step {point}')
                    # (B) interrupted or failed run
                    if not completed:
                        n_failed_runs += 1
                        if says_success(final_status):
                            violations.append(f'{scen_id} run {run_index}: run ended with {outcome}/{process_end} '
                                              f'but status says "{final_status.strip()}"')
                    # (C) success claims a complete, sorted, indexed output
                    output_problems = check_output(out_path, expected)
                    if says_success(final_status):
                        n_success += 1
                        for problem in output_problems:
                            violations.append(f'{scen_id} run {run_index}: status says success but {problem}')

                    # Raw observations
                    listing = sorted(UUID_RE.sub('UUID', name) for name in os.listdir(out_dir))
                    raw = [scen_id, str(run_index), str(outcome), process_end,
                           repr(sorted(set(snaps), key=repr)), repr(final_status), repr(listing),
                           'complete' if not output_problems else repr(sorted(output_problems))]
                    if os.path.exists(out_path) and not output_problems:
                        with pysam.AlignmentFile(out_path) as f:
                            raw.append(repr(sorted(rg['ID'] for rg in f.header.as_dict().get('RG', []))))
                            raw.append(hashlib.sha256(repr([record_key(r) for r in f.fetch(until_eof=True)]).encode()).hexdigest())
                    if os.environ.get('C20_DEMO_VERBOSE'):
                        print('\n'.join(raw))
                    digest.update(('\x1e'.join(raw) + '\x1d').encode())
                shutil.rmtree(work_dir, ignore_errors=True)
    finally:
        shutil.rmtree(root, ignore_errors=True)

    print(f'{n_runs} runs, {n_failed_runs} of them interrupted or failed, {n_success} reported success, '
          f'{n_snaps} status observations at step boundaries')
    if n_success < 16 or n_failed_runs < 100:
        violations.append('harness problem: the check is vacuous, too few successful or failed runs')
    print(f'BEHAVIOUR DIGEST {digest.hexdigest()}')
    if violations:
        for v in violations[:40]:
            print('VIOLATION', v)
        print(f'PROPERTY VIOLATED ({len(violations)} violations)')
        sys.exit(1)
    print('PROPERTY HOLDS')
    sys.exit(0)


if __name__ == '__main__':
    main()
