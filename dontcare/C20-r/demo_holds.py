#!/usr/bin/env python
# -*- coding: utf-8 -*-
"""
Independent check of property C20:

  "If tagging is interrupted or fails at any step - while reading, assigning
   molecules, writing, re-headering, sorting, merging or indexing - the status
   file next to the output never says the run finished successfully. Whenever
   the status file reports success, the output BAM exists, is readable to the
   end, is coordinate sorted, has an index and contains every record."

The oracle used here is our own:
  * every record handed to an output handle is logged to a side file (also
    from worker processes and from processes which get killed),
  * at every step boundary (molecule iteration, tag assignment, record write,
    read group re-header, sort, index, worker task, merge, wait, temp folder
    cleanup) the status file is read: it may never report success there,
  * failures (exception, OSError, KeyboardInterrupt, SIGKILL) are injected at
    those boundaries, a run which raised or got killed may not leave a
    status file which reports success (a stale success marker of an earlier
    run is planted before every run),
  * when the status file reports success the output is verified from scratch:
    exists, BGZF EOF block, readable to the end, SO:coordinate and really
    sorted, index present and usable for every contig, record multiset equal
    to the side log (and to the input for plain single process runs).

Prints "PROPERTY HOLDS" and "BEHAVIOUR DIGEST <sha256>".
"""
import os
import sys
import io
import re
import json
import random
import signal
import shutil
import hashlib
import tempfile
import contextlib
import time
import collections
from unittest import mock

HERE = os.path.dirname(os.path.abspath(__file__))
if HERE not in sys.path:
    sys.path.insert(0, HERE)

import pysam  # noqa
import singlecellmultiomics  # noqa
import singlecellmultiomics.molecule  # noqa
import singlecellmultiomics.molecule.iterator as iterator_module  # noqa
import singlecellmultiomics.bamProcessing.bamFunctions as bf  # noqa
import singlecellmultiomics.universalBamTagger.tagging as tagging  # noqa
import singlecellmultiomics.universalBamTagger.bamtagmultiome as tm  # noqa

assert os.path.abspath(tm.__file__).startswith(HERE), f'wrong copy imported: {tm.__file__}'

BGZF_EOF = bytes.fromhex('1f8b08040000000000ff0600424302001b0003000000000000000000')
ORIG_SORT = pysam.sort
ORIG_INDEX = pysam.index
ORIG_RMTREE = shutil.rmtree
ORIG_SBF_TM = tm.sorted_bam_file
ORIG_SBF_TAGGING = tagging.sorted_bam_file
ORIG_REHEADER = bf.add_readgroups_to_header
ORIG_MERGE = tm.merge_bams
ORIG_WRITE_TAGS = singlecellmultiomics.molecule.Molecule.write_tags
ORIG_ITER = iterator_module.MoleculeIterator.__iter__
ORIG_TASK = tagging.run_tagging_task


# ----------------------------------------------------------------------------
# what "reports success" means
# ----------------------------------------------------------------------------
def reports_success(text):
    if text is None:
        return False
    t = text.lower()
    if 'unfinished' in t or 'fail' in t or 'not complete' in t or 'submit' in t:
        return False
    return ('all ok' in t) or ('all done' in t) or ('reached end' in t) or ('success' in t) or ('finished' in t and 'unfinished' not in t)


class InjectedFailure(RuntimeError):
    pass


class Ctx:
    """ State of the case which is currently executed. Lives in module scope,
    forked children (workers, kill cases) inherit a copy and report through
    the events file"""
    status_path = None
    events_path = None
    injection = None   # (point, k, mode, extra)
    counts = None
    temp_root = None


def emit(kind, *fields):
    with open(Ctx.events_path, 'a') as h:
        h.write('\t'.join([kind] + [str(f).replace('\t', ' ').replace('\n', ' ') for f in fields]) + '\n')


def read_status():
    try:
        with open(Ctx.status_path) as h:
            return h.read()
    except FileNotFoundError:
        return None


def fire(mode, point):
    emit('FIRE', point, mode)
    if mode == 'exc':
        raise InjectedFailure(f'injected failure at {point}')
    if mode == 'oserr':
        raise OSError(28, f'injected OSError at {point}')
    if mode == 'kbd':
        raise KeyboardInterrupt()
    if mode == 'kill':
        os.kill(os.getpid(), signal.SIGKILL)
    raise AssertionError(mode)


def hook(point, extra=None):
    """ A step boundary. The output is not complete here, so the status file
    may not report success. Fires the injected failure when it is due. """
    if Ctx.events_path is None:
        return
    Ctx.counts[point] += 1
    status = read_status()
    emit('S', point, repr(status))
    if reports_success(status):
        emit('V', f'status file reports success at step boundary {point} #{Ctx.counts[point]}: {status!r}')
    inj = Ctx.injection
    if inj is None:
        return
    ipoint, k, mode, iextra = inj
    if ipoint != point:
        return
    if iextra is not None and iextra != extra:
        return
    if k == 'all' or Ctx.counts[point] == k:
        fire(mode, point)


# ----------------------------------------------------------------------------
# Instrumentation (only observes / injects, never alters what is computed)
# ----------------------------------------------------------------------------
class HandleProxy:
    def __init__(self, handle):
        self._handle = handle

    def write(self, read):
        hook('write')
        r = self._handle.write(read)
        emit('W', read.query_name, read.flag, read.reference_id, read.reference_start)
        return r

    def __getattr__(self, item):
        return getattr(self._handle, item)


def _wrap_sbf(orig):
    @contextlib.contextmanager
    def wrapped(write_path, *args, **kwargs):
        hook('open')
        with orig(write_path, *args, **kwargs) as handle:
            yield HandleProxy(handle)
    return wrapped


def w_reheader(*args, **kwargs):
    hook('reheader')
    r = ORIG_REHEADER(*args, **kwargs)
    hook('reheader_post')
    return r


def w_sort(*args, **kwargs):
    args_s = [str(a) for a in args]
    if '-T' in args_s:
        emit('T', args_s[args_s.index('-T') + 1])
    hook('sort')
    return ORIG_SORT(*args, **kwargs)


def w_index(*args, **kwargs):
    hook('index')
    r = ORIG_INDEX(*args, **kwargs)
    hook('index_post')
    return r


def w_merge(bams, output_path, *args, **kwargs):
    emit('M', len(bams), ' '.join(sorted(os.path.basename(b) for b in bams)))
    if Ctx.temp_root is not None:
        emit('D', ' '.join(sorted(os.listdir(Ctx.temp_root))))
    hook('merge')
    r = ORIG_MERGE(bams, output_path, *args, **kwargs)
    hook('merge_post')
    return r


def w_sleep(seconds):
    hook('sleep')  # a kill may arrive while waiting, the wait itself is skipped


def w_rmtree(path, *args, **kwargs):
    hook('rmtree')
    return ORIG_RMTREE(path, *args, **kwargs)


def w_write_tags(self, *args, **kwargs):
    hook('tags')
    return ORIG_WRITE_TAGS(self, *args, **kwargs)


def w_iter(self):
    for molecule in ORIG_ITER(self):
        hook('iter')
        yield molecule
    hook('iter_end')


def w_task(alignments, output, *args, **kwargs):
    hook('task', extra=kwargs.get('contig'))
    return ORIG_TASK(alignments, output, *args, **kwargs)


@contextlib.contextmanager
def instrumented():
    with contextlib.ExitStack() as stack:
        for target, name, new in [
            (tm, 'sorted_bam_file', _wrap_sbf(ORIG_SBF_TM)),
            (tagging, 'sorted_bam_file', _wrap_sbf(ORIG_SBF_TAGGING)),
            (bf, 'add_readgroups_to_header', w_reheader),
            (pysam, 'sort', w_sort),
            (pysam, 'index', w_index),
            (tm, 'merge_bams', w_merge),
            (tm, 'sleep', w_sleep),
            (shutil, 'rmtree', w_rmtree),
            (singlecellmultiomics.molecule.Molecule, 'write_tags', w_write_tags),
            (iterator_module.MoleculeIterator, '__iter__', w_iter),
            (tagging, 'run_tagging_task', w_task),
        ]:
            stack.enter_context(mock.patch.object(target, name, new))
        yield


# ----------------------------------------------------------------------------
# Inputs
# ----------------------------------------------------------------------------
def load_pairs(path):
    pairs = collections.OrderedDict()
    with pysam.AlignmentFile(path) as h:
        for read in h.fetch(until_eof=True):
            pairs.setdefault(read.query_name, []).append(read.to_dict())
    return pairs


def build_input(path, source_pairs, rng, n_pairs, n_contigs, n_unmapped, prefix):
    """ Sample read pairs of the repository test data, spread them over
    n_contigs contigs of varying size, optionally add unmapped pairs."""
    names = list(source_pairs)
    chosen = [names[i] for i in sorted(rng.sample(range(len(names)), min(n_pairs, len(names))))]
    base = min(int(d['ref_pos']) for q in chosen for d in source_pairs[q] if d['ref_pos'] != '0')
    top = max(int(d['ref_pos']) + len(d['seq']) + 400 for q in chosen for d in source_pairs[q])
    span = top - base
    offsets, lengths = [], []
    for ci in range(n_contigs):
        off = rng.choice([200, 1000, 25000, 300000])
        offsets.append(off)
        length = off + span + rng.choice([600, 5000, 90000, 4000000])
        lengths.append(length)
    contigs = [f'{prefix}{ci + 1}' for ci in range(n_contigs)] + [f'{prefix}_empty']
    lengths.append(rng.choice([500, 150000]))
    header = pysam.AlignmentHeader.from_dict({
        'HD': {'VN': '1.6', 'SO': 'unsorted'},
        'SQ': [{'SN': c, 'LN': l} for c, l in zip(contigs, lengths)]})
    unsorted = path + '.tmp_unsorted.bam'
    expected = collections.Counter()
    unmapped_left = n_unmapped
    with pysam.AlignmentFile(unsorted, 'wb', header=header) as out:
        for qi, q in enumerate(chosen):
            ci = rng.randrange(n_contigs)
            make_unmapped = unmapped_left > 0 and qi % 3 == 2
            if make_unmapped:
                unmapped_left -= 1
            for d in source_pairs[q]:
                d = dict(d)
                d['tags'] = [t for t in d['tags'] if not t.startswith('RG:')]
                if make_unmapped:
                    d['flag'] = str((int(d['flag']) | 4 | 8) & ~(2 | 16 | 32))
                    d['ref_name'] = '*'
                    d['ref_pos'] = '0'
                    d['next_ref_name'] = '*'
                    d['next_ref_pos'] = '0'
                    d['cigar'] = '*'
                    d['map_quality'] = '0'
                    d['length'] = '0'
                    d['tags'] = [t for t in d['tags'] if t[:2] not in ('NM', 'MD', 'MC', 'AS', 'XS')]
                else:
                    d['ref_name'] = contigs[ci]
                    d['ref_pos'] = str(int(d['ref_pos']) - base + offsets[ci])
                    if d['next_ref_name'] == '=':
                        d['next_ref_pos'] = str(int(d['next_ref_pos']) - base + offsets[ci])
                read = pysam.AlignedSegment.from_dict(d, header)
                out.write(read)
                expected[(read.query_name, read.is_read1, read.is_read2)] += 1
    ORIG_SORT('-o', path, unsorted)
    ORIG_INDEX(path)
    os.remove(unsorted)
    return contigs, expected


# ----------------------------------------------------------------------------
# Verification of an output which is claimed to be complete
# ----------------------------------------------------------------------------
def verify_complete_output(out_path, written, expected_input=None):
    problems = []
    if not os.path.exists(out_path):
        return [f'status reports success but {out_path} does not exist'], None, None
    with open(out_path, 'rb') as h:
        h.seek(0, 2)
        size = h.tell()
        h.seek(max(0, size - len(BGZF_EOF)))
        if h.read() != BGZF_EOF:
            problems.append('output lacks the BGZF end-of-file block (truncated)')
    keys = collections.Counter()
    records = []
    header_text = None
    try:
        with pysam.AlignmentFile(out_path, 'rb') as h:
            header_text = str(h.header)
            hd = h.header.to_dict().get('HD', {})
            if hd.get('SO') != 'coordinate':
                problems.append(f'header does not declare coordinate sorting: {hd}')
            previous = None
            n_placed = 0
            for read in h.fetch(until_eof=True):
                key = (read.reference_id if read.reference_id >= 0 else float('inf'), read.reference_start if read.reference_id >= 0 else 0)
                if previous is not None and key < previous:
                    problems.append(f'output is not coordinate sorted at {read.query_name}')
                previous = key
                if read.reference_id >= 0:
                    n_placed += 1
                keys[(read.query_name, read.flag, read.reference_id, read.reference_start)] += 1
                records.append(read.to_string())
            if not (os.path.exists(out_path + '.bai') or os.path.exists(out_path + '.csi')):
                problems.append('no index next to the output')
            else:
                index_path = out_path + '.bai' if os.path.exists(out_path + '.bai') else out_path + '.csi'
                if os.path.getsize(index_path) == 0:
                    problems.append('index is empty')
                if os.path.getmtime(index_path) + 1e-3 < os.path.getmtime(out_path):
                    problems.append('index is older than the output')
                if not h.has_index():
                    problems.append('pysam does not see an index')
                else:
                    via_index = 0
                    for contig in h.references:
                        via_index += sum(1 for _ in h.fetch(contig))
                    if via_index != n_placed:
                        problems.append(f'index yields {via_index} placed records, the file holds {n_placed}')
    except Exception as e:
        problems.append(f'output is not readable to the end: {type(e).__name__}: {e}')
        return problems, header_text, records
    if keys != written:
        missing = written - keys
        extra = keys - written
        problems.append(f'output does not contain every record: {sum(missing.values())} missing, {sum(extra.values())} unexpected')
    if expected_input is not None:
        got = collections.Counter()
        for (qname, flag, _, _), n in keys.items():
            got[(qname, bool(flag & 64), bool(flag & 128))] += n
        if got != expected_input:
            problems.append('output of a plain run does not hold every input record')
    return problems, header_text, records


# ----------------------------------------------------------------------------
# Normalisation for the behaviour digest (only strips per-run random parts)
# ----------------------------------------------------------------------------
def normalise(text, workdir):
    if text is None:
        return None
    text = text.replace(workdir, '<WORK>')
    text = text.replace(tempfile.gettempdir(), '<TMP>')
    text = text.replace(os.getcwd(), '<CWD>')
    text = re.sub(r'[0-9a-f]{8}-[0-9a-f]{4}-[0-9a-f]{4}-[0-9a-f]{4}-[0-9a-f]{12}', '<UUID>', text)
    text = re.sub(r'\b[0-9a-f]{32}\b', '<HEX32>', text)
    text = re.sub(r'\b[0-9a-f]{12}\b', '<HEX12>', text)
    text = re.sub(r'\d\d/\d\d/\d{4} \d\d:\d\d:\d\d', '<DATE>', text)
    text = re.sub(r'0x[0-9a-f]+', '<ADDR>', text)
    text = re.sub(r'\d+(\.\d+)? ?(seconds|sec|s/it|it/s)', '<TIME>', text)
    return text


# ----------------------------------------------------------------------------
# Running one case
# ----------------------------------------------------------------------------
def run_case(case_id, workdir, input_path, method, options, injection, multiprocess, expected_input):
    case_dir = os.path.join(workdir, f'case_{case_id}')
    os.makedirs(case_dir)
    temp_root = os.path.join(case_dir, 'tmproot')
    os.makedirs(temp_root)
    out_path = os.path.join(case_dir, 'tagged.bam')
    status_path = os.path.join(case_dir, 'tagged.status.txt')
    events_path = os.path.join(case_dir, 'events.tsv')
    # Plant the leftovers of an earlier, successful run: a stale success marker
    # may not survive a failing run
    with open(status_path, 'w') as h:
        h.write('Reached end. All ok!\n')
    with open(out_path, 'wb') as h:
        h.write(b'stale')
    with open(out_path + '.bai', 'wb') as h:
        h.write(b'stale')
    open(events_path, 'w').close()

    cmd = [input_path, '-method', method, '-o', out_path] + list(options)
    if multiprocess:
        cmd += ['--multiprocess', '-tagthreads', '2', '-temp_folder', temp_root]

    Ctx.status_path = status_path
    Ctx.events_path = events_path
    Ctx.injection = injection
    Ctx.counts = collections.Counter()
    Ctx.temp_root = temp_root if multiprocess else None

    stdout_path = os.path.join(case_dir, 'stdout.txt')
    stderr_path = os.path.join(case_dir, 'stderr.txt')
    outcome_path = os.path.join(case_dir, 'outcome.txt')

    def body():
        outcome = 'returned'
        with open(stdout_path, 'w', buffering=1) as so, open(stderr_path, 'w', buffering=1) as se:
            with contextlib.redirect_stdout(so), contextlib.redirect_stderr(se):
                try:
                    with instrumented():
                        with mock.patch.object(sys, 'argv', ['bamtagmultiome.py'] + cmd):
                            tm.run_multiome_tagging_cmd(cmd)
                except BaseException as e:  # noqa
                    outcome = f'raised {type(e).__name__}: {e}'
        with open(outcome_path, 'w') as h:
            h.write(outcome)

    # Every run happens in a forked child of this (thread free) process: a run
    # which fails leaves its worker pool behind, and kills need a victim
    sys.stdout.flush()
    sys.stderr.flush()
    pid = os.fork()
    if pid == 0:
        try:
            os.setsid()
            body()
        finally:
            os._exit(0)
    deadline = time.time() + 300
    wait_status = None
    while time.time() < deadline:
        done, wait_status = os.waitpid(pid, os.WNOHANG)
        if done:
            break
        time.sleep(0.01)
    else:
        wait_status = None
    try:
        os.killpg(pid, signal.SIGKILL)  # left over workers
    except ProcessLookupError:
        pass
    if wait_status is None:
        os.waitpid(pid, 0)
        outcome = 'HARNESS: run did not end within 300 seconds'
    elif os.WIFSIGNALED(wait_status):
        outcome = f'killed by signal {os.WTERMSIG(wait_status)}'
    else:
        outcome = open(outcome_path).read() if os.path.exists(outcome_path) else 'exited'

    Ctx.events_path = None

    # ---- evaluate -------------------------------------------------------
    violations = []
    written = collections.Counter()
    step_counts = collections.Counter()
    temp_args, merges, listings, statuses, fired = [], [], [], [], []
    with open(events_path) as h:
        for line in h:
            parts = line.rstrip('\n').split('\t')
            kind = parts[0]
            if kind == 'W':
                written[(parts[1], int(parts[2]), int(parts[3]), int(parts[4]))] += 1
            elif kind == 'V':
                violations.append(parts[1])
            elif kind == 'T':
                temp_args.append(parts[1])
            elif kind == 'M':
                merges.append(parts[1:])
            elif kind == 'D':
                listings.append(parts[1])
            elif kind == 'S':
                step_counts[parts[1]] += 1
                if not statuses or statuses[-1] != parts[2]:
                    statuses.append(parts[2])
            elif kind == 'FIRE':
                fired.append(parts[1:])

    final_status = read_status()
    failed = not outcome.startswith('returned')
    success = reports_success(final_status)
    header_text, records = None, None
    if failed and success:
        violations.append(f'run failed ({outcome}) but the status file reports success: {final_status!r}')
    if success:
        problems, header_text, records = verify_complete_output(out_path, written, expected_input)
        violations.extend(problems)
    if outcome.startswith('HARNESS'):
        violations.append(outcome)
    if injection is None and not success:
        violations.append(f'(sanity) undisturbed run did not report success: {outcome} / {final_status!r}')

    def N(t):
        return normalise(t, workdir)

    if multiprocess:
        # merge order depends on which worker finishes first
        if header_text is not None:
            header_text = '\n'.join(sorted(set(header_text.split('\n'))))
        if records is not None:
            records = sorted(records)
        stdout_text = '\n'.join(sorted(open(stdout_path).read().split('\n')))
        stderr_text = open(stderr_path).read()
        temp_args = sorted(set(N(t) for t in temp_args))
        fired = sorted(set(tuple(f) for f in fired))
        statuses = sorted(set(statuses))
        if failed:
            # which workers got how far when the run died is a race, only the
            # outcome, the markers and what was left behind are reproducible
            temp_args, listings, merges = [], [], []
            stdout_text = stderr_text = '(not reproducible for a failed multiprocess run)'
    else:
        stdout_text = open(stdout_path).read()
        stderr_text = open(stderr_path).read()
    raw = {
        'case': case_id,
        'cmd': N(' '.join(cmd)),
        'injection': injection,
        'fired': fired,
        'outcome': N(outcome),
        'final_status': N(final_status),
        'statuses_seen': [N(s) for s in statuses],
        'stdout': N(stdout_text),
        'stderr': N(stderr_text),
        'sort_temp_prefixes': [N(t) for t in temp_args],
        'merges': [[m[0], ' '.join(sorted(N(m[1]).split(' ')))] for m in merges],
        'temp_root_listing': [' '.join(sorted(N(l).split(' '))) for l in listings],
        'header': N(header_text),
        'records': records,
        'left_in_case_dir': sorted(N(x) for x in os.listdir(case_dir) if x not in ('events.tsv', 'stdout.txt', 'stderr.txt', 'outcome.txt')),
    }
    n_writes = sum(written.values())
    n_tags = step_counts['tags']
    n_iter = step_counts['iter']
    shutil.rmtree(case_dir, ignore_errors=True)
    return violations, raw, success, (n_iter, n_tags, n_writes)


def main():
    rng = random.Random(20)
    workdir = tempfile.mkdtemp(prefix='c20_demo_')
    old_cwd = os.getcwd()
    all_violations = []
    raws = []
    n_cases = n_success_verified = n_failed_runs = 0
    try:
        os.chdir(workdir)  # samtools may fall back to the current directory for temporary files
        sources = {
            'nla': load_pairs(os.path.join(HERE, 'data', 'mini_nla_test.bam')),
            'chic': load_pairs(os.path.join(HERE, 'data', 'chic_test_region.bam')),
        }
        inputs = []
        for i in range(22):
            method = 'nla' if i % 3 != 2 else 'chic'
            n_pairs = rng.choice([1, 3, 6, 10, 16, 24, 36]) if method == 'nla' else rng.choice([1, 3, 5, 8])
            n_contigs = rng.choice([1, 1, 2, 3, 4])
            n_unmapped = rng.choice([0, 0, 1, 2])
            path = os.path.join(workdir, f'input_{i}_{method}.bam')
            contigs, expected = build_input(path, sources[method], rng, n_pairs, n_contigs, n_unmapped, prefix='chr' if method == 'nla' else 'ctg')
            inputs.append((i, method, path, contigs, expected))

        case_id = 0

        def do(inp, options, injection, multiprocess, check_input=False):
            nonlocal case_id, n_cases, n_success_verified, n_failed_runs
            i, method, path, contigs, expected = inp
            case_id += 1
            violations, raw, success, counts = run_case(
                case_id, workdir, path, method, options, injection, multiprocess,
                expected if check_input else None)
            n_cases += 1
            n_success_verified += bool(success)
            n_failed_runs += not raw['outcome'].startswith('returned')
            for v in violations:
                all_violations.append(f'case {case_id} input {i} {method} mp={multiprocess} options={options} injection={injection}: {v}')
            raws.append(raw)
            return counts, raw

        for inp in inputs:
            i, method, path, contigs, expected = inp
            # ---------------- single process pipeline -----------------
            (n_iter, n_tags, n_writes), _ = do(inp, [], None, False, check_input=True)
            do(inp, ['--no_rejects'] if i % 2 else ['-head', str(rng.randrange(0, max(1, n_iter)))], None, False)
            pick = lambda n: rng.choice(sorted({1, max(1, n // 2), max(1, n), max(1, rng.randrange(1, n + 1))})) if n > 0 else 1
            modes = ['exc', 'kbd', 'kill', 'oserr']
            plan = [
                ('iter', pick(n_iter), rng.choice(modes)),
                ('iter', pick(n_iter), rng.choice(modes)),
                ('iter_end', rng.choice([1, 2]), rng.choice(modes)),
                ('tags', pick(n_tags), rng.choice(modes)),
                ('write', pick(n_writes), rng.choice(modes)),
                ('write', pick(n_writes), rng.choice(modes)),
                ('open', 1, rng.choice(modes)),
                ('reheader', 1, rng.choice(modes)),
                ('reheader_post', 1, rng.choice(modes)),
                ('sort', 'all', rng.choice(['exc', 'oserr'])),
                ('sort', 1, 'exc'),           # first temporary location fails, the next one works
                ('sort', 2, rng.choice(['kill', 'kbd'])) if i % 2 else ('sort', 1, rng.choice(['kill', 'kbd'])),
                ('index', 1, rng.choice(modes)),
                ('index_post', 1, rng.choice(modes)),
            ]
            for point, k, mode in plan:
                do(inp, ['--no_rejects'] if (i + len(point)) % 5 == 0 else [], (point, k, mode, None), False)

            # ---------------- multiprocess pipeline -------------------
            if i % 2 == 0 or method == 'chic':
                (m_iter, m_tags, m_writes), _ = do(inp, [], None, True)
                mplan = [
                    ('task', 'all', 'exc', rng.choice(contigs[:-1])),
                    ('task', 'all', rng.choice(['oserr', 'exc']), '*'),
                    ('write', 1, 'exc', None),
                    ('reheader', 1, 'exc', None),      # inside a worker
                    ('sort', 'all', 'exc', None),      # inside a worker
                    ('index', 'all', rng.choice(['exc', 'oserr']), None),
                    ('merge', 1, rng.choice(modes), None),
                    ('merge_post', 1, rng.choice(modes), None),
                    ('sleep', 1, rng.choice(['kill', 'kbd']), None),
                    ('rmtree', 1, 'oserr', None),      # cleanup fails: only reported, run completes
                    ('rmtree', 1, rng.choice(['kill', 'kbd']), None),
                ]
                for point, k, mode, extra in mplan:
                    do(inp, [], (point, k, mode, extra), True)
    finally:
        os.chdir(old_cwd)
        shutil.rmtree(workdir, ignore_errors=True)

    digest = hashlib.sha256(json.dumps(raws, sort_keys=True).encode()).hexdigest()
    print(f'{n_cases} runs, {n_failed_runs} of them failed or were killed, {n_success_verified} reported success and were verified from scratch')
    if os.environ.get('C20_DEMO_DUMP'):
        with open(os.environ['C20_DEMO_DUMP'], 'w') as h:
            json.dump(raws, h, indent=1, sort_keys=True)
    if n_success_verified < 40 or n_failed_runs < 100:
        all_violations.append('(sanity) the check was vacuous: too few successful or too few failed runs')
    if all_violations:
        print('PROPERTY VIOLATED')
        for v in all_violations[:40]:
            print('  ', v)
        print(f'BEHAVIOUR DIGEST {digest}')
        return 1
    print('PROPERTY HOLDS')
    print(f'BEHAVIOUR DIGEST {digest}')
    return 0


if __name__ == '__main__':
    sys.exit(main())
