#!/usr/bin/env python3
"""Independent check of property C18 (allele lookups agree with the VCF in every loading mode).

Builds random VCFs in a temporary directory, computes the expected answer of every
(contig, position, base) lookup with an oracle that parses the VCF TEXT itself (no pysam),
and compares this with AlleleResolver in the eager, lazy and cache (first / later run) modes,
for interleaved contig access orders that return to contigs visited before.

Prints PROPERTY HOLDS (exit 0) or PROPERTY VIOLATED (exit 1), and a BEHAVIOUR DIGEST over all raw
observations (answers, captured stdout, cache directory listing, contigs kept in memory,
statistics attributes, treatment of a non proper VCF).
"""
import contextlib
import hashlib
import io
import os
import random
import shutil
import sys
import tempfile

import pysam
from singlecellmultiomics.alleleTools import AlleleResolver

BASES = 'ACGT'
CONTIG_POOL = ['chr1', '2', 'chrX', 'GL000194.1', 'chr4_GL000008v2_random', 'KN707606.1',
               'chr7_KI270803v1_alt', 'scaffold_12', 'chrUn_KI270302v1', 'MT']
SAMPLE_POOL = ['SAMPLE_A', 'SAMPLE_B', 'B6', 'CAST', 's5']

raw = []          # every raw observation, hashed at the end
problems = []


def observe(*items):
    raw.append(repr(items))


# ---------------------------------------------------------------------------------------------
# input generation
# ---------------------------------------------------------------------------------------------
def random_vcf(rng, path):
    contigs = rng.sample(CONTIG_POOL, rng.randint(3, 5))
    samples = rng.sample(SAMPLE_POOL, rng.randint(2, 4))
    lines = ['##fileformat=VCFv4.2']
    for c in contigs:
        lines.append(f'##contig=<ID={c},length=100000>')
    lines.append('##INFO=<ID=DP,Number=1,Type=Integer,Description="Total Depth">')
    lines.append('##FORMAT=<ID=GT,Number=1,Type=String,Description="Genotype">')
    lines.append('#CHROM\tPOS\tID\tREF\tALT\tQUAL\tFILTER\tINFO\tFORMAT\t' + '\t'.join(samples))
    records = []  # (contig, pos1, ref, alts, {sample: gt string})
    for c in contigs:
        n = rng.choice([0, 1, 3, 6, 9]) if rng.random() < 0.3 else rng.randint(3, 9)
        positions = sorted(rng.sample(range(1, 400), n))
        for pos in positions:
            ref = rng.choice(BASES)
            if rng.random() < 0.08:
                ref = ref + rng.choice(BASES)  # deletion like record
            n_alt = rng.choice([0, 1, 1, 1, 1, 2, 3])
            alts = []
            pool = [b for b in BASES if b != ref[0]]
            rng.shuffle(pool)
            for i in range(n_alt):
                a = pool[i]
                if rng.random() < 0.1:
                    a = a + rng.choice(BASES) + rng.choice(['', 'G'])  # multi base allele
                alts.append(a)
            style = rng.random()
            gts = {}
            for s in samples:
                sep = '|' if rng.random() < 0.5 else '/'
                ploidy = 1 if rng.random() < 0.05 else 2
                calls = []
                for _ in range(ploidy):
                    r = rng.random()
                    if style < 0.15:      # fixed difference between samples
                        calls = [str(samples.index(s) % (n_alt + 1))] * ploidy
                        break
                    if r < 0.12:
                        calls.append('.')
                    else:
                        calls.append(str(rng.randint(0, n_alt)))
                if style > 0.92:          # sample completely missing
                    if rng.random() < 0.5:
                        calls = ['.'] * ploidy
                gts[s] = sep.join(calls)
            records.append((c, pos, ref, alts, gts))
            lines.append('\t'.join([c, str(pos), '.', ref, ','.join(alts) if alts else '.', '42', 'PASS',
                                    'DP=4', 'GT'] + [gts[s] for s in samples]))
    with open(path, 'w') as f:
        f.write('\n'.join(lines) + '\n')
    pysam.tabix_compress(path, path + '.gz', force=True)
    pysam.tabix_index(path + '.gz', preset='vcf', force=True)
    return path + '.gz', path, contigs, samples


# ---------------------------------------------------------------------------------------------
# oracle: parses the text of the VCF
# ---------------------------------------------------------------------------------------------
def oracle(vcf_text_path, phased, select, ignore):
    expected = {}   # (contig, pos0) -> {base: set(names)}
    samples = None
    with open(vcf_text_path) as f:
        for line in f:
            if line.startswith('##'):
                continue
            parts = line.rstrip('\n').split('\t')
            if line.startswith('#CHROM'):
                samples = parts[9:]
                continue
            contig, pos, _, ref, alt = parts[:5]
            alleles = [ref] + ([] if alt == '.' else alt.split(','))
            site = {}
            if phased:
                chosen = [s for s in samples if select is None or s in select]
                informative_problem = False
                missing_call = False
                assigned = set()
                for s in chosen:
                    gt = parts[9 + samples.index(s)].replace('|', '/').split('/')
                    for call in gt:
                        if call == '.':
                            missing_call = True
                            continue
                        base = alleles[int(call)]
                        if len(base) == 1:
                            site.setdefault(base, set()).add(s)
                            assigned.add(s)
                        else:
                            informative_problem = True
                if select is not None and assigned and len(assigned) != len(select):
                    informative_problem = True
                if missing_call and len(site) > 0:
                    informative_problem = False
                elif len(site) < 2:
                    informative_problem = True
                keep = bool(assigned) and not informative_problem
            else:
                keep = all(len(a) == 1 for a in alleles)
                if keep:
                    for label, base in zip('UVWXYZ', alleles):
                        site.setdefault(base, set()).add(label)
            if keep and ignore is not None and any((ref, base) in ignore for base in site):
                keep = False
            if keep:
                expected[(contig, int(pos) - 1)] = site
    return expected


def all_positions(vcf_text_path):
    out = {}
    with open(vcf_text_path) as f:
        for line in f:
            if line.startswith('#'):
                continue
            parts = line.split('\t')
            out.setdefault(parts[0], []).append(int(parts[1]) - 1)
    return out


def query_plan(rng, contigs, positions):
    """Interleaved access order: every contig is visited several times"""
    chunks = []
    for c in contigs + ['not_in_this_vcf']:
        qs = []
        for p in positions.get(c, [5, 50]):
            for q in (p - 1, p, p + 1):
                for b in 'ACGTN':
                    qs.append((c, q, b))
        qs = sorted(set(qs))
        rng.shuffle(qs)
        k = rng.randint(2, 3)
        for i in range(k):
            part = qs[i::k]
            if part:
                chunks.append(part)
    rng.shuffle(chunks)
    return chunks


def run_mode(label, kwargs, vcf_gz, plan, expected, tmp):
    out = io.StringIO()
    answers = []
    with contextlib.redirect_stdout(out):
        ar = AlleleResolver(vcffile=vcf_gz, **kwargs)
        for chunk in plan:
            for contig, pos, base in chunk:
                got = ar.getAllelesAt(contig, pos, base)
                want = expected.get((contig, pos), {}).get(base)
                if pos == -1 and base == 'N':
                    # internal sentinel position, not a site of the VCF
                    continue
                norm = None if got is None else sorted(got)
                answers.append((contig, pos, base, norm))
                if (want is None) != (got is None) or (want is not None and set(got) != want):
                    problems.append((label, kwargs, contig, pos, base, 'got', norm, 'want',
                                     None if want is None else sorted(want)))
                if base == 'A':
                    has = ar.has_location(contig, pos)
                    if has != ((contig, pos) in expected) and pos != -1:
                        problems.append((label, 'has_location', contig, pos, has))
            # what is kept in memory after visiting this contig (free aspect)
            observe('in-memory', label, [str(c) for c in ar.locationToAllele.keys()])
    observe('answers', label, answers)
    observe('stdout', label, out.getvalue().replace(tmp, '<TMP>'))
    stats = getattr(ar, 'variants_loaded', 'no such attribute')
    observe('stats', label, sorted((str(k), v) for k, v in stats.items()) if isinstance(stats, dict) else stats)
    return answers


def main():
    rng = random.Random(1808)
    tmp = tempfile.mkdtemp(prefix='c18_demo_')
    n_inputs = 0
    try:
        for vcf_index in range(36):
            vcf_gz, vcf_txt, contigs, samples = random_vcf(rng, os.path.join(tmp, f'v{vcf_index}.vcf'))
            positions = all_positions(vcf_txt)
            configs = [dict(phased=True, select_samples=None, ignore_conversions=None)]
            sel = rng.sample(samples, rng.randint(1, len(samples)))
            configs.append(dict(phased=True, select_samples=sel, ignore_conversions=None))
            ign = {('C', 'T'), ('G', 'A')} if rng.random() < 0.5 else \
                {(rng.choice(BASES), rng.choice(BASES)) for _ in range(rng.randint(1, 4))}
            configs.append(dict(phased=True, select_samples=rng.choice([None, sel, rng.sample(samples, 2)]),
                                ignore_conversions=ign))
            configs.append(dict(phased=False, select_samples=None,
                                ignore_conversions=rng.choice([None, ign])))
            for config_index, config in enumerate(configs):
                n_inputs += 1
                expected = oracle(vcf_txt, config['phased'],
                                  config['select_samples'], config['ignore_conversions'])
                plan = query_plan(rng, contigs, positions)
                tag = f'v{vcf_index}c{config_index}'
                results = {}
                modes = [
                    ('eager', dict(lazyLoad=False, use_cache=False)),
                    ('lazy', dict(lazyLoad=True, use_cache=False)),
                    ('cache-first', dict(lazyLoad=False, use_cache=True)),
                    ('cache-second', dict(lazyLoad=True, use_cache=True)),
                    ('cache-third', dict(lazyLoad=False, use_cache=True)),
                ]
                for mode, flags in modes:
                    kwargs = dict(config)
                    kwargs.update(flags)
                    results[mode] = run_mode(f'{tag}:{mode}', kwargs, vcf_gz, plan, expected, tmp)
                for mode in results:
                    if results[mode] != results['eager']:
                        problems.append((tag, mode, 'differs from eager'))
                # another access order gives the same answers
                plan2 = list(reversed(plan))
                a1 = run_mode(f'{tag}:lazy-reversed', dict(config, lazyLoad=True), vcf_gz, plan2, expected, tmp)
                a2 = run_mode(f'{tag}:cache-reversed', dict(config, use_cache=True), vcf_gz, plan2, expected, tmp)
                if sorted(a1, key=repr) != sorted(results['eager'], key=repr) or a1 != a2:
                    problems.append((tag, 'reversed order differs'))
            cache_dir = os.path.abspath(vcf_gz) + '_allele_cache'
            observe('cache files', vcf_index,
                    sorted(os.listdir(cache_dir)) if os.path.isdir(cache_dir) else 'no cache directory')

        # Outside the property: a non proper VCF (homebrew parser) combined with a sample selection
        ugly = os.path.join(tmp, 'ugly.vcf')
        with open(ugly, 'w') as f:
            f.write('#not a real vcf\nchr1 11 . A T\nchr1 15 . G C\n')
        for kwargs in (dict(), dict(select_samples=['B6']), dict(select_samples=['B6'], lazyLoad=True)):
            out = io.StringIO()
            err = io.StringIO()
            try:
                with contextlib.redirect_stdout(out), contextlib.redirect_stderr(err):
                    ar = AlleleResolver(vcffile=ugly, **kwargs)
                    res = [None if x is None else sorted(x) for x in
                           (ar.getAllelesAt('chr1', 10, 'A'), ar.getAllelesAt('chr1', 10, 'T'),
                            ar.getAllelesAt('chr1', 14, 'C'), ar.getAllelesAt('chr1', 12, 'C'))]
            except Exception as e:
                res = f'{type(e).__name__}: {e}'
            observe('non proper vcf', sorted(kwargs.items()), res)
    finally:
        shutil.rmtree(tmp, ignore_errors=True)

    digest = hashlib.sha256('\n'.join(raw).encode()).hexdigest()
    print(f'{n_inputs} VCF x configuration inputs, {len(raw)} raw observations')
    if problems:
        for p in problems[:20]:
            print('MISMATCH', p)
        print(f'PROPERTY VIOLATED ({len(problems)} mismatches)')
        print('BEHAVIOUR DIGEST', digest)
        sys.exit(1)
    print('PROPERTY HOLDS')
    print('BEHAVIOUR DIGEST', digest)
    sys.exit(0)


if __name__ == '__main__':
    main()
