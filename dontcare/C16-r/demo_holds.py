#!/usr/bin/env python3
"""Independent check of property C16 (feature lookups return exactly the
overlapping features after any add history) + a digest over all raw outputs.

Prints "PROPERTY HOLDS" and exits 0 when every lookup agrees with a brute
force oracle; prints "BEHAVIOUR DIGEST <sha256>" over the raw, uncanonicalised
outputs (result order, reference list, cache statistics, diagnostics).
"""
import os
import sys

HERE = os.path.dirname(os.path.abspath(__file__))
# deterministic set / dict order so that the digest is reproducible
if os.environ.get('PYTHONHASHSEED') != '0':
    env = dict(os.environ)
    env['PYTHONHASHSEED'] = '0'
    env['PYTHONPATH'] = HERE + os.pathsep + env.get('PYTHONPATH', '')
    os.execve(sys.executable, [sys.executable, os.path.abspath(__file__)] + sys.argv[1:], env)
sys.path.insert(0, HERE)

import collections
import contextlib
import hashlib
import io
import random
import tempfile

import pysam

import singlecellmultiomics
from singlecellmultiomics.features import FeatureContainer
from singlecellmultiomics.molecule.featureannotatedmolecule import FeatureAnnotatedMolecule

assert os.path.abspath(singlecellmultiomics.__file__).startswith(HERE), singlecellmultiomics.__file__

RAW = hashlib.sha256()
FAILURES = []
N_CHECKS = 0


def raw(*things):
    RAW.update(repr(things).encode())
    RAW.update(b'\n')


def check(cond, msg):
    global N_CHECKS
    N_CHECKS += 1
    if not cond:
        FAILURES.append(msg)
        if len(FAILURES) < 15:
            print('VIOLATION:', msg)


# ---------------------------------------------------------------- oracle
def oracle_point(feats, contig, p, strand):
    return collections.Counter(
        f[1:] for f in feats
        if f[0] == contig and f[1] <= p <= f[2] and (strand is None or f[4] == strand))


def oracle_range(feats, contig, a, b, strand):
    return collections.Counter(
        f[1:] for f in feats
        if f[0] == contig and max(a, f[1]) <= min(b, f[2]) and (strand is None or f[4] == strand))


# ------------------------------------------------------- feature set generator
CONTIGS = ['chr2', 'chr10', 'chr1', 'MT', 'scaffold_7']


def random_features(rng, n, contigs, span):
    feats = []
    parents = []
    for i in range(n):
        contig = rng.choice(contigs)
        mode = rng.random()
        if parents and mode < 0.35:      # nested in an earlier feature
            c, ps, pe = rng.choice(parents)
            contig = c
            s = rng.randint(ps, pe)
            e = rng.randint(s, pe)
        elif feats and mode < 0.5:       # identical copy (coordinates, maybe everything)
            c, s, e, name, strand, data = rng.choice(feats)
            contig = c
            if rng.random() < 0.5:
                feats.append((c, s, e, name, strand, data))
                continue
        elif mode < 0.62:                # zero length
            s = rng.randint(0, span)
            e = s
        else:
            s = rng.randint(0, span)
            e = s + rng.choice([0, 1, 2, 5, 30, 200, span // 2])
        strand = rng.choice(['+', '-'])
        name = 'f%d' % i
        data = (('gene_id', 'G%d' % (i % 17)), ('type', rng.choice(['exon', 'intron'])), ('idx', str(i)))
        feats.append((contig, s, e, name, strand, data))
        parents.append((contig, s, e))
    return feats


def query_points(rng, feats, span):
    pts = {-7, -1, 0, 1, span, span + 1, span * 3}
    for f in rng.sample(feats, min(len(feats), 12)):
        pts.update((f[1] - 1, f[1], f[1] + 1, f[2] - 1, f[2], f[2] + 1))
    for _ in range(8):
        pts.add(rng.randint(-5, span + 50))
    return sorted(pts)


def run_queries(fc, feats, rng, span, tag):
    contigs = sorted(set(f[0] for f in feats)) + ['chrAbsent']
    pts = query_points(rng, feats, span)
    for contig in contigs:
        for strand in (None, '+', '-'):
            for p in pts:
                got = fc.findFeaturesAt(contig, p, strand)
                raw(tag, 'at', contig, p, strand, got)
                exp = oracle_point(feats, contig, p, strand)
                check(collections.Counter(got) == exp,
                      '%s findFeaturesAt(%s,%s,%s) -> %r expected %r' % (tag, contig, p, strand, got, sorted(exp.elements())))
            for optim in ('nb', 'optim'):  # the variants the property names
                for p in rng.sample(pts, 4):
                    got = fc.findFeaturesAt(contig, p, strand, optim)
                    exp = oracle_point(feats, contig, p, strand)
                    check(set(got) == set(exp), '%s findFeaturesAt optim=%s (%s,%s,%s) -> %r expected %r' % (
                        tag, optim, contig, p, strand, got, sorted(exp)))
            for _ in range(10):
                a = rng.choice(pts)
                b = rng.choice(pts)
                a, b = min(a, b), max(a, b)
                got = fc.findFeaturesBetween(contig, a, b, strand)
                exp = oracle_range(feats, contig, a, b, strand)
                check(set(got) == set(exp) and len(got) == len(set(got)),
                      '%s findFeaturesBetween(%s,%s,%s,%s) -> %r expected %r' % (tag, contig, a, b, strand, got, sorted(exp)))
    raw(tag, 'references', fc.getReferenceList())
    raw(tag, 'cache', tuple(fc.findFeaturesAt.cache_info()))
    check(sorted(fc.getReferenceList()) == sorted(set(f[0] for f in feats)), tag + ' reference list')


def add_all(fc, feats):
    for contig, s, e, name, strand, data in feats:
        fc.addFeature(contig, s, e, name, strand=strand, data=data)


# --------------------------------------------------------------- containers
def scenario_containers(seed):
    rng = random.Random(seed)
    span = rng.choice([20, 60, 400, 5000])
    n = rng.choice([1, 2, 3, 8, 25, 60, 200])
    contigs = rng.sample(CONTIGS, rng.randint(1, len(CONTIGS)))
    feats = random_features(rng, n, contigs, span)
    fc = FeatureContainer()
    # add* / sort / query* / add* / sort / query* (+ a third round and a re-sort without adds)
    cut1 = rng.randint(1, len(feats))
    cut2 = rng.randint(cut1, len(feats))
    added = []
    for rnd, chunk in enumerate((feats[:cut1], feats[cut1:cut2], feats[cut2:])):
        add_all(fc, chunk)
        added.extend(chunk)
        fc.sort()
        if rnd == 1:
            fc.sort()
        run_queries(fc, added, rng, span, 's%d.r%d' % (seed, rnd))
        check(len(fc) == len(added), 'len')


# ------------------------------------------------------- pysam / annotation
HEADER = pysam.AlignmentHeader.from_dict({
    'HD': {'VN': '1.6'},
    'SQ': [{'SN': c, 'LN': 100000} for c in CONTIGS + ['chrAbsent']]})


def make_read(rng, contig, span):
    read = pysam.AlignedSegment(HEADER)
    read.query_name = 'r'
    read.reference_id = HEADER.get_tid(contig)
    read.reference_start = rng.randint(0, span)
    cigar = []
    qlen = 0
    for i in range(rng.randint(1, 3)):
        m = rng.randint(1, 12)
        cigar.append((0, m))
        qlen += m
        if rng.random() < 0.5:
            cigar.append((rng.choice([2, 3]), rng.randint(1, 40)))
    if cigar[-1][0] != 0:
        cigar.append((0, 2))
        qlen += 2
    read.cigartuples = cigar
    read.query_sequence = 'A' * qlen
    read.query_qualities = pysam.qualitystring_to_array('I' * qlen)
    read.flag = rng.choice([0, 16])
    read.mapping_quality = 60
    return read


class StubMolecule(FeatureAnnotatedMolecule):
    """Only the annotation logic of FeatureAnnotatedMolecule, fed with plain reads."""

    def __init__(self, reads, features, stranded, capture_locations):
        self.fragments = [reads]
        self.features = features
        self.hits = collections.defaultdict(set)
        self.stranded = stranded
        self.is_annotated = False
        self.capture_locations = capture_locations
        self.feature_locations = {}
        self.chromosome = reads[0].reference_name
        self.strand = reads[0].is_reverse


def scenario_reads(seed):
    rng = random.Random(10000 + seed)
    span = rng.choice([40, 300])
    contigs = rng.sample(CONTIGS, rng.randint(1, 3))
    feats = random_features(rng, rng.choice([3, 20, 80]), contigs, span)
    fc = FeatureContainer()
    half = len(feats) // 2
    add_all(fc, feats[:half])
    fc.sort()
    fc.findFeaturesAt(feats[0][0], feats[0][1])  # populate the memo before the second add round
    add_all(fc, feats[half:])
    fc.sort()
    for i in range(6):
        contig = rng.choice(contigs + ['chrAbsent'] if i == 5 else contigs)
        read = make_read(rng, contig, span)
        positions = read.get_reference_positions()
        for strand in (None, '+', '-'):
            exp = set()
            for p in positions:
                exp.update(oracle_point(feats, contig, p, strand))
            for method in (0, 1):
                got = fc.findFeaturesAtPysamAlign(read, strand=strand, method=method)
                raw('pysam', seed, i, strand, method, type(got).__name__, sorted(got))
                check(set(got) == exp and len(got) == len(exp), 'findFeaturesAtPysamAlign seed %s method %s strand %s: %r expected %r' % (
                    seed, method, strand, sorted(got), sorted(exp)))
        if contig == 'chrAbsent':
            continue
        for stranded in (None, False, True):
            if stranded is None:
                strand = None
            else:
                strand = '+-'[(not read.is_reverse) if stranded else read.is_reverse]
            exp = set()
            for p in positions:
                exp.update(oracle_point(feats, contig, p, strand))
            for method in (0, 1):
                mol = StubMolecule([read], fc, stranded, capture_locations=True)
                mol.annotate(method=method)
                raw('annotate', seed, i, stranded, method, sorted(mol.hits.items()), sorted(mol.feature_locations.items()))
                check(set(mol.hits) == set(f[4] for f in exp), 'annotate hits seed %s method %s' % (seed, method))
                check(set(mol.feature_locations) == set(f[2] for f in exp), 'annotate locations seed %s method %s' % (seed, method))
                if method == 0:
                    check(set((s, e) for v in mol.hits.values() for (_, (s, e)) in v) == set(f[:2] for f in exp),
                          'annotate intervals seed %s' % seed)


# ------------------------------------------------------- files / diagnostics
def scenario_files(tmp):
    rng = random.Random(777)
    feats = random_features(rng, 40, ['chr3', 'chr1', 'chr2'], 500)
    # BED: contig start end name score strand
    bed = os.path.join(tmp, 'features.bed')
    with open(bed, 'w') as h:
        for contig, s, e, name, strand, data in feats:
            h.write('%s\t%d\t%d\t%s\t0\t%s\n' % (contig, s, e, name, strand))
    out = io.StringIO()
    with contextlib.redirect_stdout(out):
        fc = FeatureContainer(verbose=True)
        fc.debug = True
        fc.loadBED(bed)
        got_absent = fc.findFeaturesBetween('chrNope', 1, 5)
    raw('bed-log', out.getvalue().replace(tmp, '<tmp>'))
    check(got_absent == [], 'absent contig range query')
    plain = [(c, s, e, n, st, None) for c, s, e, n, st, d in feats]
    with contextlib.redirect_stdout(io.StringIO()):
        for contig in ('chr1', 'chr2', 'chr3'):
            for p in range(-2, 520, 7):
                for strand in (None, '+', '-'):
                    got = fc.findFeaturesAt(contig, p, strand)
                    check(collections.Counter(got) == oracle_point(plain, contig, p, strand), 'bed point %s %s %s' % (contig, p, strand))
                    got = fc.findFeaturesBetween(contig, p, p + 11, strand)
                    check(set(got) == set(oracle_range(plain, contig, p, p + 11, strand)), 'bed range %s %s %s' % (contig, p, strand))
    raw('bed-refs', fc.getReferenceList())

    # GTF
    gtf = os.path.join(tmp, 'features.gtf')
    with open(gtf, 'w') as h:
        for i, (contig, s, e, name, strand, data) in enumerate(feats):
            h.write('%s\ttest\texon\t%d\t%d\t.\t%s\t.\tgene_id "%s"; exon_id "E%d"; transcript_id "T%d";\n' % (
                contig, s + 1, e + 1, strand, name, i, i % 5))
    out = io.StringIO()
    with contextlib.redirect_stdout(out):
        fc = FeatureContainer(verbose=True)
        fc.loadGTF(gtf, store_all=True)
    raw('gtf-log', out.getvalue().replace(tmp, '<tmp>'))
    named = [(c, s, e, n, st, None) for c, s, e, n, st, d in feats]
    for contig in ('chr1', 'chr2', 'chr3'):
        for p in range(-2, 520, 5):
            got = fc.findFeaturesAt(contig, p)
            check(collections.Counter((f[0], f[1], f[2], f[3]) for f in got) ==
                  collections.Counter(f[:4] for f in oracle_point(named, contig, p, None).elements()), 'gtf point %s %s' % (contig, p))
    raw('gtf-refs', fc.getReferenceList(), tuple(fc.findFeaturesAt.cache_info()))


def main():
    FeatureContainer.findFeaturesAt.cache_clear()
    for seed in range(120):
        scenario_containers(seed)
    for seed in range(60):
        scenario_reads(seed)
    with tempfile.TemporaryDirectory(prefix='c16_demo_') as tmp:
        scenario_files(tmp)
    print('checks performed: %d, violations: %d' % (N_CHECKS, len(FAILURES)))
    print('BEHAVIOUR DIGEST %s' % RAW.hexdigest())
    if FAILURES:
        print('PROPERTY VIOLATED')
        return 1
    print('PROPERTY HOLDS')
    return 0


if __name__ == '__main__':
    sys.exit(main())
