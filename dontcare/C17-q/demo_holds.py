#!/usr/bin/env python3
"""
Independent check of property C17:

  Tiling a region into work bins yields bins no larger than the requested size that, together with the
  blacklisted intervals, cover the region exactly once: no gap, no overlap, no bin touching a blacklisted
  base or leaving the region. When a fragment size is given, each bin's fetch window contains the bin,
  extends by at most the fragment size, and never reaches outside the region or into a blacklisted interval.

The oracle is a per-base coverage count, it shares no code with the implementation.
Prints "PROPERTY HOLDS" (exit 0) or the violations (exit 1), and a digest over all raw outputs.
"""
import gzip
import hashlib
import itertools
import os
import random
import sys
import tempfile

import pysam

from singlecellmultiomics.bamProcessing.bamBinCounts import (blacklisted_binning, blacklisted_binning_contigs,
                                                            merge_overlapping_ranges)
from singlecellmultiomics.utils.binning import bp_chunked

digest = hashlib.sha256()
violations = []
n_cases = 0


def record(*raw):
    digest.update((repr(raw) + '\n').encode())


def oracle(label, region_start, region_end, bin_size, blacklist, fragment_size, rows):
    """ rows: list of (bin_start, bin_end) or (bin_start, bin_end, fetch_start, fetch_end) """
    global n_cases
    n_cases += 1
    black = set()
    for s, e in blacklist:
        black.update(range(max(s, region_start), min(e, region_end)))
    cover = dict.fromkeys(range(region_start, region_end), 0)

    def bad(msg):
        violations.append(f'{label} region={region_start}:{region_end} bin_size={bin_size} '
                          f'fragment_size={fragment_size} blacklist={blacklist}: {msg}')

    for row in rows:
        if fragment_size is None:
            if len(row) != 2:
                bad(f'unexpected row {row}')
                continue
            s, e = row
        else:
            if len(row) != 4:
                bad(f'unexpected row {row}')
                continue
            s, e, fs, fe = row
        if not (e > s):
            bad(f'empty or inverted bin {row}')
            continue
        if e - s > bin_size:
            bad(f'bin {row} larger than the requested size')
        if s < region_start or e > region_end:
            bad(f'bin {row} leaves the region')
        for b in range(s, e):
            if b in black:
                bad(f'bin {row} touches blacklisted base {b}')
            if b in cover:
                cover[b] += 1
        if fragment_size is not None:
            if fs > s or fe < e:
                bad(f'fetch window of {row} does not contain the bin')
            if s - fs > fragment_size or fe - e > fragment_size:
                bad(f'fetch window of {row} extends by more than the fragment size')
            if fs < region_start or fe > region_end:
                bad(f'fetch window of {row} reaches outside the region')
            if any(b in black for b in range(fs, fe)):
                bad(f'fetch window of {row} reaches into a blacklisted interval')

    for b, n in cover.items():
        want = 0 if b in black else 1
        if n != want:
            bad(f'base {b} covered {n} times by bins, expected {want}')
            break


def run_direct(region_start, region_end, bin_size, blacklist, fragment_size, blacklist_arg='list'):
    bl = None if blacklist_arg == 'none' else list(blacklist)
    rows = list(blacklisted_binning(region_start, region_end, bin_size, bl, fragment_size))
    record('direct', region_start, region_end, bin_size, blacklist, fragment_size, rows)
    oracle('blacklisted_binning', region_start, region_end, bin_size, blacklist, fragment_size, rows)
    return rows


def check_chunks(label, rows, bp_per_job):
    """ Grouping the bins into jobs may not lose, duplicate or alter a bin """
    chunks = list(bp_chunked(iter(rows), bp_per_job))
    record('chunks', bp_per_job, chunks)
    flat = [row for chunk in chunks for row in chunk]
    if sorted(flat) != sorted(rows):
        violations.append(f'{label}: bp_chunked({bp_per_job}) changed the set of bins: {rows} -> {chunks}')


def all_intervals(lo, hi):
    return [(s, e) for s in range(lo, hi) for e in range(s + 1, hi + 1)]


def main():
    rng = random.Random(1717)

    # 1. Exhaustive for small regions: every blacklist of 0, 1 or 2 intervals (overlapping, adjacent,
    #    touching / exceeding the region ends), every bin size up to beyond the region, several fragment sizes
    for length in range(0, 7):
        intervals = all_intervals(-1, length + 1)
        blacklists = [[]] + [[i] for i in intervals] + [list(p) for p in itertools.combinations(intervals, 2)]
        for blacklist in blacklists:
            for bin_size in range(1, length + 3):
                for fragment_size in (None, 0, 1, 2, length + 5):
                    run_direct(0, length, bin_size, blacklist, fragment_size)

    # 2. Same, region not starting at zero, and without a blacklist argument at all
    for start in (3, 10):
        for length in range(0, 6):
            for bin_size in (1, 2, 3, 5, 9):
                for fragment_size in (None, 1, 4):
                    run_direct(start, start + length, bin_size, [], fragment_size, blacklist_arg='none')
                    for blacklist in ([(start, start + 1)], [(start + length - 1, start + length)],
                                      [(start - 2, start + 1), (start + 1, start + 2)],
                                      [(start + 1, start + 3), (start + 2, start + 4), (start + 4, start + 5)]):
                        run_direct(start, start + length, bin_size, blacklist, fragment_size)

    # 3. Random larger regions, unsorted blacklists with many overlapping / adjacent intervals,
    #    bin sizes larger than the region and smaller than the fragment size
    for i in range(400):
        start = rng.choice((0, 0, 0, 7, 1000))
        length = rng.choice((1, 2, 17, 100, 250, 999, 2000, 2510))
        end = start + length
        bin_size = rng.choice((1, 2, 3, 7, 10, 50, 250, 251, 1000, 5000))
        if length / bin_size > 600:
            bin_size = 50
        fragment_size = rng.choice((None, 0, 1, 5, 30, 500, 10000))
        blacklist = []
        for _ in range(rng.choice((0, 1, 2, 3, 5, 12))):
            s = rng.randint(start - 20, end + 10)
            e = s + rng.choice((1, 1, 2, 5, 40, 300))
            blacklist.append((s, e))
            if rng.random() < 0.35:  # adjacent twin
                blacklist.append((e, e + rng.choice((1, 3, 25))))
            if rng.random() < 0.25:  # overlapping twin
                blacklist.append((s + 1, e + 2))
        if rng.random() < 0.2:
            blacklist.append((start, start + rng.choice((1, 4))))  # touches the region start
        if rng.random() < 0.2:
            blacklist.append((end - rng.choice((1, 4)), end))  # touches the region end
        rng.shuffle(blacklist)
        rows = run_direct(start, end, bin_size, blacklist, fragment_size)
        record('merged', merge_overlapping_ranges(list(blacklist)) if blacklist else [])
        rows = [('ctg',) + tuple(r) for r in rows]  # bp_chunked expects (contig, start, end, *task)
        check_chunks(f'random {i}', rows, rng.choice((1, 10, 100, 500, 10 ** 6)))
        # bins sum up exactly to a multiple of bp_per_job: last chunk boundary coincides with the last bin
        check_chunks(f'random {i} exact', rows, max(1, sum(r[2] - r[1] for r in rows)))

    # 4. Through the file based entry point: contig sizes from a BAM header, blacklist from (gzipped) BED
    with tempfile.TemporaryDirectory() as tmp:
        contigs = [('chrA', 1), ('chrB', 10), ('chrC', 997), ('chrD', 2000), ('chrE', 64)]
        bam_path = os.path.join(tmp, 'sizes.bam')
        header = {'HD': {'VN': '1.6', 'SO': 'coordinate'},
                  'SQ': [{'SN': c, 'LN': l} for c, l in contigs]}
        with pysam.AlignmentFile(bam_path, 'wb', header=header):
            pass
        pysam.index(bam_path)

        beds = {
            'none': None,
            'empty': {},
            'plain': {'chrB': [(0, 2), (2, 3), (8, 10)], 'chrC': [(450, 600), (590, 700), (996, 1200)],
                      'chrD': [(450, 1001), (1007, 1019), (1550, 1600), (2300, 2510)], 'chrZ': [(0, 5)]},
            'whole': {'chrA': [(0, 1)], 'chrE': [(0, 64)], 'chrB': [(5, 6), (0, 5), (6, 10)]},
        }
        for name, content in beds.items():
            if content is None:
                bed_path = None
            else:
                bed_path = os.path.join(tmp, name + ('.bed.gz' if name == 'plain' else '.bed'))
                opener = gzip.open if bed_path.endswith('.gz') else open
                with opener(bed_path, 'wt') as f:
                    for c, ivs in content.items():
                        for s, e in ivs:
                            f.write(f'{c}\t{s}\t{e}\n')
            for bin_size in (1, 3, 64, 250, 333, 5000):
                for fragment_size in (None, 0, 10, 400):
                    for resource in ('bam', 'list'):
                        if bin_size == 1 and resource == 'list':
                            continue
                        rows = list(blacklisted_binning_contigs(
                            contig_length_resource=bam_path if resource == 'bam' else list(contigs),
                            bin_size=bin_size, fragment_size=fragment_size, blacklist_path=bed_path,
                            contig_whitelist=None if bin_size != 333 else ['chrB', 'chrD']))
                        record('contigs', name, bin_size, fragment_size, resource, rows)
                        for contig, length in contigs:
                            if bin_size == 333 and contig not in ('chrB', 'chrD'):
                                if any(r[0] == contig for r in rows):
                                    violations.append(f'contig {contig} not in whitelist but tiled')
                                continue
                            oracle(f'blacklisted_binning_contigs[{name},{resource},{contig}]', 0, length, bin_size,
                                   (content or {}).get(contig, []), fragment_size,
                                   [tuple(r[1:]) for r in rows if r[0] == contig])
                        if any(r[0] not in dict(contigs) for r in rows):
                            violations.append(f'bins on unknown contig in {name}')
                        check_chunks(f'contigs {name}', rows, 500)

    print(f'{n_cases} tilings checked')
    print(f'BEHAVIOUR DIGEST {digest.hexdigest()}')
    if violations:
        print(f'PROPERTY VIOLATED ({len(violations)} violations)')
        for v in violations[:20]:
            print('  ', v)
        sys.exit(1)
    print('PROPERTY HOLDS')
    sys.exit(0)


if __name__ == '__main__':
    main()
