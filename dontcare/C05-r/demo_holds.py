#!/usr/bin/env python3
# -*- coding: utf-8 -*-
"""
Independent check of property C05 (tagging conserves alignment records).

For a few hundred simulated BAM files (1..12 contigs of mixed sizes in any header order, empty contigs,
unmapped / half mapped pairs, orphan mates, mates on other contigs, single end reads, invalid fragments)
bamtagmultiome is run (methods nla / chic / qflag, single process or --multiprocess with 1..4 workers) and the
output is compared with the input by an oracle which does not use the tagger:

  * the output holds exactly the primary records of the input, each once, with the same
    name, sequence, qualities, contig, position and CIGAR, and the same mate number when both mates are present
  * the output is coordinate sorted and has a usable index
  * every record has an RG tag which is declared in the header
  * --no_rejects removes exactly the records of the invalid fragments (nla / chic)

Prints "PROPERTY HOLDS" (exit 0) or the violations (exit 1) and a line
"BEHAVIOUR DIGEST <sha256>" which is calculated over all (normalised) raw outputs: status files, headers,
all records including all tags in file order, and the outcome of an unsupported call (-tagthreads 0).
"""
import sys
import os
import json
import random
import hashlib
import tempfile
import subprocess
import shutil
import re
import io
import gc
import contextlib
import collections

N_CASES = 264
N_SHARDS = 8
SMALL = 100000  # contigs below this length are 'small'
UUID_RE = re.compile(r'[0-9a-f]{8}-[0-9a-f]{4}-[0-9a-f]{4}-[0-9a-f]{4}-[0-9a-f]{12}')


# ----------------------------------------------------------------------------------------------------------------
# Input simulation
# ----------------------------------------------------------------------------------------------------------------
def rand_seq(rng, n):
    return ''.join(rng.choice('ACGT') for _ in range(n))


def rand_cigar(rng, qlen):
    """Returns cigar string and reference length for a query of qlen bases"""
    kind = rng.random()
    if kind < 0.6 or qlen < 20:
        return f'{qlen}M', qlen
    if kind < 0.7:
        s = rng.randint(1, 5)
        return f'{s}S{qlen - s}M', qlen - s
    if kind < 0.8:
        s = rng.randint(1, 5)
        return f'{qlen - s}M{s}S', qlen - s
    if kind < 0.9:
        a = rng.randint(5, qlen - 10)
        i = rng.randint(1, 3)
        return f'{a}M{i}I{qlen - a - i}M', qlen - i
    a = rng.randint(5, qlen - 6)
    d = rng.randint(1, 4)
    return f'{a}M{d}D{qlen - a}M', qlen + d


def make_case(rng, case_id):
    """Create the description of one input file: contigs and records (dicts)"""
    n_contigs = rng.choice([1, 1, 2, 2, 3, 4, 5, 6, 8, 10, 12])
    contigs = []
    style = rng.choice(['mixed', 'mixed', 'small', 'big', 'mixed'])
    for i in range(n_contigs):
        if style == 'small' or (style == 'mixed' and rng.random() < 0.5):
            length = rng.choice([400, 999, 5000, 20000, 99999, rng.randint(400, SMALL - 1)])
        else:
            length = rng.choice([SMALL, SMALL + 1, 250000, rng.randint(SMALL, 400000)])
        contigs.append((rng.choice(['chr', 'c', 'scaffold_', '']) + str(i + 1) + rng.choice(['', '', '_alt']), length))
    rng.shuffle(contigs)  # any header order
    # some contigs stay empty
    used = [c for c in contigs if rng.random() < 0.75]
    if len(used) == 0 and rng.random() < 0.8:
        used = [rng.choice(contigs)]

    samples = [f'LIB{rng.randint(1, 2)}_{i}' for i in range(rng.randint(1, 4))]
    umis = [rand_seq(rng, 3) for _ in range(rng.randint(1, 4))]
    lanes = ['1', '2']
    # a few sites per contig: many reads start at the same coordinate (ties in the sorted file, multi fragment molecules)
    sites = {c: [rng.randint(0, max(0, l - 380)) for _ in range(rng.randint(1, 4))] for c, l in used}

    records = []
    n_units = rng.choice([0, 1, 2, 5, 10, 20, 40, 60]) if len(used) else 0
    n_unmapped_units = rng.choice([0, 0, 1, 3, 10, 25])
    if case_id % 29 == 0:
        n_units = 0  # only unmapped reads, or nothing at all
    serial = 0

    def base_tags(sample, umi, lane):
        bc = 'ACGTACGT'
        return [('SM', sample), ('RX', umi), ('BC', bc), ('MI', bc + umi), ('Fc', 'HFLOWCELL'),
                ('La', lane), ('LY', sample.split('_')[0]), ('Is', 'NS500'), ('RN', '77')]

    def new_name():
        nonlocal serial
        serial += 1
        return f'NS500:77:HFLOWCELL:{rng.choice(lanes)}:{11000 + case_id}:{serial}:{rng.randint(1000, 9999)}'

    def rec(name, flag, contig, pos, cigar, seq, mate_contig, mate_pos, tlen, tags, mapq=60):
        qual = ''.join(chr(33 + rng.randint(2, 40)) for _ in seq)
        return dict(name=name, flag=flag, contig=contig, pos=pos, cigar=cigar, seq=seq, qual=qual,
                    mate_contig=mate_contig, mate_pos=mate_pos, tlen=tlen, tags=tags, mapq=mapq)

    kinds = ['proper'] * 8 + ['proper_rev'] * 3 + ['half_r2_unmapped', 'half_r1_unmapped', 'orphan_r1', 'orphan_r2',
                                                   'other_contig', 'single_end', 'qcfail', 'same_strand']
    for _ in range(n_units):
        kind = rng.choice(kinds)
        contig, clen = rng.choice(used)
        sample, umi, lane = rng.choice(samples), rng.choice(umis), rng.choice(lanes)
        tags = base_tags(sample, umi, lane)
        name = new_name()
        site = rng.choice(sites[contig])
        if rng.random() < 0.2:
            site = rng.randint(0, max(0, clen - 380))
        l1, l2 = rng.randint(25, 60), rng.randint(25, 60)
        l1, l2 = min(l1, max(12, clen // 4)), min(l2, max(12, clen // 4))
        has_motif = rng.random() < 0.7
        s1 = rand_seq(rng, l1)
        s2 = rand_seq(rng, l2)
        c1, r1len = rand_cigar(rng, l1)
        c2, r2len = rand_cigar(rng, l2)
        if has_motif:
            c1, r1len = f'{l1}M', l1
        gap = rng.randint(0, 200)
        if kind in ('proper', 'qcfail', 'same_strand', 'half_r2_unmapped', 'orphan_r1', 'other_contig', 'single_end', 'orphan_r2', 'half_r1_unmapped'):
            # R1 forward at the site, R2 reverse downstream
            if has_motif:
                s1 = 'CATG' + s1[4:]
            p1 = min(site, max(0, clen - r1len))
            p2 = min(p1 + gap, max(0, clen - r2len))
            r1_rev, r2_rev = False, True
        else:  # proper_rev: R1 reverse, ends at the site, R2 forward upstream
            if has_motif:
                s1 = s1[:-4] + 'CATG'
            p2 = min(site, max(0, clen - r2len))
            p1 = min(p2 + gap, max(0, clen - r1len))
            r1_rev, r2_rev = True, False
        if kind == 'same_strand':
            r2_rev = r1_rev
        end = max(p1 + r1len, p2 + r2len)
        tl = end - min(p1, p2)
        tl1 = tl if p1 <= p2 else -tl
        qc = 512 if kind == 'qcfail' else 0

        def f(read1, rev, mrev, proper=True, munmap=False, unmap=False):
            v = 1 + (2 if proper else 0) + (64 if read1 else 128) + qc
            if rev:
                v += 16
            if mrev:
                v += 32
            if munmap:
                v += 8
            if unmap:
                v += 4
            return v

        if kind in ('proper', 'proper_rev', 'qcfail', 'same_strand'):
            records.append(rec(name, f(True, r1_rev, r2_rev), contig, p1, c1, s1, contig, p2, tl1, tags))
            records.append(rec(name, f(False, r2_rev, r1_rev), contig, p2, c2, s2, contig, p1, -tl1, tags))
        elif kind == 'half_r2_unmapped':
            records.append(rec(name, f(True, r1_rev, False, proper=False, munmap=True), contig, p1, c1, s1, contig, p1, 0, tags))
            records.append(rec(name, f(False, False, r1_rev, proper=False, unmap=True), contig, p1, None, s2, contig, p1, 0, tags, mapq=0))
        elif kind == 'half_r1_unmapped':
            records.append(rec(name, f(False, r2_rev, False, proper=False, munmap=True), contig, p2, c2, s2, contig, p2, 0, tags))
            records.append(rec(name, f(True, False, r2_rev, proper=False, unmap=True), contig, p2, None, s1, contig, p2, 0, tags, mapq=0))
        elif kind == 'orphan_r1':  # the mate is said to be mapped nearby but is not in the file
            records.append(rec(name, f(True, r1_rev, r2_rev), contig, p1, c1, s1, contig, p2, tl1, tags))
        elif kind == 'orphan_r2':
            records.append(rec(name, f(False, r2_rev, r1_rev), contig, p2, c2, s2, contig, p1, -tl1, tags))
        elif kind == 'other_contig':
            ocontig, olen = rng.choice(used)
            if ocontig == contig:
                records.append(rec(name, f(True, r1_rev, r2_rev), contig, p1, c1, s1, contig, p2, tl1, tags))
                records.append(rec(name, f(False, r2_rev, r1_rev), contig, p2, c2, s2, contig, p1, -tl1, tags))
            else:
                op = min(rng.choice(sites[ocontig]), max(0, olen - r2len))
                records.append(rec(name, f(True, r1_rev, r2_rev, proper=False), contig, p1, c1, s1, ocontig, op, 0, tags))
                records.append(rec(name, f(False, r2_rev, r1_rev, proper=False), ocontig, op, c2, s2, contig, p1, 0, tags))
        elif kind == 'single_end':
            records.append(rec(name, 16 if rng.random() < 0.3 else 0, contig, p1, c1, s1, None, -1, 0, tags))

    for _ in range(n_unmapped_units):
        sample, umi, lane = rng.choice(samples), rng.choice(umis), rng.choice(lanes)
        tags = base_tags(sample, umi, lane)
        name = new_name()
        s1, s2 = rand_seq(rng, rng.randint(20, 50)), rand_seq(rng, rng.randint(20, 50))
        k = rng.random()
        if k < 0.7:
            records.append(rec(name, 1 + 4 + 8 + 64, None, -1, None, s1, None, -1, 0, tags, mapq=0))
            records.append(rec(name, 1 + 4 + 8 + 128, None, -1, None, s2, None, -1, 0, tags, mapq=0))
        elif k < 0.85:
            records.append(rec(name, 1 + 4 + 8 + rng.choice([64, 128]), None, -1, None, s1, None, -1, 0, tags, mapq=0))
        else:
            records.append(rec(name, 4, None, -1, None, s1, None, -1, 0, tags, mapq=0))
    rng.shuffle(records)
    return contigs, records


def write_input(path, contigs, records):
    import pysam
    header = {'HD': {'VN': '1.6', 'SO': 'coordinate'},
              'SQ': [{'SN': c, 'LN': l} for c, l in contigs]}
    names = [c for c, l in contigs]
    unsorted = path + '.in_unsorted.bam'
    with pysam.AlignmentFile(unsorted, 'wb', header=header) as out:
        for r in records:
            a = pysam.AlignedSegment(out.header)
            a.query_name = r['name']
            a.flag = r['flag']
            a.reference_id = names.index(r['contig']) if r['contig'] is not None else -1
            a.reference_start = r['pos']
            a.mapping_quality = r['mapq']
            a.cigarstring = r['cigar']
            a.query_sequence = r['seq']
            a.query_qualities = pysam.qualitystring_to_array(r['qual'])
            a.next_reference_id = names.index(r['mate_contig']) if r['mate_contig'] is not None else -1
            a.next_reference_start = r['mate_pos']
            a.template_length = r['tlen']
            for k, v in r['tags']:
                a.set_tag(k, v)
            out.write(a)
    pysam.sort('-o', path, unsorted)
    pysam.index(path)
    os.remove(unsorted)


# ----------------------------------------------------------------------------------------------------------------
# Oracle
# ----------------------------------------------------------------------------------------------------------------
def record_key(read, with_mate=False):
    k = (read.query_name, read.query_sequence, read.qual, read.reference_name, read.reference_start, read.cigarstring)
    if with_mate:
        k = k + (read.is_read1, read.is_read2)
    return k


def read_primary(path):
    import pysam
    with pysam.AlignmentFile(path) as f:
        return [r for r in f.fetch(until_eof=True) if not r.is_secondary and not r.is_supplementary]


def units_of_input(reads):
    """Group the input reads the way a mate pairing pass over a contig sees them:
    mates with a coordinate on the same contig belong together, everything else is on its own"""
    units = []
    waiting = {}
    for r in reads:
        if r.is_paired and r.reference_id >= 0 and not r.mate_is_unmapped and r.reference_id == r.next_reference_id:
            key = (r.query_name, r.reference_id)
            if key in waiting and waiting[key].is_read1 != r.is_read1:
                units.append([waiting.pop(key), r])
            else:
                waiting[key] = r
        else:
            units.append([r])
    units.extend([[r] for r in waiting.values()])
    return units


def invalid_record_keys(in_path, method):
    """Keys of the records which belong to invalid fragments, judged on the fragment class only"""
    import singlecellmultiomics.fragment as sf
    cls = {'nla': sf.NlaIIIFragment, 'chic': sf.CHICFragment}[method]
    bad = collections.Counter()
    for unit in units_of_input(read_primary(in_path)):
        R1, R2 = None, None
        for r in unit:
            if r.is_paired and r.is_read2:
                R2 = r
            else:
                R1 = r
        keys = [record_key(r) for r in unit]
        fragment = cls([R1, R2], read_group_format=0, umi_hamming_distance=1)
        if not fragment.is_valid():
            bad.update(keys)
    return bad


def check_output(label, in_path, out_path, expect_removed=None):
    """Returns a list of violations"""
    import pysam
    v = []
    if not os.path.exists(out_path):
        return [f'{label}: no output file']
    if not (os.path.exists(out_path + '.bai') or os.path.exists(out_path + '.csi')):
        v.append(f'{label}: output is not indexed')
    inputs = read_primary(in_path)
    expected = collections.Counter(record_key(r) for r in inputs)
    if expect_removed is not None:
        expected = expected - expect_removed
    with pysam.AlignmentFile(out_path) as f:
        header = f.header.to_dict()
        declared = set(rg['ID'] for rg in header.get('RG', []))
        outs = list(f.fetch(until_eof=True))
        try:
            if not f.check_index():
                v.append(f'{label}: index not usable')
            n_by_index = sum(f.count(contig=c) for c in f.references)
            if n_by_index != sum(1 for r in outs if r.reference_id >= 0):
                v.append(f'{label}: index does not return all placed records')
        except Exception as e:
            v.append(f'{label}: index not usable ({e})')
    observed = collections.Counter(record_key(r) for r in outs)
    if observed != expected:
        missing = expected - observed
        extra = observed - expected
        v.append(f'{label}: records differ, {sum(missing.values())} missing, {sum(extra.values())} extra, e.g. {list(missing)[:1]} {list(extra)[:1]}')
    # mate number when both mates are present
    mates_in = collections.defaultdict(set)
    for r in inputs:
        mates_in[r.query_name].add(record_key(r, True))
    mates_out = collections.defaultdict(set)
    for r in outs:
        mates_out[r.query_name].add(record_key(r, True))
    for name, s in mates_in.items():
        if len(s) == 2 and name in mates_out and len(mates_out[name]) == 2 and mates_out[name] != s:
            v.append(f'{label}: mate number changed for {name}')
    # sorted
    prev = None
    for r in outs:
        k = (r.reference_id if r.reference_id >= 0 else 1 << 40, r.reference_start)
        if prev is not None and k < prev:
            v.append(f'{label}: not coordinate sorted at {r.query_name}')
            break
        prev = k
    # read groups
    for r in outs:
        if not r.has_tag('RG'):
            v.append(f'{label}: record {r.query_name} without RG')
            break
        if r.get_tag('RG') not in declared:
            v.append(f'{label}: read group {r.get_tag("RG")} is not declared')
            break
    return v


# ----------------------------------------------------------------------------------------------------------------
# Raw outputs -> digest material
# ----------------------------------------------------------------------------------------------------------------
def raw_output(out_path, keep_rg_order):
    import pysam
    lines = []
    status = out_path.replace('.bam', '.status.txt')
    lines.append('STATUS ' + (open(status).read().strip() if os.path.exists(status) else 'absent'))
    if not os.path.exists(out_path):
        return lines + ['NO OUTPUT']
    with pysam.AlignmentFile(out_path) as f:
        rg = []
        for line in str(f.header).strip().split('\n'):
            if line.startswith('@PG'):
                parts = [p for p in line.split('\t') if p[:3] in ('@PG', 'ID:', 'PN:', 'VN:')]
                lines.append('\t'.join(parts))
            elif line.startswith('@RG'):
                rg.append(line)
            else:
                lines.append(line)
        lines.extend(rg if keep_rg_order else sorted(rg))
        for r in f.fetch(until_eof=True):
            lines.append(r.to_string())
    return lines


def run_tagger(argv):
    import singlecellmultiomics.universalBamTagger.bamtagmultiome as tm
    tm.sleep = lambda s: None  # the tagger waits 5 seconds before it removes its temp folder
    buf = io.StringIO()
    err = None
    try:
        with contextlib.redirect_stdout(buf):
            tm.run_multiome_tagging_cmd(argv)
    except BaseException as e:  # noqa
        err = f'{type(e).__name__}: {e}'
        e.__traceback__ = None
    gc.collect()
    return err


def run_shard(shard, n_shards, result_path):
    work = tempfile.mkdtemp(prefix=f'c05_demo_{shard}_')
    os.chdir(work)
    results = {}
    try:
        for case_id in range(shard, N_CASES, n_shards):
            rng = random.Random(1000 + case_id)
            contigs, records = make_case(rng, case_id)
            in_path = f'{work}/in_{case_id}.bam'
            write_input(in_path, contigs, records)
            method = ['nla', 'chic', 'qflag'][case_id % 3]
            mode = ['single', 'multi', 'both', 'multi'][(case_id // 3) % 4]
            workers = 1 + (case_id // 12) % 4
            violations, raw = [], []
            runs = []
            if mode in ('single', 'both'):
                runs.append(('single', []))
            if mode in ('multi', 'both'):
                runs.append((f'multi{workers}', ['--multiprocess', '-tagthreads', str(workers)]))
            if method != 'qflag' and case_id % 2 == 0:
                runs.append(('norejects_' + runs[-1][0], runs[-1][1] + ['--no_rejects']))
            for run_name, extra in runs:
                out_path = f'{work}/out_{case_id}_{run_name}.bam'
                label = f'case {case_id} {method} {run_name}'
                err = run_tagger([in_path, '-method', method, '-o', out_path] + extra)
                if err is not None:
                    violations.append(f'{label}: tagger failed: {err}')
                removed = invalid_record_keys(in_path, method) if run_name.startswith('norejects') else None
                violations.extend(check_output(label, in_path, out_path, removed))
                raw.append(f'RUN {label}')
                raw.extend(raw_output(out_path, keep_rg_order=(run_name.endswith('single') or run_name.endswith('multi1'))))
                left = sorted(UUID_RE.sub('UUID', x) for x in os.listdir(work) if not x.startswith(('in_', 'out_')))
                raw.append('LEFT ' + ','.join(left))
            if case_id % 40 == 7:
                # Outside the property: an unsupported number of worker processes
                out_path = f'{work}/out_{case_id}_zero.bam'
                err = run_tagger([in_path, '-method', method, '-o', out_path, '--multiprocess', '-tagthreads', '0'])
                raw.append(f'UNSUPPORTED -tagthreads 0: {err}')
                left = sorted(UUID_RE.sub('UUID', x) for x in os.listdir(work) if not x.startswith(('in_', 'out_')))
                raw.append('LEFT ' + ','.join(left))
                for x in os.listdir(work):
                    if x.startswith('scmo_'):
                        shutil.rmtree(os.path.join(work, x), ignore_errors=True)
            n_in = len(records)
            results[case_id] = {'violations': violations, 'sha': hashlib.sha256('\n'.join(raw).encode()).hexdigest(),
                                'n_records': n_in, 'runs': len(runs)}
            for x in os.listdir(work):
                if x.startswith(('in_', 'out_')):
                    os.remove(os.path.join(work, x))
    finally:
        os.chdir('/tmp')
        shutil.rmtree(work, ignore_errors=True)
    with open(result_path, 'w') as o:
        json.dump(results, o)


def main():
    if len(sys.argv) > 1 and sys.argv[1] == '--shard':
        run_shard(int(sys.argv[2]), int(sys.argv[3]), sys.argv[4])
        return 0
    tmp = tempfile.mkdtemp(prefix='c05_demo_main_')
    env = dict(os.environ)
    env['PYTHONHASHSEED'] = '0'
    procs = []
    for shard in range(N_SHARDS):
        log = open(f'{tmp}/shard_{shard}.log', 'w')
        procs.append((shard, subprocess.Popen([sys.executable, os.path.abspath(__file__), '--shard', str(shard), str(N_SHARDS),
                                               f'{tmp}/shard_{shard}.json'], env=env, stdout=log, stderr=subprocess.STDOUT), log))
    results = {}
    failed = []
    for shard, p, log in procs:
        try:
            p.wait(timeout=1500)
        except subprocess.TimeoutExpired:
            p.kill()
            failed.append(f'shard {shard} timed out')
        log.close()
        if os.path.exists(f'{tmp}/shard_{shard}.json'):
            results.update({int(k): v for k, v in json.load(open(f'{tmp}/shard_{shard}.json')).items()})
        else:
            failed.append(f'shard {shard} gave no result: ' + open(f'{tmp}/shard_{shard}.log').read()[-2000:])
    shutil.rmtree(tmp, ignore_errors=True)

    violations = list(failed)
    h = hashlib.sha256()
    n_runs = n_records = 0
    for case_id in range(N_CASES):
        if case_id not in results:
            violations.append(f'case {case_id}: no result')
            continue
        violations.extend(results[case_id]['violations'])
        h.update(f'{case_id}:{results[case_id]["sha"]}\n'.encode())
        n_runs += results[case_id]['runs']
        n_records += results[case_id]['n_records']
    print(f'{N_CASES} input files with {n_records} records, {n_runs} tagger runs checked')
    print(f'BEHAVIOUR DIGEST {h.hexdigest()}')
    if violations:
        print(f'PROPERTY VIOLATED ({len(violations)} violations)')
        for x in violations[:40]:
            print('  ', x)
        return 1
    print('PROPERTY HOLDS')
    return 0


if __name__ == '__main__':
    sys.exit(main())
