#!/usr/bin/env python3
# -*- coding: utf-8 -*-
"""Independent check of property C01 (demultiplexing conserves every read pair).

For every registered demultiplexing strategy a synthetic FASTQ library is
written (whitelisted / 1-mismatch / unknown / truncated barcodes, reads shorter
than the barcode+UMI prefix, empty reads, N bases, every phred value 0..93,
Illumina / short / already-demultiplexed headers, resolvable and unresolvable
sequencing indices) and pushed through DemultiplexingStrategyLoader.demultiplex
paired and single end, with and without a rejects handle, with joint and
one-file-per-cell output and with several maxReadPairs cut-offs.

The oracle below only uses the files which were written and the returned
counters; it does not look at rejection reason wording, the log layout or
anything else the property leaves free.

Prints "PROPERTY HOLDS" (exit 0) or the violations (exit 1) and a
"BEHAVIOUR DIGEST <sha256>" line computed over all raw outputs.
"""
import contextlib
import glob
import gzip
import hashlib
import io
import os
import random
import re
import shutil
import sys
import tempfile

import singlecellmultiomics
from singlecellmultiomics.barcodeFileParser.barcodeFileParser import BarcodeParser
from singlecellmultiomics.fastqProcessing.fastqHandle import FastqHandle
from singlecellmultiomics.modularDemultiplexer.demultiplexingStrategyLoader import DemultiplexingStrategyLoader

PKG = os.path.dirname(os.path.realpath(singlecellmultiomics.__file__))
RNG = random.Random(20240601)
DIGEST = hashlib.sha256()
VIOLATIONS = []
N_RUNS = 0
N_ACCEPTED = 0
N_REJECTED = 0

GOOD_INDICES = []  # filled in main()
TENX_BARCODES = []


def digest(label, payload):
    if isinstance(payload, str):
        payload = payload.encode('utf-8')
    DIGEST.update(label.encode('utf-8') + b'\x00')
    DIGEST.update(str(len(payload)).encode() + b'\x00')
    DIGEST.update(payload)


def violation(ctx, msg):
    VIOLATIONS.append(f'{ctx}: {msg}')


def randseq(n, alphabet='ACGT'):
    return ''.join(RNG.choice(alphabet) for _ in range(n))


def mutate(bc):
    """Return bc with exactly one substituted base"""
    pos = RNG.randrange(len(bc))
    alt = RNG.choice([b for b in 'ACGT' if b != bc[pos]])
    return bc[:pos] + alt + bc[pos + 1:]


# ---------------------------------------------------------------------------
# Input construction
# ---------------------------------------------------------------------------

def make_header(kind, i, mate, index_seq):
    """Headers carry a unique (lane, tile, x, y) per read pair"""
    lane, tile, x, y = 1 + i % 4, 11101 + i, 1000 + i, 2000 + 7 * i
    if kind == 'illumina':
        return f'@NS500414:628:H7YVNBGXC:{lane}:{tile}:{x}:{y} {mate}:N:0:{index_seq}'
    if kind == 'short':
        return f'@NS500414:628:H7YVNBGXC:{lane}:{tile}:{x}:{y}'
    if kind == 'demuxed':
        # 8 tags, so that the header cannot be mistaken for an illumina one
        return f'@Is:NS500414;RN:628;Fc:H7YVNBGXC;La:{lane};Ti:{tile};CX:{x};CY:{y};aa:{index_seq}'
    raise ValueError(kind)


def identity(header):
    """(lane, tile, x, y) of a record written by the demultiplexer or present in the input"""
    if header.startswith('@Is:'):
        tags = {}
        for kv in header[1:].split(';'):
            k, _, v = kv.partition(':')
            tags.setdefault(k, v)
        return tuple(str(tags.get(k)) for k in ('La', 'Ti', 'CX', 'CY'))
    parts = re.split(r'[: ;]', header[1:])
    return tuple(parts[3:7])


def build_library(strategy, barcode_parser, n_reads):
    """Returns list of (r1, r2) where r = (header, seq, plus, qual)"""
    bc_read = getattr(strategy, 'barcodeRead', 0)
    bc_start = getattr(strategy, 'barcodeStart', 3)
    bc_len = getattr(strategy, 'barcodeLength', 8)
    umi_read = getattr(strategy, 'umiRead', 0)
    umi_start = getattr(strategy, 'umiStart', 0)
    umi_len = getattr(strategy, 'umiLength', 3)
    alias = getattr(strategy, 'barcodeFileAlias', None)
    whitelist = []
    if alias is not None:
        try:
            whitelist = sorted(barcode_parser[alias] or [])
        except Exception:
            whitelist = []
    if bc_len is None:
        bc_len = 8
    prefix_len = max(bc_start + bc_len, umi_start + (umi_len or 0))

    kinds = ['good', 'good', 'good', 'mismatch', 'unknown', 'truncated', 'short', 'empty',
             'nbases', 'good', 'empty_mate', 'both_empty', 'good', 'poly', 'nonly']
    header_kinds = ['illumina', 'illumina', 'short', 'demuxed', 'illumina']
    pairs = []
    phred_cursor = 0
    for i in range(n_reads):
        kind = kinds[i % len(kinds)] if i >= 3 else 'good'
        hkind = header_kinds[(i // 2) % len(header_kinds)]
        # Mostly resolvable sequencing indices, sometimes something which is in no index file
        index_seq = RNG.choice(GOOD_INDICES) if i % 11 != 10 else 'NNNNNNNNNNNNNNN'

        body_len = RNG.choice([0, 1, 5, 20, 40, 75])
        if kind in ('good', 'mismatch', 'unknown', 'nbases', 'poly', 'empty_mate'):
            if whitelist and kind != 'unknown':
                bc = RNG.choice(whitelist)
                if len(bc) != bc_len:
                    bc = (bc + randseq(bc_len))[:bc_len]
            else:
                bc = randseq(bc_len)
            if kind == 'mismatch':
                bc = mutate(bc)
            lead = list(randseq(prefix_len))
            lead[bc_start:bc_start + bc_len] = list(bc)
            lead = ''.join(lead)
            if kind == 'nbases':
                # N in the UMI / barcode region
                pos = RNG.randrange(prefix_len)
                lead = lead[:pos] + 'N' + lead[pos + 1:]
            if kind == 'poly':
                tail = RNG.choice(['CATG', 'TA', 'T' * 24, 'GATC']) + randseq(max(body_len, 30))
            else:
                tail = RNG.choice(['CATG', 'TA', 'AT', 'GATC', '']) + randseq(body_len)
            seq_bc = lead + tail
        elif kind == 'truncated':
            # ends inside the barcode
            seq_bc = randseq(RNG.randrange(bc_start, bc_start + bc_len))
        elif kind == 'short':
            seq_bc = randseq(RNG.randrange(0, max(1, bc_start + 1)))
        elif kind == 'nonly':
            seq_bc = 'N' * (prefix_len + body_len)
        else:  # empty, both_empty
            seq_bc = ''
        other = randseq(RNG.choice([0, 3, 6, 30, 60, 100]), 'ACGTN' if i % 5 == 0 else 'ACGT')
        if kind == 'both_empty':
            other = ''
        if kind == 'empty_mate':
            other = ''

        if bc_read == 0:
            seqs = [seq_bc, other]
        else:
            seqs = [other, seq_bc]

        quals = []
        for s in seqs:
            # Sweep through every sanger phred value 0..93, the sweep starts at the read start
            q = ''.join(chr(33 + ((phred_cursor + j) % 94)) for j in range(len(s)))
            phred_cursor += 7
            quals.append(q)
        pair = tuple((make_header(hkind, i, mate + 1, index_seq), seqs[mate], '+', quals[mate])
                     for mate in range(2))
        pairs.append(pair)
    return pairs


def write_fastq(path, records, gz):
    opener = (lambda p: gzip.open(p, 'wt')) if gz else (lambda p: open(p, 'w'))
    with opener(path) as h:
        for rec in records:
            h.write('\n'.join(rec) + '\n')


def read_fastq_gz(path, ctx):
    with gzip.open(path, 'rt') as h:
        raw = h.read()
    lines = raw.split('\n')
    if lines and lines[-1] == '':
        lines = lines[:-1]
    if len(lines) % 4 != 0:
        violation(ctx, f'{os.path.basename(path)} holds {len(lines)} lines, not a multiple of four')
        lines = lines[:len(lines) - len(lines) % 4]
    records = [tuple(lines[i:i + 4]) for i in range(0, len(lines), 4)]
    for rec in records:
        if not rec[0].startswith('@') or len(rec[1]) != len(rec[3]):
            violation(ctx, f'malformed record in {os.path.basename(path)}: {rec!r}')
    return raw, records


# ---------------------------------------------------------------------------
# Oracle
# ---------------------------------------------------------------------------

def reject_reason(header):
    pos = header.find('RR:')
    if pos < 0:
        return None
    return header[pos + 3:].split(';')[0]


def check_run(ctx, inputs, mates, workdir, with_rejects, single_cell, max_pairs, processed, yields, log_text):
    global N_ACCEPTED, N_REJECTED
    n_expected = len(inputs) if max_pairs is None else min(len(inputs), max_pairs)
    if processed != n_expected:
        violation(ctx, f'reported {processed} processed read pairs, expected {n_expected}')
    considered = inputs[:n_expected]
    by_identity = {}
    for idx, pair in enumerate(considered):
        by_identity[identity(pair[0][0])] = idx
    assert len(by_identity) == len(considered)

    mate_names = ['R1', 'R2'][:mates]

    # -- collect the demultiplexed output, per output file set
    file_sets = []  # list of {mate: path}
    if single_cell:
        groups = {}
        for path in sorted(glob.glob(os.path.join(workdir, 'demultiplexed.*.fastq.gz'))):
            m = re.match(r'^(.*)\.(R[12])\.fastq\.gz$', path)
            groups.setdefault(m.group(1), {})[m.group(2)] = path
        file_sets = [groups[k] for k in sorted(groups)]
    else:
        file_sets = [{m: os.path.join(workdir, f'demultiplexed{m}.fastq.gz') for m in mate_names}]
        if mates == 1 and os.path.exists(os.path.join(workdir, 'demultiplexedR2.fastq.gz')):
            violation(ctx, 'single end run wrote an R2 file')

    accepted = []  # input indices
    for fs in file_sets:
        if sorted(fs) != mate_names:
            violation(ctx, f'output file set {sorted(fs)} does not match mates {mate_names}')
        per_mate = {}
        for m in sorted(fs):
            raw, recs = read_fastq_gz(fs[m], ctx)
            digest(f'{ctx}|{os.path.basename(fs[m])}', raw)
            per_mate[m] = recs
        counts = {m: len(r) for m, r in per_mate.items()}
        if len(set(counts.values())) > 1:
            violation(ctx, f'mate files out of sync: {counts}')
        first = per_mate[sorted(per_mate)[0]]
        indices = []
        for ri, rec in enumerate(first):
            ident = identity(rec[0])
            if ident not in by_identity:
                violation(ctx, f'demultiplexed record {rec[0]} does not stem from the (considered) input')
                continue
            indices.append(by_identity[ident])
            for m, recs in per_mate.items():
                if ri < len(recs) and identity(recs[ri][0]) != ident:
                    violation(ctx, f'mates not on the same record index {ri}: {rec[0]} vs {recs[ri][0]}')
        if indices != sorted(indices):
            violation(ctx, 'input order not preserved in the demultiplexed output')
        accepted.extend(indices)

    # -- rejects
    rejected = []
    if with_rejects:
        per_mate = {}
        for m in mate_names:
            path = os.path.join(workdir, f'rejects{m}.fastq.gz')
            raw, recs = read_fastq_gz(path, ctx)
            digest(f'{ctx}|{os.path.basename(path)}', raw)
            per_mate[m] = recs
        counts = {m: len(r) for m, r in per_mate.items()}
        if len(set(counts.values())) > 1:
            violation(ctx, f'reject mate files out of sync: {counts}')
        for ri, rec in enumerate(per_mate['R1']):
            ident = identity(rec[0])
            if ident not in by_identity:
                violation(ctx, f'rejected record {rec[0]} does not stem from the (considered) input')
                continue
            idx = by_identity[ident]
            rejected.append(idx)
            for mi, m in enumerate(mate_names):
                if ri >= len(per_mate[m]):
                    continue
                out = per_mate[m][ri]
                if identity(out[0]) != ident:
                    violation(ctx, f'reject mates not on the same record index {ri}')
                reason = reject_reason(out[0])
                if reason is None or len(reason) == 0:
                    violation(ctx, f'reject without a rejection reason: {out[0]}')
                src = considered[idx][mi]
                if out[1] != src[1] or out[3] != src[3]:
                    violation(ctx, f'reject {out[0]} lost its original bases / qualities')
        if rejected != sorted(rejected):
            violation(ctx, 'input order not preserved in the rejects output')
    else:
        if glob.glob(os.path.join(workdir, 'rejects*')):
            violation(ctx, 'rejects were written without a rejects handle')

    # -- exactly once
    seen = {}
    for idx in accepted:
        seen[idx] = seen.get(idx, 0) + 1
    for idx in rejected:
        seen[idx] = seen.get(idx, 0) + 1
    for idx, n in seen.items():
        if n != 1:
            violation(ctx, f'input read pair {idx} was written {n} times')
    if set(accepted) & set(rejected):
        violation(ctx, 'read pairs both demultiplexed and rejected')
    if with_rejects:
        missing = set(range(n_expected)) - set(seen)
        if missing:
            violation(ctx, f'read pairs written nowhere: {sorted(missing)[:5]}')

    # -- counters
    if sum(yields.values()) != len(accepted):
        violation(ctx, f'yield counters {dict(yields)} but {len(accepted)} records written')
    m = re.search(r'^processed (\d+) read pairs$', log_text, re.M)
    if m is None or int(m.group(1)) != processed:
        violation(ctx, 'log does not report the processed read pair count')
    table = log_text.split('Strategy\tReads\n')[-1].strip('\n')
    logged = {}
    for line in table.split('\n'):
        if line:
            k, _, v = line.partition('\t')
            logged[k] = int(v)
    if logged != {k: v for k, v in yields.items()}:
        violation(ctx, f'log table {logged} differs from counters {dict(yields)}')

    N_ACCEPTED += len(accepted)
    N_REJECTED += len(rejected)


def stable_log(log_text):
    """The log may hold tracebacks (source line numbers): keep the summary part only then"""
    if 'Traceback' in log_text:
        return log_text[log_text.rfind('\nprocessed ') + 1:] if '\nprocessed ' in log_text else ''
    return log_text


def run(loader, strategy, inputs, mates, with_rejects, single_cell, max_pairs, gz_input, base):
    global N_RUNS
    N_RUNS += 1
    ctx = (f'{strategy.shortName}|{"PE" if mates == 2 else "SE"}|rejects={with_rejects}|'
           f'percell={single_cell}|max={max_pairs}')
    workdir = os.path.join(base, f'run{N_RUNS}')
    os.makedirs(workdir)
    ext = '.fastq.gz' if gz_input else '.fastq'
    fq = []
    for mate in range(mates):
        path = os.path.join(workdir, f'in_R{mate + 1}{ext}')
        write_fastq(path, [pair[mate] for pair in inputs], gz_input)
        fq.append(path)

    target = FastqHandle(os.path.join(workdir, 'demultiplexed'), mates == 2, single_cell=single_cell, maxHandles=5)
    rejects = FastqHandle(os.path.join(workdir, 'rejects'), mates == 2) if with_rejects else None
    log = io.StringIO()
    stdout = io.StringIO()
    try:
        with contextlib.redirect_stdout(stdout):
            processed, yields = loader.demultiplex(
                fq, maxReadPairs=max_pairs, strategies=[strategy], library='LIB_' + strategy.shortName,
                targetFile=target, rejectHandle=rejects, log_handle=log)
    except Exception as e:
        violation(ctx, f'demultiplexing aborted with {type(e).__name__}: {e}')
        return
    finally:
        target.close()
        if rejects is not None:
            rejects.close()
    digest(f'{ctx}|counters', f'{processed} {sorted(yields.items())}')
    digest(f'{ctx}|log', stable_log(log.getvalue()))
    check_run(ctx, inputs, mates, workdir, with_rejects, single_cell, max_pairs, processed, yields, log.getvalue())
    shutil.rmtree(workdir)


def main():
    global GOOD_INDICES
    barcode_dir = os.path.join(PKG, 'modularDemultiplexer', 'barcodes')
    index_dir = os.path.join(PKG, 'modularDemultiplexer', 'indices')
    with contextlib.redirect_stdout(io.StringIO()):
        barcode_parser = BarcodeParser(
            barcodeDirectory=barcode_dir, hammingDistanceExpansion=1,
            lazyLoad=('10x_3M-february-2018',))
        # The 3M 10x whitelist is replaced by a small one of our own
        barcode_parser.pending_files.pop('10x_3M-february-2018', None)
        for i in range(24):
            barcode_parser.addBarcode('10x_3M-february-2018', barcode=randseq(16), index=i + 1)
        barcode_parser.expand(1, alias='10x_3M-february-2018')
        index_parser = BarcodeParser(hammingDistanceExpansion=1, barcodeDirectory=index_dir)
        loader = DemultiplexingStrategyLoader(
            barcodeParser=barcode_parser, indexParser=index_parser,
            indexFileAlias='illumina_merged_ThruPlex48S_RP')
    GOOD_INDICES = sorted(index_parser['illumina_merged_ThruPlex48S_RP'])[:12]
    assert GOOD_INDICES

    base = tempfile.mkdtemp(prefix='c01_demo_')
    try:
        for si, strategy in enumerate(loader.demultiplexingStrategies):
            n_reads = 45 + (si % 3) * 8
            inputs = build_library(strategy, barcode_parser, n_reads)
            cutoffs = [None, 1, 7, n_reads, n_reads + 5]
            k = 0
            for mates in (2, 1):
                for with_rejects in (True, False):
                    for single_cell in (False, True):
                        max_pairs = cutoffs[(k + si) % len(cutoffs)]
                        run(loader, strategy, inputs, mates, with_rejects, single_cell,
                            max_pairs, gz_input=(k % 2 == 0), base=base)
                        k += 1
            # plus the uncut paired / single end runs with rejects
            run(loader, strategy, inputs, 2, True, False, None, True, base)
            run(loader, strategy, inputs, 1, True, False, None, False, base)
    finally:
        shutil.rmtree(base, ignore_errors=True)

    print(f'{N_RUNS} demultiplexing runs over {len(loader.demultiplexingStrategies)} strategies, '
          f'{N_ACCEPTED} read (pairs) demultiplexed, {N_REJECTED} rejected')
    print(f'BEHAVIOUR DIGEST {DIGEST.hexdigest()}')
    if VIOLATIONS:
        print(f'PROPERTY VIOLATED ({len(VIOLATIONS)} findings)')
        for v in VIOLATIONS[:40]:
            print('  ' + v)
        sys.exit(1)
    print('PROPERTY HOLDS')
    sys.exit(0)


if __name__ == '__main__':
    main()
