#!/usr/bin/env python
"""Independent check of property C13 (molecule consensus = strict majority call, never a tie).

Builds random molecules (1..12 fragments; overlapping mates, mismatches, N calls,
quality ties between mates, single-end fragments, dove-tailed mates), writes them to a
BAM file in a temporary directory, reads them back, and compares
Molecule.get_consensus() with an oracle written from the property statement:
  * every fragment contributes one call per position (the higher-quality mate),
  * the consensus is the base with strictly more calls than any other base,
  * ties / N-only positions are absent,
  * insertion order does not matter, duplicating every fragment changes nothing.

Prints "PROPERTY HOLDS" (exit 0) or "PROPERTY VIOLATED" (exit 1), and a
"BEHAVIOUR DIGEST" line: sha256 over all raw outputs that were observed.
"""
import hashlib
import itertools
import os
import random
import sys
import tempfile
from collections import Counter, defaultdict

import pysam

from singlecellmultiomics.fragment import Fragment
from singlecellmultiomics.molecule import Molecule

SEED = 1313
N_MOLECULES = 320
CONTIG = 'chr1'
REF_LEN = 400
READ_LEN_RANGE = (12, 30)

rng = random.Random(SEED)
REFERENCE = ''.join(rng.choice('ACGT') for _ in range(REF_LEN))

raw_outputs = []          # everything observable goes in here -> digest
violations = []


def record(label, value):
    raw_outputs.append('%s\t%s' % (label, value))


def render(obj):
    """Deterministic text rendering of a returned object: keeps container types, element types,
    dtypes and list order. Dictionary keys are sorted, the iteration order of the dictionaries
    involved depends on the (per process randomised) string hash, and reprs of defaultdicts
    contain memory addresses."""
    if isinstance(obj, dict):
        return '%s{%s}' % (type(obj).__name__,
                           ', '.join('%s: %s' % (render(k), render(v)) for k, v in sorted(obj.items())))
    if isinstance(obj, (tuple, list)):
        return '%s(%s)' % (type(obj).__name__, ', '.join(render(x) for x in obj))
    if hasattr(obj, 'dtype') and hasattr(obj, 'tolist'):
        return 'ndarray<%s>%r' % (obj.dtype, obj.tolist())
    return '%s:%r' % (type(obj).__name__, obj)


def md_tag(read_seq, ref_seq):
    """MD tag of an ungapped alignment"""
    md, run = [], 0
    for q, r in zip(read_seq, ref_seq):
        if q == r:
            run += 1
        else:
            md.append(str(run))
            md.append(r)
            run = 0
    md.append(str(run))
    return ''.join(md)


def make_read(header, name, start, length, is_reverse, is_read1, paired, mate_start, qual_pool):
    ref = REFERENCE[start:start + length]
    seq = []
    for base in ref:
        x = rng.random()
        if x < 0.10:
            seq.append(rng.choice([b for b in 'ACGT' if b != base]))  # mismatch
        elif x < 0.17:
            seq.append('N')
        else:
            seq.append(base)
    seq = ''.join(seq)
    read = pysam.AlignedSegment(header)
    read.query_name = name
    read.reference_id = 0
    read.reference_start = start
    read.query_sequence = seq
    read.query_qualities = pysam.qualitystring_to_array(
        ''.join(chr(33 + rng.choice(qual_pool)) for _ in range(length)))
    read.cigarstring = '%dM' % length
    read.mapping_quality = 60
    read.is_reverse = is_reverse
    read.is_paired = paired
    if paired:
        read.is_proper_pair = True
        read.is_read1 = is_read1
        read.is_read2 = not is_read1
        read.mate_is_reverse = not is_reverse
        read.next_reference_id = 0
        read.next_reference_start = mate_start
    else:
        read.is_read1 = True
    read.set_tag('SM', 'CELL_1')
    read.set_tag('RX', 'ACG')
    read.set_tag('MI', name.split('_')[0])
    read.set_tag('MD', md_tag(seq, ref))
    return read


def design_molecule(header, mol_index):
    """returns list of fragments, every fragment is a list of 1 or 2 reads (R1[, R2])"""
    n_frags = rng.randint(1, 12)
    r1_reverse = rng.random() < 0.3
    anchor = rng.randint(60, REF_LEN - 120)
    # a small pool of qualities makes quality ties between mates common
    qual_pool = rng.choice([[30], [20, 30], [10, 20, 30, 37], list(range(2, 41))])
    frags = []
    for fi in range(n_frags):
        name = 'm%d_f%d' % (mol_index, fi)
        l1 = rng.randint(*READ_LEN_RANGE)
        l2 = rng.randint(*READ_LEN_RANGE)
        kind = rng.random()
        jitter = rng.randint(0, 3)
        if not r1_reverse:
            s1 = anchor + jitter
            if kind < 0.2:    # single end
                frags.append([make_read(header, name, s1, l1, False, True, False, None, qual_pool)])
                continue
            elif kind < 0.45:  # dove tailed: R2 (reverse) starts left of R1 start and/or R1 runs past R2's end
                s2 = s1 - rng.randint(1, 8)
                if rng.random() < 0.5:
                    l2 = min(l2, max(6, l1 - rng.randint(0, 6)))
            elif kind < 0.85:  # overlapping mates
                s2 = s1 + rng.randint(0, l1 - 1)
            else:             # mates which do not overlap
                s2 = s1 + l1 + rng.randint(0, 10)
            r1 = make_read(header, name, s1, l1, False, True, True, s2, qual_pool)
            r2 = make_read(header, name, s2, l2, True, False, True, s1, qual_pool)
        else:
            e1 = anchor + 40 + jitter   # exclusive end of R1 (reverse)
            s1 = e1 - l1
            if kind < 0.2:
                frags.append([make_read(header, name, s1, l1, True, True, False, None, qual_pool)])
                continue
            elif kind < 0.45:  # dove tailed: R2 (forward) ends right of R1 end
                e2 = e1 + rng.randint(1, 8)
                s2 = e2 - l2
            elif kind < 0.85:
                s2 = s1 - rng.randint(0, l2 - 1)
            else:
                s2 = s1 - l2 - rng.randint(0, 10)
            r1 = make_read(header, name, s1, l1, True, True, True, s2, qual_pool)
            r2 = make_read(header, name, s2, l2, False, False, True, s1, qual_pool)
        frags.append([r1, r2])
    return frags


# ---------------------------------------------------------------- oracle
def read_calls(read, lo=None, hi=None):
    """{(contig,pos):(base,qual)} for an ungapped read, optionally limited to lo..hi (inclusive)"""
    calls = {}
    for i, (b, q) in enumerate(zip(read.query_sequence, read.query_qualities)):
        pos = read.reference_start + i
        if lo is not None and (pos < lo or pos > hi):
            continue
        calls[(read.reference_name, pos)] = (b, int(q))
    return calls


def fragment_calls(reads, dove_safe):
    """one call per position per fragment: the higher quality mate; None: fragment does not vote"""
    r1 = reads[0]
    r2 = reads[1] if len(reads) > 1 else None
    lo = hi = None
    if dove_safe:
        if r1 is None or r2 is None:
            return None
        if r1.is_reverse and not r2.is_reverse:
            lo, hi = r2.reference_start, r1.reference_end - 1
        elif not r1.is_reverse and r2.is_reverse:
            lo, hi = r1.reference_start, r2.reference_end - 1
        else:
            return None
    c1 = read_calls(r1, lo, hi)
    c2 = read_calls(r2, lo, hi) if r2 is not None else {}
    out = {}
    for pos in set(c1) | set(c2):
        a, b = c1.get(pos), c2.get(pos)
        if a is None or b is None:
            base = (a or b)[0]
        elif a[1] > b[1]:
            base = a[0]
        elif b[1] > a[1]:
            base = b[0]
        elif a[0] == b[0]:
            base = a[0]
        else:
            base = 'N'  # mates disagree at equal quality: the fragment makes no call
        out[pos] = base
    return out


def oracle_consensus(frag_reads, dove_safe):
    votes = defaultdict(Counter)
    for reads in frag_reads:
        calls = fragment_calls(reads, dove_safe)
        if calls is None:
            continue
        for pos, base in calls.items():
            if base != 'N':
                votes[pos][base] += 1
    consensus = {}
    for pos, counter in votes.items():
        ranked = counter.most_common()
        if len(ranked) == 1 or ranked[0][1] > ranked[1][1]:
            consensus[pos] = ranked[0][0]
    return consensus, votes


# ---------------------------------------------------------------- code under test
def build_molecule(frag_reads):
    mol = Molecule()
    for reads in frag_reads:
        frag = Fragment(list(reads) if len(reads) == 2 else [reads[0], None],
                        assignment_radius=10_000, umi_hamming_distance=1)
        if not mol.add_fragment(frag):
            raise RuntimeError('the test fragment was not accepted by the molecule')
    return mol


def plain(consensus):
    return {(str(k[0]), int(k[1])): str(v) for k, v in consensus.items()}


def check(label, got, expected):
    if got != expected:
        diff = {k: (got.get(k), expected.get(k)) for k in set(got) | set(expected) if got.get(k) != expected.get(k)}
        violations.append('%s: consensus differs from the strict majority call: %s' % (label, sorted(diff.items())[:5]))


def main():
    tmpdir = tempfile.mkdtemp(prefix='c13_demo_')
    bam_path = os.path.join(tmpdir, 'molecules.bam')
    header = pysam.AlignmentHeader.from_dict(
        {'HD': {'VN': '1.6', 'SO': 'unsorted'}, 'SQ': [{'SN': CONTIG, 'LN': REF_LEN}]})

    layout = []  # per molecule: list of number of reads per fragment
    with pysam.AlignmentFile(bam_path, 'wb', header=header) as out:
        for mi in range(N_MOLECULES):
            frags = design_molecule(header, mi)
            layout.append([len(f) for f in frags])
            for f in frags:
                for r in f:
                    out.write(r)

    # Read everything back from the temporary BAM file
    with pysam.AlignmentFile(bam_path, 'rb', check_sq=False) as handle:
        reads = list(handle.fetch(until_eof=True))
    it = iter(reads)
    molecules = [[[next(it) for _ in range(n)] for n in frag_layout] for frag_layout in layout]

    n_tie_positions = n_positions = 0
    for mi, frag_reads in enumerate(molecules):
        for dove_safe in (False, True):
            expected, votes = oracle_consensus(frag_reads, dove_safe)
            n_positions += len(votes)
            n_tie_positions += len(votes) - len(expected)
            label = 'molecule %d dove_safe=%s' % (mi, dove_safe)

            mol = build_molecule(frag_reads)
            result = mol.get_consensus(dove_safe=dove_safe)
            record(label + ' consensus', repr(result))
            got = plain(result)
            check(label, got, expected)
            if any(b not in 'ACGT' for b in got.values()):
                violations.append(label + ': a non ACGT base was reported')

            # alternative entry point, also returns phred scores and observation counts
            alt = mol.get_consensus(dove_safe=dove_safe, with_probs_and_obs=True)
            record(label + ' with_probs_and_obs', render(alt))
            check(label + ' with_probs_and_obs', plain(alt[0]), expected)

            # insertion order
            if len(frag_reads) <= 4:
                orders = list(itertools.permutations(range(len(frag_reads))))
            else:
                orders = [tuple(reversed(range(len(frag_reads))))]
                for _ in range(4):
                    o = list(range(len(frag_reads)))
                    rng.shuffle(o)
                    orders.append(tuple(o))
            for order in orders:
                permuted = plain(build_molecule([frag_reads[i] for i in order]).get_consensus(dove_safe=dove_safe))
                if permuted != got:
                    violations.append('%s: result depends on the insertion order %s' % (label, order))
                check(label + ' order %s' % (order,), permuted, expected)

            # every fragment twice
            doubled = plain(build_molecule(list(frag_reads) + list(frag_reads)).get_consensus(dove_safe=dove_safe))
            if doubled != got:
                violations.append('%s: result changes when every fragment is duplicated' % label)
            interleaved = plain(build_molecule(
                [f for f in frag_reads for _ in range(2)]).get_consensus(dove_safe=dove_safe))
            if interleaved != got:
                violations.append('%s: result changes when every fragment is duplicated (interleaved)' % label)

    # Corner cases of the surrounding interface (not constrained by the property, recorded for the digest)
    single = [f for m in molecules for f in m if len(f) == 1][:3]
    for i, reads in enumerate(single):
        frag = Fragment([reads[0], None], assignment_radius=10_000)
        try:
            record('single end fragment %d dove_safe' % i, repr(frag.get_consensus(dove_safe=True)))
        except ValueError as e:
            record('single end fragment %d dove_safe' % i, 'ValueError: %s' % e)
        mol = Molecule()
        mol.add_fragment(frag)
        empty = mol.get_consensus(dove_safe=True)
        if empty != {}:
            violations.append('a molecule without usable fragments reported consensus bases')
        record('no usable fragments', repr(empty))
        record('no usable fragments with_probs_and_obs', render(mol.get_consensus(dove_safe=True, with_probs_and_obs=True)))
        try:
            record('allow_N', repr(mol.get_consensus(allow_N=True)))
        except NotImplementedError as e:
            record('allow_N', 'NotImplementedError: %s' % e)

    # mates facing the same way: no dove safe window can be determined
    paired = [f for m in molecules for f in m if len(f) == 2][:3]
    for i, reads in enumerate(paired):
        r1, r2 = reads
        r2.is_reverse = r1.is_reverse
        frag = Fragment([r1, r2], assignment_radius=10_000)
        try:
            record('same direction mates %d' % i, repr(frag.get_consensus(dove_safe=True)))
        except ValueError as e:
            record('same direction mates %d' % i, 'ValueError: %s' % e)
        mol = Molecule()
        mol.add_fragment(frag)
        if mol.get_consensus(dove_safe=True) != {}:
            violations.append('mates facing the same direction voted in dove safe mode')

    print('molecules: %d, voted positions: %d, tie positions: %d' % (len(molecules), n_positions, n_tie_positions))
    digest = hashlib.sha256('\n'.join(raw_outputs).encode()).hexdigest()
    print('BEHAVIOUR DIGEST %s' % digest)
    if violations:
        print('PROPERTY VIOLATED')
        for v in violations[:20]:
            print('  ' + v)
        return 1
    print('PROPERTY HOLDS')
    return 0


if __name__ == '__main__':
    sys.exit(main())
