#!/usr/bin/env python3
# -*- coding: utf-8 -*-
"""Independent check of property C04 (read-name encoding round-trips).

FASTQ read pairs -> demultiplexer (read name) -> BAM file -> QueryNameFlagger -> BAM tags.
The oracle below is written without using the decoding code of the repository:
it parses the Illumina header and the demultiplexed read name on its own.

Prints "PROPERTY HOLDS" (exit 0) or the list of violations (exit 1), and a
"BEHAVIOUR DIGEST" over all raw outputs (tagged SAM lines, messages, statistics).
"""
import hashlib
import os
import random
import string
import sys
import tempfile
import warnings

warnings.filterwarnings('ignore')

import pysam
import pkg_resources

from singlecellmultiomics.fastqProcessing.fastqIterator import FastqRecord
from singlecellmultiomics.barcodeFileParser.barcodeFileParser import BarcodeParser
from singlecellmultiomics.modularDemultiplexer.demultiplexingStrategyLoader import DemultiplexingStrategyLoader
from singlecellmultiomics.modularDemultiplexer.baseDemultiplexMethods import (
    NonMultiplexable, TaggedRecord, UmiBarcodeDemuxMethod,
    phredToFastqHeaderSafeQualities, fastqHeaderSafeQualitiesToPhred)
from singlecellmultiomics.universalBamTagger.universalBamTagger import QueryNameFlagger

RNG = random.Random(20404)
LETTERS = 'abcdefghijklmnopqrstuvwxyzABCDEFGHIJKLMNOPQRSTUVWXYZ'  # own copy, 52 symbols
SAFE = string.ascii_letters + string.digits + '-_+'               # header-safe alphabet
INDEX_ALIAS = 'illumina_merged_ThruPlex48S_RP'

violations = []
raw_outputs = []   # everything observable, goes into the digest


def violation(msg):
    violations.append(msg)


def out(*parts):
    raw_outputs.append('\t'.join(str(p) for p in parts))


# ---------------------------------------------------------------- oracle helpers
def saturate(q):
    """What the phred characters look like after the (saturating) header encoding."""
    return ''.join(chr(min(ord(c), 33 + 51)) for c in q)


def my_decode_quals(encoded):
    return ''.join(chr(LETTERS.index(c) + 33) for c in encoded)


def parse_illumina(header):
    """Own parser of the header variants. Returns dict of the 7 coordinates + index."""
    h = header[1:] if header.startswith('@') else header
    if '_' in h and ':' not in h:  # 3-DEC: Cluster_s_lane_tile_pair
        _c, _s, lane, tile, _pair = h.split('_')
        return dict(Is='UNK', RN='UNK', Fc='UNK', La=lane, Ti=tile, CX='-1', CY='-1', index=None)
    parts = h.split(' ')
    coords = parts[0].split(':')
    assert len(coords) == 7
    index = None
    if len(parts) > 1:
        rest = parts[1].split(':')
        if len(rest) >= 4 and rest[3] != '':
            index = rest[3]
        else:
            index = 'N'
    else:
        index = 'N'
    d = dict(zip(['Is', 'RN', 'Fc', 'La', 'Ti', 'CX', 'CY'], coords))
    d['index'] = index
    return d


def read_bc_file(path):
    """Own reader of a barcode file: list of (index or None, sequence)."""
    res = []
    with open(path) as f:
        for line in f:
            p = line.strip().replace('\t', ' ').split()
            if not p:
                continue
            if len(p) == 1:
                res.append((None, p[0]))
            else:
                res.append((p[0], p[1]))
    return res


def rand_seq(n):
    return ''.join(RNG.choice('ACGT') for _ in range(n))


def rand_name(n, alphabet=string.ascii_uppercase + string.digits):
    return ''.join(RNG.choice(alphabet) for _ in range(n))


ALL_PHRED = ''.join(chr(c) for c in range(33, 127))
phred_cursor = [0]


def next_quals(n):
    """Cycle through all phred characters 33..126 so that every one is used as UMI quality."""
    s = ''
    for _ in range(n):
        s += ALL_PHRED[phred_cursor[0] % len(ALL_PHRED)]
        phred_cursor[0] += 1
    return s


# ---------------------------------------------------------------- build inputs
barcode_folder = pkg_resources.resource_filename('singlecellmultiomics', 'modularDemultiplexer/barcodes/')
index_folder = pkg_resources.resource_filename('singlecellmultiomics', 'modularDemultiplexer/indices/')
barcode_parser = BarcodeParser(barcode_folder, lazyLoad='*')
index_parser = BarcodeParser(index_folder, lazyLoad='*')
index_list = read_bc_file(os.path.join(index_folder, INDEX_ALIAS + '.bc'))

loader_with_index = DemultiplexingStrategyLoader(barcode_parser, indexParser=index_parser, indexFileAlias=INDEX_ALIAS)
loader_without_index = DemultiplexingStrategyLoader(barcode_parser, indexParser=None, indexFileAlias=INDEX_ALIAS)


def make_header_pair(variant):
    inst = RNG.choice(['NS500414', 'ST-E00285', 'M0' + rand_name(4), 'A' + rand_name(5), 'NB_' + rand_name(3)])
    run = str(RNG.randint(1, 999))
    fc = rand_name(9)
    lane = str(RNG.randint(1, 8))
    tile = str(RNG.randint(1101, 23612))
    x = str(RNG.randint(1000, 32000))
    y = str(RNG.randint(1000, 99999))
    base = f'@{inst}:{run}:{fc}:{lane}:{tile}:{x}:{y}'
    if variant == 'index':
        idx = RNG.choice(index_list)[1]
        return f'{base} 1:N:0:{idx}', f'{base} 2:N:0:{idx}'
    if variant == 'intindex':
        idx = str(RNG.randint(1, 48))
        return f'{base} 1:N:0:{idx}', f'{base} 2:N:0:{idx}'
    if variant == 'noindex':
        return f'{base} 1:N:0', f'{base} 2:N:0'
    if variant == 'emptyindex':
        return f'{base} 1:N:0::', f'{base} 2:N:0::'
    if variant == 'short':
        return base, base
    if variant == '3dec':
        return f'@Cluster_s_{lane}_{tile}_1', f'@Cluster_s_{lane}_{tile}_2'
    raise ValueError(variant)


def make_pair(strategy, variant):
    """Plant barcode + UMI for the strategy. Returns records + what was planted."""
    planted = {}
    h1, h2 = make_header_pair(variant)
    seqs = [rand_seq(70), rand_seq(70)]
    quals = [''.join(RNG.choice('AEF6/<') for _ in range(70)) for _ in range(2)]
    if getattr(strategy, 'barcodeStart', None) is not None:
        alias = strategy.barcodeFileAlias
        path = os.path.join(barcode_folder, alias + '.bc')
        if not os.path.exists(path):
            return None
        bi, bc = RNG.choice(read_bc_file(path))
        if len(bc) != strategy.barcodeLength:
            return None
        umi = rand_seq(strategy.umiLength)
        umiq = next_quals(strategy.umiLength)
        bcq = ''.join(RNG.choice('AEF') for _ in bc)
        if strategy.umiLength and strategy.umiStart == 0:
            prefix, pq = umi + bc, umiq + bcq
        else:
            prefix, pq = bc + umi, bcq + umiq
        insert = 'CATG' + rand_seq(66)
        r = strategy.barcodeRead
        seqs[r] = prefix + insert
        quals[r] = pq + ''.join(RNG.choice('AEF6/<') for _ in insert)
        planted = dict(BC=bc, bi=bi, RX=umi if strategy.umiLength else None,
                       RQ=umiq if strategy.umiLength else None)
    records = [FastqRecord(h1, seqs[0], '+', quals[0]), FastqRecord(h2, seqs[1], '+', quals[1])]
    return records, planted


def rand_library():
    return ''.join(RNG.choice(SAFE) for _ in range(RNG.randint(1, 40)))


cases = []   # dict(name=read name, lib, strategy shortName, planted, illumina, enc=tags of the demultiplexer or None)
per_strategy = {}
refused_long = 0


def header_of(item):
    if isinstance(item, str):
        return item.split('\n')[0]
    return item.asFastq().split('\n')[0]


def add_case(strategy, variant, library, with_index):
    global refused_long
    made = make_pair(strategy, variant)
    if made is None:
        return False
    records, planted = made
    try:
        result = strategy.demultiplex(records, library=library)
    except NonMultiplexable as e:
        return False
    try:
        headers = [header_of(item) for item in result]
    except ValueError as e:
        # refused loudly: only allowed when the header would really be too long
        out('REFUSED', strategy.shortName, variant, len(library), type(e).__name__)
        refused_long += 1
        # own measurement: the same pair with a one character library name
        short = strategy.demultiplex(records, library='L')
        short_len = len(header_of(short[0])) - 1
        if short_len - 1 + len(library) <= 254:
            violation(f'{strategy.shortName}: header of {short_len - 1 + len(library)} characters was refused')
        return False
    for h, item, rec in zip(headers, result, records):
        if not h.startswith('@'):
            violation(f'{strategy.shortName}: fastq header does not start with @: {h}')
        if len(h) - 1 > 254:
            violation(f'{strategy.shortName}: header of {len(h)-1} characters was not refused')
        enc = None if isinstance(item, str) else {k: v for k, v in item.tags.items()}
        cases.append(dict(name=h[1:], lib=library, strategy=strategy.shortName, planted=planted,
                          illumina=parse_illumina(rec.header), enc=enc, variant=variant,
                          with_index=with_index))
    per_strategy[strategy.shortName] = per_strategy.get(strategy.shortName, 0) + 1
    return True


for loader, with_index, variants in (
        (loader_with_index, True, ['index', 'index', 'intindex']),
        (loader_without_index, False, ['index', 'noindex', 'emptyindex', 'short', '3dec'])):
    for strategy in loader.demultiplexingStrategies:
        for variant in variants:
            for rep in range(2):
                add_case(strategy, variant, rand_library(), with_index)

# ---- the 254 limit: find the exact boundary for a few strategies
boundary_checked = 0
for strategy in loader_with_index.demultiplexingStrategies:
    if not isinstance(strategy, UmiBarcodeDemuxMethod) or type(strategy).demultiplex is not UmiBarcodeDemuxMethod.demultiplex:
        continue
    made = make_pair(strategy, 'index')
    if made is None:
        continue
    records, planted = made
    try:
        base = strategy.demultiplex(records, library='L')
    except NonMultiplexable:
        continue
    base_len = len(base[0].asFastq().split('\n')[0]) - 1   # without @
    for total, must_fail in ((254, False), (255, True), (300, True), (253, False)):
        lib = 'L' * (1 + total - base_len)
        res = strategy.demultiplex(records, library=lib)
        try:
            h = res[0].asFastq().split('\n')[0]
            failed = False
        except ValueError as e:
            failed = True
            out('LONGHEADER', strategy.shortName, total, type(e).__name__)
        if failed != must_fail:
            violation(f'{strategy.shortName}: header of {total} characters: refused={failed}, expected {must_fail}')
        if not failed:
            if len(h) - 1 != total:
                violation(f'{strategy.shortName}: header was altered/truncated: {len(h)-1} instead of {total}')
            cases.append(dict(name=h[1:], lib=lib, strategy=strategy.shortName, planted=planted,
                              illumina=parse_illumina(records[0].header),
                              enc=dict(res[0].tags), variant='index', with_index=True))
    boundary_checked += 1

# ---------------------------------------------------------------- quality encoding is total
for c in range(33, 127):
    ch = chr(c)
    try:
        e = phredToFastqHeaderSafeQualities(ch, method=3)
    except Exception as ex:
        violation(f'quality encoding fails for phred character {c}: {ex!r}')
        continue
    expect = LETTERS[min(c - 33, 51)]
    if e != expect:
        violation(f'quality character {c} encoded as {e!r}, expected {expect!r}')
    if len(e) != 1 or e not in SAFE:
        violation(f'quality character {c} encoded into a not header safe value {e!r}')
    back = fastqHeaderSafeQualitiesToPhred(e, method=3)
    if back != chr(min(c, 84)):
        violation(f'quality character {c} decoded as {back!r}')
    out('QUAL', c, e, back)
whole = phredToFastqHeaderSafeQualities(ALL_PHRED, method=3)
if fastqHeaderSafeQualitiesToPhred(whole, method=3) != saturate(ALL_PHRED):
    violation('quality string round trip differs')

# ---------------------------------------------------------------- through a BAM file and the tagger
tmpdir = tempfile.mkdtemp(prefix='c04_demo_')
unaligned_path = os.path.join(tmpdir, 'aligned.bam')
tagged_path = os.path.join(tmpdir, 'tagged.bam')
sam_header = {'HD': {'VN': '1.6', 'SO': 'unsorted'}, 'SQ': [{'SN': 'chr1', 'LN': 1000000}, {'SN': 'chr2', 'LN': 500000}]}

with pysam.AlignmentFile(unaligned_path, 'wb', header=sam_header) as o:
    for i, case in enumerate(cases):
        a = pysam.AlignedSegment(o.header)
        a.query_name = case['name']
        a.query_sequence = rand_seq(40)
        a.query_qualities = pysam.qualitystring_to_array('E' * 40)
        a.reference_id = i % 2
        a.reference_start = 100 + 7 * i
        a.cigartuples = [(0, 40)]
        a.mapping_quality = 60
        a.flag = 0 if i % 3 else 16
        a.set_tag('NM', i % 4)
        a.set_tag('MD', '40')
        o.write(a)

flagger = QueryNameFlagger()
with pysam.AlignmentFile(unaligned_path, 'rb') as inp, pysam.AlignmentFile(tagged_path, 'wb', header=inp.header) as o:
    for i, read in enumerate(inp):
        if read.query_name != cases[i]['name']:
            violation(f'BAM file altered the read name of case {i}')
        if i % 2:
            flagger.digest([read])
        else:
            flagger.digest([read, None])
        o.write(read)

# fields which hold base qualities (stored header safe, restored as phred characters)
from singlecellmultiomics.tags import tags as TAG_LIST
QUALITY_FIELDS = {t.tag for t in TAG_LIST if t.isPhred}
assert 'RQ' in QUALITY_FIELDS
NAMED = ['BC', 'bc', 'bi', 'RX', 'RQ', 'LY', 'MX', 'aa', 'aA', 'Is', 'RN', 'Fc', 'La', 'Ti', 'CX', 'CY']
checked = 0
mi_checked = 0
with pysam.AlignmentFile(tagged_path, 'rb') as t:
    for i, read in enumerate(t):
        case = cases[i]
        out('READ', read.to_string())
        tags = dict(read.get_tags())
        name_fields = dict(kv.split(':', 1) for kv in case['name'].split(';'))   # own parse of the read name
        where = f"case {i} {case['strategy']} {case['variant']}"

        # 1. every field encoded in the read name is restored
        for key, value in name_fields.items():
            if key in QUALITY_FIELDS:
                expect = my_decode_quals(value)
            elif key == 'Is':
                expect = value.lstrip('@')
            else:
                expect = value
            if key not in tags:
                violation(f'{where}: field {key} of the read name is not present as tag')
            elif str(tags[key]) != expect:
                violation(f'{where}: field {key}: {tags[key]!r} instead of {expect!r}')

        # 2. and these are the values the demultiplexer had / we planted
        enc = case['enc']
        if enc is not None:
            for key in NAMED:
                if key in enc and enc[key] is not None:
                    expect = str(enc[key])
                    if key == 'RQ':
                        expect = my_decode_quals(expect)
                    if key == 'Is':
                        expect = expect.lstrip('@')
                    if str(tags.get(key)) != expect:
                        violation(f'{where}: tag {key}: {tags.get(key)!r}, demultiplexer had {expect!r}')
        planted = case['planted']
        if planted:
            if tags.get('BC') != planted['BC']:
                violation(f"{where}: BC {tags.get('BC')!r}, planted {planted['BC']!r}")
            if tags.get('bc') != planted['BC']:
                violation(f"{where}: raw barcode {tags.get('bc')!r}, planted {planted['BC']!r}")
            if planted['bi'] is not None and str(tags.get('bi')) != planted['bi']:
                violation(f"{where}: cell index {tags.get('bi')!r}, barcode file says {planted['bi']!r}")
            if planted['RX'] is not None:
                if tags.get('RX') != planted['RX']:
                    violation(f"{where}: UMI {tags.get('RX')!r}, planted {planted['RX']!r}")
                if tags.get('RQ') != saturate(planted['RQ']):
                    violation(f"{where}: UMI qualities {tags.get('RQ')!r}, planted {planted['RQ']!r}")
        if tags.get('LY') != case['lib']:
            violation(f"{where}: library {tags.get('LY')!r} instead of {case['lib']!r}")
        if 'MX' in name_fields and tags.get('MX') != case['strategy']:
            violation(f"{where}: strategy {tags.get('MX')!r} instead of {case['strategy']!r}")

        # 3. illumina coordinates
        ill = case['illumina']
        for key in ['Is', 'RN', 'Fc', 'La', 'Ti', 'CX', 'CY']:
            if str(tags.get(key)) != ill[key]:
                violation(f'{where}: coordinate {key}: {tags.get(key)!r} instead of {ill[key]!r}')
        expect_qname = ':'.join(ill[k] for k in ['Is', 'RN', 'Fc', 'La', 'Ti', 'CX', 'CY'])
        if read.query_name != expect_qname:
            violation(f'{where}: query name {read.query_name!r} instead of {expect_qname!r}')
        if ill['index'] is not None and tags.get('aa') != ill['index']:
            violation(f"{where}: sequencing index {tags.get('aa')!r} instead of {ill['index']!r}")
        if case['with_index'] and tags.get('aA') != ill['index']:
            violation(f"{where}: corrected sequencing index {tags.get('aA')!r} instead of {ill['index']!r}")

        # 4. sample and molecular identifier
        if 'bi' in name_fields:
            if tags.get('SM') != f"{case['lib']}_{name_fields['bi']}":
                violation(f"{where}: sample {tags.get('SM')!r}")
        if 'aA' in name_fields:
            expect_mi = name_fields.get('BC', '') + name_fields.get('RX', '') + name_fields['aA']
            if tags.get('MI') != expect_mi:
                violation(f"{where}: molecular identifier {tags.get('MI')!r} instead of {expect_mi!r}")
            mi_checked += 1
        checked += 1

# ---------------------------------------------------------------- things outside the property: only recorded
out('READGROUPS', sorted(flagger.assignedReadGroups))
counts = getattr(flagger, 'readGroupCounts', None)
out('READGROUPCOUNTS', None if counts is None else sorted(counts.items()))
for bad_name in ['just_a_read_name', 'read/1', 'NS5:1:FC:1:1:1;BC:ACGT', 'UMI:ACGT;CELL:12']:
    a = pysam.AlignedSegment(pysam.AlignmentHeader.from_dict(sam_header))
    a.query_name = bad_name
    a.query_sequence = 'ACGT'
    a.flag = 4
    try:
        QueryNameFlagger().digest([a])
        out('BADNAME', bad_name, 'accepted', a.to_string())
    except Exception as e:
        out('BADNAME', bad_name, type(e).__name__, e)

import shutil
shutil.rmtree(tmpdir, ignore_errors=True)

# ---------------------------------------------------------------- verdict
if checked < 300:
    violation(f'only {checked} reads were checked')
if len(per_strategy) < 15:
    violation(f'only {len(per_strategy)} strategies accepted the reads')
if mi_checked < 100:
    violation(f'only {mi_checked} molecular identifiers were checked')
if boundary_checked < 3:
    violation(f'header limit checked for {boundary_checked} strategies only')
if phred_cursor[0] < 2 * len(ALL_PHRED):
    violation('not every phred character was used as UMI quality')

print(f'checked {checked} tagged reads of {len(per_strategy)} strategies, {mi_checked} molecular identifiers, '
      f'header limit on {boundary_checked} strategies')
digest = hashlib.sha256('\n'.join(raw_outputs).encode()).hexdigest()
print(f'BEHAVIOUR DIGEST {digest}')
if violations:
    print(f'PROPERTY VIOLATED ({len(violations)} violations)')
    for v in violations[:40]:
        print('  ', v)
    sys.exit(1)
print('PROPERTY HOLDS')
sys.exit(0)
