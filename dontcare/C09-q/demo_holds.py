#!/usr/bin/env python3
"""Independent check of property C09 (cut-site coordinates are correct and
strand-symmetric) for NlaIIIFragment and CHICFragment.

Fragments are simulated from a random reference (and its reverse complement),
written to a BAM file in a temporary directory, read back and turned into
fragment objects.  The expected site of every fragment is derived from the
simulated cut alone (never from the code under test).

Prints "PROPERTY HOLDS" and exits 0 when every expectation is met and prints a
"BEHAVIOUR DIGEST" over all raw outputs (tags, flags, repr texts).
"""
import hashlib
import itertools
import os
import random
import sys
import tempfile

import pysam

from singlecellmultiomics.fragment import NlaIIIFragment, CHICFragment
from singlecellmultiomics.molecule import MoleculeIterator, CHICMolecule

RNG = random.Random(90909)
COMP = str.maketrans('ACGT', 'TGCA')
REF_LEN = 16000
FWD, RC = 'chrA', 'chrA_rc'


def revcomp(s):
    return s.translate(COMP)[::-1]


def random_reference(n):
    while True:
        s = ''.join(RNG.choice('ACGT') for _ in range(n))
        # the simulated cuts plant their own motifs; remove accidental ones so
        # that the expectation of every case is unambiguous
        while 'CATG' in s:
            s = s.replace('CATG', 'CTTG')
        if not any(b * 12 in s for b in 'ACGT'):
            return s


failures = []
raw = []  # raw outputs, hashed into the behaviour digest


def expect(cond, label, detail=''):
    if not cond:
        failures.append(f'{label}: {detail}')


# --------------------------------------------------------------------------
# read construction
# --------------------------------------------------------------------------
class Spec:
    """Placement of one read in reference orientation"""

    def __init__(self, contig, start, seq, reverse, clip):
        # start : reference coordinate the first base of seq would align to
        #         when nothing was clipped, seq is in reference orientation
        # clip  : bases soft clipped at the 5' end of the read (as sequenced)
        self.contig, self.start, self.seq = contig, start, seq
        self.reverse, self.clip = reverse, clip

    def mirrored(self):
        end = self.start + len(self.seq)
        return Spec(RC if self.contig == FWD else FWD, REF_LEN - end,
                    revcomp(self.seq), not self.reverse, self.clip)


def write_case(bam, name, r1, r2, tags):
    specs = [r1] + ([r2] if r2 is not None else [])
    segs = []
    for i, spec in enumerate(specs):
        a = pysam.AlignedSegment(bam.header)
        a.query_name = name
        a.query_sequence = spec.seq
        a.query_qualities = pysam.qualitystring_to_array('I' * len(spec.seq))
        a.reference_name = spec.contig
        L = len(spec.seq)
        if spec.clip:
            if spec.reverse:
                a.reference_start = spec.start
                a.cigarstring = f'{L - spec.clip}M{spec.clip}S'
            else:
                a.reference_start = spec.start + spec.clip
                a.cigarstring = f'{spec.clip}S{L - spec.clip}M'
        else:
            a.reference_start = spec.start
            a.cigarstring = f'{L}M'
        a.mapping_quality = 60
        a.is_reverse = spec.reverse
        if len(specs) == 2:
            a.is_paired = True
            a.is_proper_pair = True
            a.is_read1 = (i == 0)
            a.is_read2 = (i == 1)
            a.mate_is_reverse = specs[1 - i].reverse
        for k, v in tags.items():
            a.set_tag(k, v)
        segs.append(a)
    if len(segs) == 2:
        segs[0].next_reference_name = segs[1].reference_name
        segs[0].next_reference_start = segs[1].reference_start
        segs[1].next_reference_name = segs[0].reference_name
        segs[1].next_reference_start = segs[0].reference_start
    for a in segs:
        bam.write(a)


# --------------------------------------------------------------------------
# simulation
# --------------------------------------------------------------------------
def plant(ref, pos, motif):
    return ref[:pos] + motif + ref[pos + len(motif):]


def simulate(ref_fwd):
    """Returns (reference, cases); every case describes one fragment together
    with the expectation derived from the simulated cut"""
    ref = list(ref_fwd)
    cases = []
    slots = list(range(150, REF_LEN - 150, 140))
    RNG.shuffle(slots)
    slot_iter = iter(slots)

    ref = ''.join(ref)
    # --- restriction digest ------------------------------------------------
    nla_kinds = ['ok'] * 6 + ['mismatch'] * 3 + ['shift'] * 3 + ['wrong_end']
    nla_plan = []
    for strand, paired, clip in itertools.product((False, True), (False, True), range(0, 7)):
        nla_plan.append((strand, paired, clip, RNG.choice(nla_kinds)))
    # make sure every kind is present on both strands
    for strand in (False, True):
        for kind in ('ok', 'mismatch', 'shift', 'wrong_end'):
            nla_plan.append((strand, RNG.random() < 0.5, RNG.randint(0, 6), kind))
    for strand, paired, clip, kind in nla_plan:
        p = next(slot_iter)
        ref = plant(ref, p, 'CATG')
        cases.append(dict(proto='nla', p=p, reverse=strand, paired=paired,
                          clip=clip, kind=kind, L=RNG.randint(40, 60),
                          ins=RNG.randint(80, 120), L2=RNG.randint(30, 50)))
    # --- MNase -------------------------------------------------------------
    for strand, paired, clip, trimmed in itertools.product(
            (False, True), (False, True), range(0, 7), (False, True)):
        o = next(slot_iter) + RNG.randint(0, 20)
        cases.append(dict(proto='chic', o=o, reverse=strand, paired=paired,
                          clip=clip, trimmed=trimmed, L=RNG.randint(40, 60),
                          ins=RNG.randint(80, 120), L2=RNG.randint(30, 50)))
    return ref, cases


def build_reads(ref, case):
    """Returns R1 spec, R2 spec (or None), tags, expectation on the forward
    reference"""
    L, ins, L2 = case['L'], case['ins'], case['L2']
    tags = {'SM': 'cell_%d' % RNG.randint(1, 3),
            'RX': ''.join(RNG.choice('ACGT') for _ in range(6))}
    if case['proto'] == 'nla':
        p, kind, rev = case['p'], case['kind'], case['reverse']
        tags['MX'] = 'NLAIII384C8U3'
        # fragment occupies [p, p+ins) on the forward strand when R1 is forward
        # and [p+4-ins, p+4) when R1 is reverse; the motif is at the R1 start
        if not rev:
            first = p + 1 if kind == 'shift' else p
            seq = ref[first:first + L]
            r2 = Spec(FWD, p + ins - L2, ref[p + ins - L2:p + ins], True, 0)
        else:
            last = p + 3 if kind == 'shift' else p + 4
            first = last - L
            seq = ref[first:last]
            r2 = Spec(FWD, p + 4 - ins, ref[p + 4 - ins:p + 4 - ins + L2], False, 0)
        if kind == 'mismatch':
            # a single sequencing error inside the motif
            i = RNG.randint(0, 3)
            alt = RNG.choice([b for b in 'ACGT' if b != 'CATG'[i]])
            if not rev:
                seq = seq[:i] + alt + seq[i + 1:]
            else:
                j = len(seq) - 4 + i
                seq = seq[:j] + alt + seq[j + 1:]
        if kind == 'wrong_end':
            # the motif sits at the 3' end of R1 instead of the 5' end
            if not rev:
                seq = ref[p + 4 - L:p + 4]
                first = p + 4 - L
            else:
                seq = ref[p:p + L]
                first = p
        clip = case['clip'] if kind in ('ok', 'mismatch') else 0
        r1 = Spec(FWD, first, seq, rev, clip)
        case['clip_used'] = clip
        return r1, (r2 if case['paired'] else None), tags
    else:
        o, rev, trimmed = case['o'], case['reverse'], case['trimmed']
        # o: reference position of the ligated overhang base, the first base
        # that is sequenced.  The trimmed layout had that base taken off by the
        # demultiplexer.
        if trimmed:
            tags['MX'] = 'scCHIC384C8U3'
            tags['lh'] = 'TA'
        else:
            tags['MX'] = 'CS2C8U6'
        if not rev:
            first = o + 1 if trimmed else o
            seq = ref[first:first + L]
            r2 = Spec(FWD, o + ins - L2, ref[o + ins - L2:o + ins], True, 0)
        else:
            last = o if trimmed else o + 1  # exclusive
            first = last - L
            seq = ref[first:last]
            r2 = Spec(FWD, o + 1 - ins, ref[o + 1 - ins:o + 1 - ins + L2], False, 0)
        r1 = Spec(FWD, first, seq, rev, case['clip'])
        case['clip_used'] = case['clip']
        return r1, (r2 if case['paired'] else None), tags


# --------------------------------------------------------------------------
# observation
# --------------------------------------------------------------------------
def observe(fragment):
    fragment.write_tags()
    reads = [r for r in fragment.reads if r is not None]
    obs = dict(
        valid=fragment.is_valid(),
        match_hash=fragment.match_hash,
        ds=[r.get_tag('DS') if r.has_tag('DS') else None for r in reads],
        rs=[r.get_tag('RS') if r.has_tag('RS') else None for r in reads],
        qcfail=[r.is_qcfail for r in reads],
    )
    raw.append(repr(fragment))
    for r in reads:
        raw.append('%s|%d|%s' % (r.query_name, r.flag, sorted(r.get_tags())))
    return obs


def load_pairs(path):
    by_name = {}
    with pysam.AlignmentFile(path) as f:
        for r in f:
            by_name.setdefault(r.query_name, [None, None])[1 if r.is_read2 else 0] = r
    return by_name


def make_fragment(cls, reads, **kw):
    # every observation gets its own copies, tags are written onto the reads
    copies = [pysam.AlignedSegment.fromstring(r.to_string(), r.header) if r is not None else None
              for r in reads]
    return cls(copies, **kw)


def main():
    ref0 = random_reference(REF_LEN)
    ref, cases = simulate(ref0)
    checked = 0
    with tempfile.TemporaryDirectory(prefix='c09_demo_') as tmp:
        fasta = os.path.join(tmp, 'ref.fa')
        with open(fasta, 'w') as h:
            h.write(f'>{FWD}\n{ref}\n>{RC}\n{revcomp(ref)}\n')
        pysam.faidx(fasta)
        bam_path = os.path.join(tmp, 'sim.bam')
        header = {'HD': {'VN': '1.6'}, 'SQ': [{'SN': FWD, 'LN': REF_LEN}, {'SN': RC, 'LN': REF_LEN}]}
        with pysam.AlignmentFile(bam_path, 'wb', header=header) as bam:
            for i, case in enumerate(cases):
                r1, r2, tags = build_reads(ref, case)
                case['name'] = f'frag{i}'
                write_case(bam, f'frag{i}', r1, r2, tags)
                write_case(bam, f'frag{i}_mirror', r1.mirrored(),
                           r2.mirrored() if r2 is not None else None, tags)
        pairs = load_pairs(bam_path)

        # the simulated reads agree with the reference (sanity of the inputs)
        with pysam.FastaFile(fasta) as fa:
            for case in cases:
                for nm in (case['name'], case['name'] + '_mirror'):
                    r = pairs[nm][0]
                    got = fa.fetch(r.reference_name, r.reference_start, r.reference_end)
                    aligned = r.query_alignment_sequence
                    mism = sum(a != b for a, b in zip(got, aligned))
                    expect(mism <= 1, 'input sanity', f'{nm} {mism} mismatches')

        for case in cases:
            name = case['name']
            fwd_reads, mir_reads = pairs[name], pairs[name + '_mirror']
            rev, clip = case['reverse'], case['clip_used']
            if case['proto'] == 'nla':
                p, kind = case['p'], case['kind']
                p_mirror = REF_LEN - 4 - p  # CATG is its own reverse complement
                for allow_shift, invert, no_cigar in itertools.product((False, True), repeat=3):
                    kw = dict(allow_cycle_shift=allow_shift, invert_strand=invert,
                              no_umi_cigar_processing=no_cigar)
                    accepted = kind == 'ok' or (kind == 'shift' and allow_shift)
                    for reads, site, strand, contig in ((fwd_reads, p, rev, FWD),
                                                        (mir_reads, p_mirror, not rev, RC)):
                        o = observe(make_fragment(NlaIIIFragment, reads, **kw))
                        label = f'{name} {contig} {kind} clip={clip} {kw}'
                        checked += 1
                        if accepted:
                            if no_cigar and clip:
                                # clip handling switched off on request: the site
                                # is derived from the aligned end of the read
                                site_exp = site + clip if not strand else site - clip
                            else:
                                site_exp = site
                            expect(o['valid'], label, 'fragment with motif not valid')
                            expect(all(d == site_exp for d in o['ds']), label,
                                   f'DS {o["ds"]} expected {site_exp}')
                            expect(all(s == (strand != invert) for s in o['rs']), label,
                                   f'RS {o["rs"]} expected {strand != invert}')
                            expect(o['match_hash'] is not None and site_exp in o['match_hash']
                                   and contig in o['match_hash'], label, f'hash {o["match_hash"]}')
                            expect(not any(o['qcfail']), label, 'qcfail set on accepted fragment')
                        else:
                            expect(not o['valid'], label, 'fragment without motif is valid')
                            expect(all(d is None for d in o['ds']), label,
                                   f'rejected fragment was assigned site {o["ds"]}')
                            expect(o['match_hash'] is None, label, 'rejected fragment has a dedup hash')
                            expect(all(o['qcfail']), label, 'rejected fragment not flagged qcfail')
            else:
                ov = case['o']
                site = ov + 1 if rev else ov - 1  # base adjacent to the overhang
                site_mirror = REF_LEN - 1 - site
                for invert, no_cigar in itertools.product((False, True), repeat=2):
                    kw = dict(invert_strand=invert, no_umi_cigar_processing=no_cigar)
                    seen = []
                    for reads, s, strand, contig in ((fwd_reads, site, rev, FWD),
                                                     (mir_reads, site_mirror, not rev, RC)):
                        o = observe(make_fragment(CHICFragment, reads, **kw))
                        label = f'{name} {contig} chic trimmed={case["trimmed"]} clip={clip} {kw}'
                        checked += 1
                        if no_cigar and clip:
                            s_exp = s + clip if not strand else s - clip
                        else:
                            s_exp = s
                        expect(o['valid'], label, 'not valid')
                        expect(all(d == s_exp for d in o['ds']), label, f'DS {o["ds"]} expected {s_exp}')
                        expect(all(x == (strand != invert) for x in o['rs']), label,
                               f'RS {o["rs"]} expected {strand != invert}')
                        expect(o['match_hash'] is not None and s_exp in o['match_hash'], label,
                               f'hash {o["match_hash"]}')
                        seen.append(o)
                    # mirror symmetry of the site and of the strand
                    a, b = seen
                    expect(all(x + y == REF_LEN - 1 for x, y in zip(a['ds'], b['ds'])), name,
                           f'mirrored site {a["ds"]} vs {b["ds"]}')
                    expect(all(x != y for x, y in zip(a['rs'], b['rs'])), name, 'mirrored strand equal')

        # --- both orientations of one cut deduplicate identically -------------
        dd_path = os.path.join(tmp, 'dedup.bam')
        groups = []
        with pysam.AlignmentFile(dd_path, 'wb', header=header) as bam:
            for g in range(24):
                o = 300 + g * 220
                rev = bool(g % 2)
                trimmed = bool((g // 2) % 2)
                members = []
                umi = ''.join(RNG.choice('ACGT') for _ in range(6))
                far = ''.join({'A': 'C', 'C': 'G', 'G': 'T', 'T': 'A'}[b] for b in umi)
                for m, (do, u) in enumerate(((0, umi), (0, umi), (0, far), (1, umi))):
                    case = dict(proto='chic', o=o + do, reverse=rev, paired=True,
                                clip=RNG.randint(0, 3), trimmed=trimmed, L=RNG.randint(40, 60),
                                ins=RNG.randint(80, 120), L2=RNG.randint(30, 50))
                    r1, r2, tags = build_reads(ref, case)
                    tags['RX'] = u
                    tags['SM'] = 'cell_g'
                    nm = f'g{g}_m{m}'
                    write_case(bam, nm, r1, r2, tags)
                    write_case(bam, nm + '_mirror', r1.mirrored(), r2.mirrored(), tags)
                    members.append(nm)
                groups.append(members)
        dd = load_pairs(dd_path)
        for members in groups:
            for suffix_kw in ({}, {'invert_strand': True}):
                mats = []
                for suffix in ('', '_mirror'):
                    frs = [make_fragment(CHICFragment, dd[m + suffix], **suffix_kw) for m in members]
                    mats.append([[x == y for y in frs] for x in frs])
                    for f in frs:
                        observe(f)
                checked += 1
                expect(mats[0] == mats[1], members[0], f'dedup differs between orientations {mats}')
                expect(mats[0][0][1] and not mats[0][0][2] and not mats[0][0][3], members[0],
                       f'unexpected dedup matrix {mats[0]}')

        # same through the molecule iterator on coordinate sorted input
        sorted_path = os.path.join(tmp, 'dedup.sorted.bam')
        pysam.sort('-o', sorted_path, dd_path)
        pysam.index(sorted_path)
        partitions = {FWD: set(), RC: set()}
        with pysam.AlignmentFile(sorted_path) as f:
            for contig in (FWD, RC):
                for molecule in MoleculeIterator(f, molecule_class=CHICMolecule,
                                                 fragment_class=CHICFragment, perform_qflag=False,
                                                 contig=contig):
                    molecule.write_tags()
                    names = frozenset(fr.get_R1().query_name.replace('_mirror', '') for fr in molecule)
                    partitions[contig].add(names)
                    raw.append('molecule %s %s' % (contig, sorted(names)))
                    for fr in molecule:
                        for r in fr:
                            if r is not None:
                                raw.append('%s|%s' % (r.query_name, sorted(r.get_tags())))
        checked += 1
        expect(partitions[FWD] == partitions[RC], 'molecule partition',
               f'{sorted(map(sorted, partitions[FWD] ^ partitions[RC]))}')
        expect(len(partitions[FWD]) == 3 * len(groups), 'molecule partition',
               f'{len(partitions[FWD])} molecules, expected {3 * len(groups)}')

    digest = hashlib.sha256('\n'.join(raw).encode()).hexdigest()
    print(f'checked {checked} fragment observations, {len(raw)} raw output records')
    print(f'BEHAVIOUR DIGEST {digest}')
    if failures:
        print(f'PROPERTY VIOLATED ({len(failures)} failures)')
        for f in failures[:25]:
            print('  ', f)
        return 1
    print('PROPERTY HOLDS')
    return 0


if __name__ == '__main__':
    sys.exit(main())
