#!/usr/bin/env python
"""Independent check of property C13 (molecule consensus = strict majority call,
never a tie, independent of fragment order, unchanged by duplicating all fragments).

Prints "PROPERTY HOLDS" and exits 0 when the property holds for all generated inputs,
and prints "BEHAVIOUR DIGEST <sha256>" computed over all raw outputs observed.
"""
import os
import sys

# Set iteration order of (str, int) tuples depends on the hash seed; pin it so
# that the digest is reproducible between runs.
if os.environ.get('PYTHONHASHSEED') != '0':
    env = dict(os.environ)
    env['PYTHONHASHSEED'] = '0'
    os.execve(sys.executable, [sys.executable] + sys.argv, env)

import hashlib
import itertools
import random
import tempfile
from collections import Counter

import pysam

from singlecellmultiomics.fragment import Fragment
from singlecellmultiomics.molecule import Molecule

CHROM = 'chr1'
REF_OFFSET = 1000
QUALS = [10, 20, 20, 30, 30, 37]  # few distinct values: many quality ties between mates


def make_md(read_seq, ref_seq):
    md = ''
    run = 0
    for q, r in zip(read_seq, ref_seq):
        if q == r:
            run += 1
        else:
            md += str(run) + r
            run = 0
    return md + str(run)


def make_read(header, name, start, seq, quals, ref, is_read1, is_reverse, paired,
              mate_start=None, mate_reverse=None):
    read = pysam.AlignedSegment(header)
    read.query_name = name
    read.reference_id = 0
    read.reference_start = start
    read.query_sequence = seq
    read.query_qualities = pysam.qualitystring_to_array(''.join(chr(q + 33) for q in quals))
    read.cigarstring = f'{len(seq)}M'
    read.mapping_quality = 60
    read.is_reverse = is_reverse
    read.is_read1 = is_read1
    read.is_read2 = not is_read1
    if paired:
        read.is_paired = True
        read.is_proper_pair = True
        read.next_reference_id = 0
        read.next_reference_start = mate_start
        read.mate_is_reverse = mate_reverse
    read.set_tag('SM', 'CELL_1')
    read.set_tag('RX', 'ACG')
    read.set_tag('MD', make_md(seq, ref[start - REF_OFFSET: start - REF_OFFSET + len(seq)]))
    return read


def observe(rng, ref, start, length, mismatch_rate, n_rate):
    seq = []
    for i in range(length):
        refbase = ref[start - REF_OFFSET + i]
        x = rng.random()
        if x < n_rate:
            seq.append('N')
        elif x < n_rate + mismatch_rate:
            seq.append(rng.choice([b for b in 'ACGT' if b != refbase]))
        else:
            seq.append(refbase)
    quals = [rng.choice(QUALS) for _ in range(length)]
    return ''.join(seq), quals


def random_fragment_spec(rng, ref, idx, mismatch_rate, n_rate):
    """Returns a list of read specs: (start, seq, quals, is_read1, is_reverse)"""
    kind = rng.choice(['single', 'paired', 'paired', 'dove', 'contained', 'apart'])
    l1 = rng.randint(4, 14)
    l2 = rng.randint(4, 14)
    s1 = REF_OFFSET + rng.randint(8, 20)
    if kind == 'single':
        seq, quals = observe(rng, ref, s1, l1, mismatch_rate, n_rate)
        return [(s1, seq, quals, True, rng.random() < 0.3)]
    if kind == 'paired':  # partial overlap
        s2 = s1 + rng.randint(1, l1)
    elif kind == 'dove':  # R2 (reverse) starts before R1 starts
        s2 = s1 - rng.randint(1, 6)
    elif kind == 'contained':
        s2 = s1
    else:  # no overlap
        s2 = s1 + l1 + rng.randint(0, 4)
    seq1, q1 = observe(rng, ref, s1, l1, mismatch_rate, n_rate)
    seq2, q2 = observe(rng, ref, s2, l2, mismatch_rate, n_rate)
    return [(s1, seq1, q1, True, False), (s2, seq2, q2, False, True)]


def build_fragment(header, ref, spec, name):
    if len(spec) == 1:
        s, seq, quals, _, rev = spec[0]
        r1 = make_read(header, name, s, seq, quals, ref, True, rev, False)
        return Fragment([r1, None])
    (s1, seq1, q1, _, rev1), (s2, seq2, q2, _, rev2) = spec
    r1 = make_read(header, name, s1, seq1, q1, ref, True, rev1, True, s2, rev2)
    r2 = make_read(header, name, s2, seq2, q2, ref, False, rev2, True, s1, rev1)
    return Fragment([r1, r2])


def build_molecule(header, ref, specs, order, copies=1):
    molecule = Molecule()
    for rank, i in enumerate(order):
        for c in range(copies):
            molecule._add_fragment(build_fragment(header, ref, specs[i], f'frag{i}_{c}'))
    return molecule


# ---------------------------------------------------------------- oracle
def oracle_fragment_calls(spec, dove_safe=False):
    """One call per position per fragment: call of the mate with the strictly
    higher quality; equal quality and different calls: no usable call (N)."""
    per_pos = {}
    window = None
    if dove_safe:
        if len(spec) != 2:
            return {}
        (s1, seq1, _, _, _), (s2, seq2, _, _, _) = spec
        # R1 forward, R2 reverse
        window = (s1, s2 + len(seq2) - 1)
    for (s, seq, quals, _, _) in spec:
        for i, (b, q) in enumerate(zip(seq, quals)):
            pos = s + i
            if window is not None and not (window[0] <= pos <= window[1]):
                continue
            per_pos.setdefault(pos, []).append((b, q))
    calls = {}
    for pos, obs in per_pos.items():
        if len(obs) == 1:
            calls[pos] = obs[0][0]
        else:
            (b1, q1), (b2, q2) = obs
            if q1 > q2:
                calls[pos] = b1
            elif q2 > q1:
                calls[pos] = b2
            else:
                calls[pos] = b1 if b1 == b2 else 'N'
    return calls


def oracle_consensus(specs, dove_safe=False):
    votes = {}
    for spec in specs:
        for pos, base in oracle_fragment_calls(spec, dove_safe).items():
            if base == 'N':
                continue
            votes.setdefault(pos, Counter())[base] += 1
    consensus = {}
    for pos, counter in votes.items():
        ranked = counter.most_common()
        if len(ranked) == 1 or ranked[0][1] > ranked[1][1]:
            consensus[(CHROM, pos)] = ranked[0][0]
    return consensus


# ---------------------------------------------------------------- main
def main():
    rng = random.Random(1313)
    digest = hashlib.sha256()
    failures = []

    def record(*things):
        for t in things:
            digest.update(repr(t).encode())
            digest.update(b'\n')

    with tempfile.TemporaryDirectory(prefix='c13_demo_') as tmpdir:
        header = pysam.AlignmentHeader.from_dict({
            'HD': {'VN': '1.6', 'SO': 'unsorted'},
            'SQ': [{'SN': CHROM, 'LN': 5000}]})

        n_molecules = 400
        n_checked_positions = 0
        n_tie_positions = 0
        for m in range(n_molecules):
            ref = ''.join(rng.choice('ACGT') for _ in range(80))
            n_frag = 1 + (m % 12)
            mismatch_rate = rng.choice([0.0, 0.1, 0.3, 0.5])
            n_rate = rng.choice([0.0, 0.05, 0.3])
            specs = [random_fragment_spec(rng, ref, i, mismatch_rate, n_rate) for i in range(n_frag)]
            if m % 7 == 0 and n_frag % 2 == 0:
                # force exact ties: second half calls mirror the first half with another base
                half = n_frag // 2
                for i in range(half):
                    s, seq, quals, is_r1, rev = specs[i][0]
                    other = ''.join({'A': 'C', 'C': 'G', 'G': 'T', 'T': 'A', 'N': 'N'}[b] for b in seq)
                    specs[half + i] = [(s, other, list(quals), True, False)]
                    specs[i] = [(s, seq, quals, True, False)]
            if m % 11 == 0:
                # a fragment which only calls N
                s = REF_OFFSET + 4
                specs[0] = [(s, 'N' * 6, [30] * 6, True, False)]

            for dove_safe in (False, True):
                expected = oracle_consensus(specs, dove_safe)
                base_order = list(range(n_frag))
                if n_frag <= 4:
                    orders = list(itertools.permutations(base_order))
                else:
                    orders = [base_order, base_order[::-1]]
                    for _ in range(4):
                        o = base_order[:]
                        rng.shuffle(o)
                        orders.append(o)
                for oi, order in enumerate(orders):
                    molecule = build_molecule(header, ref, specs, order)
                    got = molecule.get_consensus(dove_safe=dove_safe)
                    if oi == 0:
                        record('consensus', m, dove_safe, sorted(got.items()))
                        record('consensus-iteration', list(got.items()))
                        for fragment in molecule:
                            try:
                                record('fragment-consensus',
                                       list(fragment.get_consensus(dove_safe=dove_safe).items()))
                            except ValueError as e:
                                record('fragment-consensus-error', type(e).__name__)
                    if dict(got) != expected:
                        failures.append(('majority', m, dove_safe, order))
                    if any(b not in 'ACGT' for b in got.values()):
                        failures.append(('non ACGT base in consensus', m, dove_safe, order))
                # duplicate every fragment
                for copies in (2, 3):
                    molecule = build_molecule(header, ref, specs, base_order, copies=copies)
                    got = molecule.get_consensus(dove_safe=dove_safe)
                    if dict(got) != expected:
                        failures.append(('duplication', m, dove_safe, copies))
                # also: the same Fragment objects appended twice
                molecule = build_molecule(header, ref, specs, base_order)
                for fragment in list(molecule.fragments):
                    molecule._add_fragment(fragment)
                if dict(molecule.get_consensus(dove_safe=dove_safe)) != expected:
                    failures.append(('duplication-same-objects', m, dove_safe))

                if not dove_safe:
                    covered = set()
                    for spec in specs:
                        for (s, seq, *_rest) in spec:
                            covered.update(range(s, s + len(seq)))
                    n_checked_positions += len(covered)
                    n_tie_positions += len(covered) - len(expected)

            # ---- aspects outside the property, only recorded in the digest
            molecule = build_molecule(header, ref, specs, list(range(n_frag)))
            try:
                molecule.get_consensus(allow_N=True)
                record('allow_N', 'no error')
            except NotImplementedError as e:
                record('allow_N', type(e).__name__, str(e))
            if m % 5 == 0:
                # IUPAC ambiguity code in a read: not quantified over by the property
                s, seq, quals, is_r1, rev = specs[0][0]
                odd = seq[:len(seq) // 2] + 'R' + seq[len(seq) // 2 + 1:]
                odd_specs = [[(s, odd, quals, True, False)]] + specs[1:]
                molecule = build_molecule(header, ref, odd_specs, list(range(n_frag)))
                got = molecule.get_consensus()
                record('iupac', sorted(got.items()),
                       getattr(molecule, 'consensus_skipped_ambiguous_calls', None))

        # write the generated description to the temp dir, just to have a raw artefact
        with open(os.path.join(tmpdir, 'summary.txt'), 'w') as h:
            h.write(f'{n_molecules} molecules, {n_checked_positions} positions, '
                    f'{n_tie_positions} without consensus\n')
        print(open(os.path.join(tmpdir, 'summary.txt')).read().strip())

    print('BEHAVIOUR DIGEST', digest.hexdigest())
    if failures:
        print('PROPERTY VIOLATED', len(failures), 'failures; first:', failures[:5])
        sys.exit(1)
    print('PROPERTY HOLDS')
    sys.exit(0)


if __name__ == '__main__':
    main()
