#!/usr/bin/env python3
"""Independent check of property C14 (TAPS methylation calls reflect reference
context and observed conversion) on simulated molecules, plus a digest over all
raw outputs.

Prints "PROPERTY HOLDS" and exits 0 when every check passes, and a line
"BEHAVIOUR DIGEST <sha256>" over everything that was observed.
"""
import hashlib
import os
import random
import sys
import tempfile

import pysam

from singlecellmultiomics.molecule import TAPS, TAPSMolecule
from singlecellmultiomics.fragment import Fragment

SEED = 1414
N_MOLECULES = 450
COMP = {'A': 'T', 'C': 'G', 'G': 'C', 'T': 'A'}

failures = []
raw = []  # every raw observation, digested at the end


def fail(msg):
    failures.append(msg)
    if len(failures) <= 20:
        print('VIOLATION:', msg)


# --------------------------------------------------------------------------
# simulation helpers
# --------------------------------------------------------------------------

def random_reference(rng, n_contigs=6):
    contigs = {}
    for i in range(n_contigs):
        length = rng.randint(45, 140)
        # C/G rich so that many contexts of every kind appear
        seq = [rng.choice('ACGTCGCG') for _ in range(length)]
        # non-ACGT reference bases
        for _ in range(rng.randint(0, 5)):
            seq[rng.randrange(length)] = rng.choice('NNRY')
        # make sure that contexts truncated at the contig ends exist
        if i % 2 == 0:
            seq[0] = 'G'
            seq[1] = 'G'
            seq[-1] = 'C'
            seq[-2] = 'C'
        contigs[f'ctg{i}'] = ''.join(seq)
    return contigs


def make_md(ref_segments):
    """MD tag from a list of ('M', ref, query) / ('D', ref) segments"""
    md = ''
    run = 0
    for seg in ref_segments:
        if seg[0] == 'M':
            for r, q in zip(seg[1], seg[2]):
                if r == q:
                    run += 1
                else:
                    md += str(run) + r
                    run = 0
        else:  # deletion
            md += str(run) + '^' + seg[1]
            run = 0
    md += str(run)
    return md


def build_read(header, rng, name, contig, ref, start, end, template, is_read1,
               is_reverse, err_rate, allow_indel):
    """Build an aligned read covering ref[start:end], sequence taken from the
    (converted) template, with optional sequencing errors, soft clips, and one
    insertion or deletion."""
    cigar = []
    query = []
    quals = []
    md_segments = []

    lclip = rng.choice([0, 0, 0, 2, 3])
    rclip = rng.choice([0, 0, 0, 1, 4])
    if lclip:
        cigar.append((4, lclip))
        query += [rng.choice('ACGT') for _ in range(lclip)]
        quals += [20] * lclip

    def matched(a, b):
        qs = []
        for p in range(a, b):
            base = template[p]
            if base not in 'ACGT':
                base = rng.choice('ACGT')
            if rng.random() < err_rate:
                base = rng.choice([x for x in 'ACGT' if x != base])
                q = rng.randint(5, 25)
            else:
                q = rng.randint(26, 40)
            qs.append(base)
            quals.append(q)
        query.extend(qs)
        cigar.append((0, b - a))
        md_segments.append(('M', ref[a:b], ''.join(qs)))

    span = end - start
    indel = rng.choice(['none', 'ins', 'del']) if (allow_indel and span > 12) else 'none'
    if indel == 'none':
        matched(start, end)
    else:
        cut = rng.randint(start + 4, end - 6)
        matched(start, cut)
        if indel == 'ins':
            n = rng.randint(1, 3)
            cigar.append((1, n))
            query += [rng.choice('ACGT') for _ in range(n)]
            quals += [30] * n
            matched(cut, end)
        else:
            n = rng.randint(1, 2)
            cigar.append((2, n))
            md_segments.append(('D', ref[cut:cut + n]))
            matched(cut + n, end)
    if rclip:
        cigar.append((4, rclip))
        query += [rng.choice('ACGT') for _ in range(rclip)]
        quals += [20] * rclip

    read = pysam.AlignedSegment(header)
    read.query_name = name
    read.reference_name = contig
    read.reference_start = start
    read.query_sequence = ''.join(query)
    read.query_qualities = pysam.qualitystring_to_array(
        ''.join(chr(q + 33) for q in quals))
    read.cigartuples = cigar
    read.mapping_quality = 60
    read.is_paired = True
    read.is_proper_pair = True
    read.is_read1 = is_read1
    read.is_read2 = not is_read1
    read.is_reverse = is_reverse
    read.mate_is_reverse = not is_reverse
    read.set_tag('SM', 'CELL_1')
    read.set_tag('RX', 'ACGT')
    read.set_tag('MD', make_md(md_segments))
    assert read.reference_end == end, (read.reference_end, end, cigar)
    return read


def simulate_molecule(rng, header, contigs, index):
    contig = rng.choice(sorted(contigs))
    ref = contigs[contig]
    L = len(ref)
    strand = rng.random() < 0.5          # True: R1 maps to the reverse strand
    taps_strand = rng.choice('FR')
    expected = ('G' if strand else 'C') if taps_strand == 'F' else ('C' if strand else 'G')
    converted_to = 'T' if expected == 'C' else 'A'

    # random methylation pattern -> template the reads are sampled from
    p_met = rng.choice([0.0, 0.2, 0.5, 0.8, 1.0])
    template = list(ref)
    for p, b in enumerate(ref):
        if b == expected and rng.random() < p_met:
            template[p] = converted_to
    template = ''.join(template)

    n_fragments = rng.choice([1, 1, 1, 2, 3])
    fragments = []
    err_rate = rng.choice([0.0, 0.0, 0.03, 0.08])
    for f in range(n_fragments):
        # leftmost (forward) read and rightmost (reverse) read
        at_left_end = rng.random() < 0.35
        at_right_end = rng.random() < 0.35
        fwd_start = 0 if at_left_end else rng.randint(0, L - 30)
        fwd_len = rng.randint(14, 40)
        fwd_end = min(L, fwd_start + fwd_len)
        rev_end = L if at_right_end else rng.randint(max(fwd_start + 14, fwd_end - 10), L)
        rev_len = rng.randint(14, 40)
        rev_start = max(0, rev_end - rev_len)
        layout = rng.choice(['inward', 'inward', 'dove_left', 'dove_right', 'dove_both'])
        if layout in ('dove_left', 'dove_both'):
            # the reverse read sticks out on the left of the forward read
            rev_start = max(0, min(rev_start, fwd_start - rng.randint(1, 6)))
            if rev_start >= fwd_start:  # forward read starts at 0: move it
                fwd_start = min(fwd_start + rng.randint(1, 6), fwd_end - 10)
        if layout in ('dove_right', 'dove_both'):
            # the forward read sticks out on the right of the reverse read
            fwd_end = min(L, max(fwd_end, rev_end + rng.randint(1, 6)))
            if fwd_end <= rev_end:
                rev_end = max(rev_end - rng.randint(1, 6), rev_start + 10)
        if fwd_end - fwd_start < 8 or rev_end - rev_start < 8:
            continue
        name = f'mol{index}_frag{f}'
        allow_indel = rng.random() < 0.3
        # strand False: R1 forward (left), R2 reverse (right); True: mirrored
        fwd_read = build_read(header, rng, name, contig, ref, fwd_start, fwd_end, template,
                              is_read1=not strand, is_reverse=False,
                              err_rate=err_rate, allow_indel=allow_indel)
        rev_read = build_read(header, rng, name, contig, ref, rev_start, rev_end, template,
                              is_read1=strand, is_reverse=True,
                              err_rate=err_rate, allow_indel=allow_indel)
        fwd_read.next_reference_id = rev_read.reference_id
        fwd_read.next_reference_start = rev_read.reference_start
        rev_read.next_reference_id = fwd_read.reference_id
        rev_read.next_reference_start = fwd_read.reference_start
        r1, r2 = (rev_read, fwd_read) if strand else (fwd_read, rev_read)
        fragments.append((r1, r2, fwd_read, rev_read))
    return contig, strand, taps_strand, expected, fragments


# --------------------------------------------------------------------------
# oracle
# --------------------------------------------------------------------------

def aligned_pairs_from_cigar(read):
    """(query position, reference position) of every aligned base, from the CIGAR"""
    pairs = []
    q = 0
    r = read.reference_start
    for op, n in read.cigartuples:
        if op in (0, 7, 8):
            pairs += [(q + i, r + i) for i in range(n)]
            q += n
            r += n
        elif op in (1, 4):
            q += n
        elif op in (2, 3):
            r += n
    return pairs


def oracle_consensus(fragments):
    """position -> consensus base, restricted to the mate-overlap-safe span.
    Returns also the union of safe positions."""
    votes = {}
    safe_positions = set()
    for r1, r2, fwd_read, rev_read in fragments:
        safe_start = fwd_read.reference_start
        safe_end = rev_read.reference_end - 1  # inclusive
        per_pos = {}
        for read in (r1, r2):
            seq = read.query_sequence
            qual = read.query_qualities
            for qpos, rpos in aligned_pairs_from_cigar(read):
                if rpos < safe_start or rpos > safe_end:
                    continue
                per_pos.setdefault(rpos, []).append((seq[qpos], qual[qpos]))
        for rpos, obs in per_pos.items():
            safe_positions.add(rpos)
            best_q = max(q for _, q in obs)
            best_bases = set(b for b, q in obs if q == best_q)
            if len(best_bases) != 1:
                continue  # the mates disagree with equal confidence
            base = best_bases.pop()
            if base == 'N':
                continue
            votes.setdefault(rpos, {}).setdefault(base, 0)
            votes[rpos][base] += 1
    consensus = {}
    for rpos, v in votes.items():
        top = max(v.values())
        winners = [b for b, n in v.items() if n == top]
        if len(winners) == 1:
            consensus[rpos] = winners[0]
    return consensus, safe_positions


def oracle_letter(ref, pos, expected, consensus_base):
    """call letter for a reference position carrying the expected base"""
    if expected == 'C':
        ctx = ref[pos:pos + 3] if pos + 3 <= len(ref) else None
    else:
        if pos - 2 < 0:
            ctx = None
        else:
            ctx = ''.join(COMP.get(b, '?') for b in reversed(ref[pos - 2:pos + 1]))
    if ctx is None or len(ctx) != 3 or any(b not in 'ACGT' for b in ctx):
        return '.'
    assert ctx[0] == 'C'
    if ctx[1] == 'G':
        letter = 'z'
    elif ctx[2] == 'G':
        letter = 'x'
    else:
        letter = 'h'
    converted = 'T' if expected == 'C' else 'A'
    if consensus_base == converted:
        return letter.upper()
    if consensus_base == expected:
        return letter
    return '.'  # neither converted nor unconverted: nothing can be said


def check_molecule(tag, molecule, contig, ref, strand, expected, fragments):
    calls = molecule.methylation_call_dict
    if calls is None:
        fail(f'{tag}: no methylation call dict')
        return
    consensus, safe_positions = oracle_consensus(fragments)

    for (c, pos), entry in calls.items():
        letter = entry['context']
        if c != contig:
            fail(f'{tag}: call on other contig {c}')
            continue
        if not (0 <= pos < len(ref)) or ref[pos] != expected:
            fail(f'{tag}: call at {pos} not on reference {expected}')
            continue
        if pos not in safe_positions:
            fail(f'{tag}: call at {pos} outside of the mate-overlap-safe span')
            continue
        if pos not in consensus:
            fail(f'{tag}: call at {pos} not covered by the consensus')
            continue
        if entry['consensus'] != consensus[pos]:
            fail(f'{tag}: consensus at {pos} is {entry["consensus"]}, oracle {consensus[pos]}')
        want = oracle_letter(ref, pos, expected, consensus[pos])
        if letter != want:
            fail(f'{tag}: letter at {pos} is {letter!r}, oracle says {want!r}')

    # every covered position on the expected base should be present (sanity)
    want_keys = set((contig, p) for p in consensus if ref[p] == expected)
    if want_keys != set(calls.keys()):
        fail(f'{tag}: called positions differ from oracle: '
             f'{sorted(want_keys ^ set(calls.keys()))}')

    letters = [entry['context'] for entry in calls.values()]
    totals = {
        'MC': sum(1 for l in letters if l in 'ZXH'),
        'uC': sum(1 for l in letters if l in 'zxh'),
        'sZ': letters.count('Z'), 'sz': letters.count('z'),
        'sX': letters.count('X'), 'sx': letters.count('x'),
        'sH': letters.count('H'), 'sh': letters.count('h'),
    }
    for r1, r2, fwd_read, rev_read in fragments:
        for read in (r1, r2):
            pairs = aligned_pairs_from_cigar(read)
            if not read.has_tag('XM'):
                fail(f'{tag}: read without XM')
                continue
            xm = read.get_tag('XM')
            if len(xm) != len(pairs):
                fail(f'{tag}: XM length {len(xm)} != aligned bases {len(pairs)}')
                continue
            for ch, (qpos, rpos) in zip(xm, pairs):
                want = calls[(contig, rpos)]['context'] if (contig, rpos) in calls else '.'
                if ch != want:
                    fail(f'{tag}: XM char at {rpos} is {ch!r}, expected {want!r}')
                if ch != '.' and rpos not in safe_positions:
                    fail(f'{tag}: XM calls base at {rpos} outside of the safe span')
            for t, v in totals.items():
                if not read.has_tag(t) or read.get_tag(t) != v:
                    fail(f'{tag}: tag {t}={read.get_tag(t) if read.has_tag(t) else None}, '
                         f'number of calls is {v}')


def record_molecule(tag, molecule, fragments):
    calls = molecule.methylation_call_dict
    raw.append(f'{tag} CALLS ' + repr([
        (k, sorted((kk, repr(vv)) for kk, vv in v.items())) for k, v in calls.items()
    ] if calls is not None else None))
    for r1, r2, _, _ in fragments:
        for read in (r1, r2):
            raw.append(f'{tag} READ {read.query_name} {"R1" if read.is_read1 else "R2"} '
                       + repr(sorted((k, repr(v)) for k, v in read.get_tags())))


def main():
    rng = random.Random(SEED)
    tmp = tempfile.mkdtemp(prefix='c14_demo_')
    contigs = random_reference(rng)
    ref_path = os.path.join(tmp, 'ref.fa')
    with open(ref_path, 'w') as f:
        for name, seq in contigs.items():
            f.write(f'>{name}\n{seq}\n')
    pysam.faidx(ref_path)
    header = pysam.AlignmentHeader.from_references(
        list(contigs), [len(s) for s in contigs.values()])

    taps = TAPS()
    n_checked = 0
    n_calls = 0
    seen_letters = set()
    with pysam.FastaFile(ref_path) as reference:
        for i in range(N_MOLECULES):
            contig, strand, taps_strand, expected, fragments = simulate_molecule(
                rng, header, contigs, i)
            if not fragments:
                continue
            frags = [Fragment([r1, r2]) for r1, r2, _, _ in fragments]
            molecule = TAPSMolecule(fragments=frags[:1], taps=taps, reference=reference,
                                    taps_strand=taps_strand)
            for extra in frags[1:]:
                # the fragments of a simulated molecule belong together by construction
                molecule._add_fragment(extra)
            if len(molecule) != len(frags):
                fail(f'mol{i}: simulation could not associate all fragments')
            molecule.__finalise__()
            tag = f'mol{i}[{contig},{"-" if strand else "+"},{taps_strand}]'
            if bool(molecule.strand) != strand:
                fail(f'{tag}: unexpected molecule strand {molecule.strand}')
            check_molecule(tag, molecule, contig, contigs[contig], strand, expected, fragments)
            record_molecule(tag, molecule, fragments)
            n_checked += 1
            n_calls += len(molecule.methylation_call_dict or {})
            seen_letters.update(e['context'] for e in (molecule.methylation_call_dict or {}).values())

        # ---- direct check of the context letter for every reference position
        for contig, ref in contigs.items():
            for pos, base in enumerate(ref):
                if base not in 'CG':
                    continue
                for observed in 'ACGTN':
                    ctx, letter = taps.position_to_context(
                        chromosome=contig, position=pos, ref_base=base,
                        observed_base=observed, strand=False, reference=reference)
                    want = oracle_letter(ref, pos, base, observed)
                    if letter != want:
                        fail(f'position_to_context {contig}:{pos} {base}>{observed}: '
                             f'{letter!r}, oracle {want!r}')
                    raw.append(f'CTX {contig} {pos} {base} {observed} {ctx!r} {letter!r}')

        # ---- inputs the property does not quantify over (recorded only)
        contig, strand, taps_strand, expected, fragments = simulate_molecule(
            rng, header, contigs, 'X')
        while not fragments:
            contig, strand, taps_strand, expected, fragments = simulate_molecule(
                rng, header, contigs, 'X')
        for odd in ('f', 'r', 'forward', '', None):
            try:
                frags = [Fragment([r1, r2]) for r1, r2, _, _ in fragments]
                m = TAPSMolecule(fragments=frags[:1], taps=taps, reference=reference,
                                 taps_strand=odd)
                m.__finalise__()
                raw.append(f'ODD taps_strand={odd!r} -> ' + repr(sorted(
                    (k, v['context'], v['reference_base'])
                    for k, v in m.methylation_call_dict.items())))
            except Exception as e:  # noqa
                raw.append(f'ODD taps_strand={odd!r} -> {type(e).__name__}: {e}')

    print(f'molecules checked: {n_checked}, calls: {n_calls}, '
          f'letters seen: {"".join(sorted(seen_letters))}')
    for needed in 'zZxXhH.':
        if needed not in seen_letters:
            fail(f'simulation never produced the letter {needed!r}')

    digest = hashlib.sha256('\n'.join(raw).encode()).hexdigest()
    print(f'BEHAVIOUR DIGEST {digest}')
    if os.environ.get('C14_DUMP'):
        with open(os.environ['C14_DUMP'], 'w') as f:
            f.write('\n'.join(raw) + '\n')
    if failures:
        print(f'PROPERTY VIOLATED ({len(failures)} violations)')
        return 1
    print('PROPERTY HOLDS')
    return 0


if __name__ == '__main__':
    sys.exit(main())
