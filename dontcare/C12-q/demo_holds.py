#!/usr/bin/env python
"""Independent check of property C12 (binned molecule counting is independent of
how the genome is split into jobs) + a digest over all raw observable outputs.

Prints "PROPERTY HOLDS" and exits 0 when every checked input satisfies the property.
Prints "BEHAVIOUR DIGEST <sha256>" over the raw outputs (dict iteration order,
progress text, verbose filter text, exception text).
"""
import contextlib
import hashlib
import io
import itertools
import os
import random
import sys
import tempfile
from collections import Counter

import pysam

from singlecellmultiomics.bamProcessing.bamBinCounts import (
    count_fragments_binned, generate_commands, generate_jobs, obtain_counts, read_counts)

DIGEST = hashlib.sha256()
FAILURES = []
N_CHECKS = 0


def raw(*parts):
    for p in parts:
        DIGEST.update(repr(p).encode())
        DIGEST.update(b'\x00')


def fail(msg):
    FAILURES.append(msg)
    if len(FAILURES) <= 20:
        print('VIOLATION', msg)


# ----------------------------------------------------------------------------
# Input construction
# ----------------------------------------------------------------------------
CONTIG_SETS = [
    [('chr1', 5000), ('chr2', 3210), ('chrX', 1200)],
    [('1', 4000), ('2', 2999)],
    [('ctgA', 6001), ('ctgB', 1000), ('ctgC', 777), ('ctgD', 2500)],
]
BOUNDARY_UNITS = [100, 250, 500, 777, 1000, 3000]


def make_bam(path, rng, contigs, n_reads, max_off, with_ds=True, n_cells=4, allele_tag=True):
    header = {'HD': {'VN': '1.6', 'SO': 'coordinate'},
              'SQ': [{'SN': c, 'LN': l} for c, l in contigs]}
    h = pysam.AlignmentHeader.from_dict(header)
    records = []
    for i in range(n_reads):
        tid = rng.randrange(len(contigs))
        clen = contigs[tid][1]
        qlen = rng.randint(20, 60)
        # Choose the site first, many of them on (or next to) potential job/bin boundaries
        mode = rng.random()
        if mode < 0.45:
            unit = rng.choice(BOUNDARY_UNITS)
            site = unit * rng.randint(0, clen // unit) + rng.choice([-1, 0, 0, 0, 1])
        elif mode < 0.55:
            site = rng.choice([0, 1, clen - 1, clen - 2])
        else:
            site = rng.randrange(clen)
        site = min(max(site, 0), clen - 1)
        if with_ds:
            # the read may lie left or right of its site, at most max_off away from it
            off = rng.choice([0, 0, rng.randint(0, max_off), max_off])
            if rng.random() < 0.5:
                rstart = site + off  # site left of the read start
            else:
                rstart = site - off - qlen + 1  # site at / right of the read end
                if off == 0:
                    rstart = site - rng.randint(0, qlen - 1)  # site inside the read
            rstart = min(max(rstart, 0), clen - qlen)
            if rstart - site > max_off or site - (rstart + qlen) >= max_off:
                rstart = min(max(site - qlen // 2, 0), clen - qlen)
        else:
            rstart = min(site, clen - qlen)
            site = rstart

        a = pysam.AlignedSegment(h)
        a.query_name = f'r{i}'
        a.query_sequence = ''.join(rng.choice('ACGT') for _ in range(qlen))
        a.query_qualities = pysam.qualitystring_to_array('I' * qlen)
        flag = 0x1
        is_r1 = rng.random() < 0.8
        flag |= 0x40 if is_r1 else 0x80
        if rng.random() < 0.4:
            flag |= 0x10
        if rng.random() < 0.15:
            flag |= 0x400  # duplicate
        if rng.random() < 0.1:
            flag |= 0x200  # qc fail
        a.flag = flag
        a.reference_id = tid
        a.reference_start = rstart
        a.mapping_quality = rng.choice([0, 3, 19, 20, 21, 49, 50, 51, 60, 60, 60])
        a.cigartuples = [(0, qlen)]
        a.next_reference_id = tid
        a.next_reference_start = rstart
        a.template_length = 0
        tags = []
        if with_ds:
            tags.append(('DS', site))
        if rng.random() < 0.95:
            tags.append(('SM', f'cell_{rng.randrange(n_cells)}'))
        r = rng.random()
        if r < 0.15:
            tags.append(('mp', 'multi'))
        elif r < 0.4:
            tags.append(('mp', 'unique'))
        if allele_tag and rng.random() < 0.7:
            tags.append(('DA', rng.choice(['ref', 'alt', 'ref,alt'])))
        a.tags = tags
        records.append(a)
    records.sort(key=lambda r: (r.reference_id, r.reference_start))
    with pysam.AlignmentFile(path, 'wb', header=h) as out:
        for r in records:
            out.write(r)
    pysam.index(path)


# ----------------------------------------------------------------------------
# Oracle: a single linear pass over the BAM, no jobs, no fetch windows
# ----------------------------------------------------------------------------
def oracle(path, bin_size, min_mq, dedup, ignore_mp, key_tags):
    expected = Counter()
    n_records = 0
    with pysam.AlignmentFile(path) as f:
        sizes = dict(zip(f.references, f.lengths))
        for rec in f.fetch(until_eof=True):
            if not rec.is_read1:
                continue
            if rec.is_qcfail:
                continue
            if dedup and rec.is_duplicate:
                continue
            if not ignore_mp and rec.has_tag('mp') and rec.get_tag('mp') != 'unique':
                continue
            if min_mq is not None and rec.mapping_quality < min_mq:
                continue
            n_records += 1
            site = rec.get_tag('DS') if rec.has_tag('DS') else rec.reference_start
            contig = rec.reference_name
            b = site // bin_size
            bin_id = (contig, b * bin_size, min((b + 1) * bin_size, sizes[contig]))
            if key_tags is not None:
                bin_id = tuple((rec.get_tag(t) if rec.has_tag(t) else None) for t in key_tags) + bin_id
            sample = rec.get_tag('SM') if rec.has_tag('SM') else 'bulk'
            expected[(bin_id, sample)] += 1
    return expected, n_records


def flatten(counts):
    flat = Counter()
    for bin_id, sd in counts.items():
        for sample, n in sd.items():
            if type(n) is not int:
                fail(f'non-int count {n!r}')
            flat[(bin_id, sample)] += n
    return flat


def canonical(flat):
    return sorted(((repr(k), v) for k, v in flat.items()))


# ----------------------------------------------------------------------------
def check_config(path, bin_size, bpj, threads, mfs, min_mq, dedup, ignore_mp, key_tags, show_progress):
    global N_CHECKS
    N_CHECKS += 1
    label = (os.path.basename(path), bin_size, bpj, threads, mfs, min_mq, dedup, ignore_mp, key_tags)
    expected, n_records = oracle(path, bin_size, min_mq, dedup, ignore_mp, key_tags)
    commands = list(generate_commands(path, bin_size=bin_size, bins_per_job=bpj, min_mq=min_mq,
                                      max_fragment_size=mfs, key_tags=key_tags, dedup=dedup,
                                      kwargs={'ignore_mp': ignore_mp}))
    buf = io.StringIO()
    with contextlib.redirect_stdout(buf):
        counts = obtain_counts(iter(commands) if show_progress else commands, reference=None,
                               live_update=False, threads=threads, show_progress=show_progress)
    flat = flatten(counts)
    if flat != expected:
        missing = expected - flat
        extra = flat - expected
        fail(f'{label}: matrix differs from oracle; missing={list(missing.items())[:3]} extra={list(extra.items())[:3]}')
    if sum(flat.values()) != n_records:
        fail(f'{label}: total {sum(flat.values())} != {n_records} qualifying records')
    if any(v <= 0 for v in flat.values()):
        fail(f'{label}: non-positive entry')

    # Raw outputs for the digest. Worker delivery order is only deterministic for one worker,
    # so the raw (order preserving) form is used there and the canonical form elsewhere.
    raw('cfg', label, buf.getvalue())
    if threads == 1:
        raw('raw-merged', list((k, list(v.items())) for k, v in counts.items()))
    else:
        raw('canon-merged', canonical(flat))
    return expected, n_records, commands


def check_direct_jobs(path, bin_size, bpj, mfs, min_mq, dedup, ignore_mp, key_tags, rng):
    """Every record is owned by exactly one job, also when the jobs are run directly, in any order."""
    global N_CHECKS
    N_CHECKS += 1
    expected, n_records = oracle(path, bin_size, min_mq, dedup, ignore_mp, key_tags)
    commands = list(generate_commands(path, bin_size=bin_size, bins_per_job=bpj, min_mq=min_mq,
                                      max_fragment_size=mfs, key_tags=key_tags, dedup=dedup,
                                      kwargs={'ignore_mp': ignore_mp}))
    # the jobs tile every contig exactly
    with pysam.AlignmentFile(path) as f:
        sizes = dict(zip(f.references, f.lengths))
    jobs = list(generate_jobs(path, bin_size=bin_size, bins_per_job=bpj))
    for contig, length in sizes.items():
        spans = sorted((s, e) for c, s, e in jobs if c == contig)
        if spans[0][0] != 0 or spans[-1][1] < length or any(a[1] != b[0] for a, b in zip(spans, spans[1:])):
            fail(f'jobs do not tile {contig}: {spans}')
        if any((e - s) != bin_size * bpj for s, e in spans):
            fail(f'job width != bin*bins_per_job on {contig}')
    results = [count_fragments_binned(c) for c in commands]
    raw('direct', os.path.basename(path), bin_size, bpj, mfs,
        [list((k, list(v.items())) for k, v in r.items()) for r in results])
    order = list(range(len(results)))
    rng.shuffle(order)
    total = Counter()
    seen_bins = set()
    for i in order:
        for bin_id in results[i]:
            if bin_id in seen_bins:
                fail(f'bin {bin_id} reported by two jobs')
            seen_bins.add(bin_id)
            c, s, e = bin_id[-3:]
            js, je = commands[i][4], commands[i][5]
            if not (js <= s and s < je and c == commands[i][3]):
                fail(f'bin {bin_id} reported by job {commands[i][3:6]} which does not own it')
        total.update(flatten(results[i]))
    if total != expected or sum(total.values()) != n_records:
        fail(f'direct jobs {os.path.basename(path)} bin={bin_size} bpj={bpj} mfs={mfs}: differs from oracle')


def main():
    rng = random.Random(1212)
    with tempfile.TemporaryDirectory(prefix='c12demo_') as tmp:
        cwd = os.getcwd()
        os.chdir(tmp)  # stable relative paths -> stable digest
        bams = []
        specs = [
            # name, contig set, n reads, max site<->read distance, DS tags?, allowed max_fragment_sizes
            ('a.bam', 0, 260, 40, True, [50, 200, 1000]),
            ('b.bam', 1, 220, 180, True, [200, 1000, 5000]),
            ('c.bam', 2, 240, 0, False, [0, 50, 1000]),
            ('d.bam', 2, 200, 900, True, [1000, 2500]),
            ('e.bam', 0, 40, 10, True, [11, 1000]),
        ]
        for name, cs, n, max_off, with_ds, mfss in specs:
            make_bam(name, rng, CONTIG_SETS[cs], n, max_off, with_ds=with_ds)
            bams.append((name, mfss))

        bin_sizes = [100, 250, 500, 777, 1000, 3000, 10000]
        n_cfg = 0
        for name, mfss in bams:
            for bin_size in bin_sizes:
                max_len = max(pysam.AlignmentFile(name).lengths)
                n_bins = -(-max_len // bin_size)
                bpjs = sorted({1, 2, 3, 5, n_bins, n_bins + 3, rng.randint(1, max(1, n_bins))})
                reference_matrix = {}
                for bpj in bpjs:
                    threads = rng.choice([1, 1, 2, 3])
                    mfs = rng.choice(mfss)
                    min_mq = rng.choice([None, 0, 20, 50, 50])
                    dedup = rng.random() < 0.75
                    ignore_mp = rng.random() < 0.3
                    key_tags = rng.choice([None, None, ['DA'], ['DA', 'mp']])
                    # The filter settings are shared per (bam, bin size) half of the time so that the
                    # matrices of different splits can be compared with each other directly
                    if rng.random() < 0.5 and reference_matrix:
                        (min_mq, dedup, ignore_mp, key_tags) = next(iter(reference_matrix))
                    kt = None if key_tags is None else list(key_tags)
                    expected, n_records, commands = check_config(
                        name, bin_size, bpj, threads, mfs, min_mq, dedup, ignore_mp, kt,
                        show_progress=(n_cfg % 4 == 0))
                    key = (min_mq, dedup, ignore_mp, None if kt is None else tuple(kt))
                    if key in reference_matrix and reference_matrix[key] != expected:
                        fail('oracle not self consistent')
                    reference_matrix[key] = expected
                    n_cfg += 1
                # direct job execution for two splits
                for bpj in (1, bpjs[-2]):
                    if bin_size * bpj < 300:
                        continue
                    check_direct_jobs(name, bin_size, bpj, rng.choice(mfss), rng.choice([None, 20, 50]),
                                      True, False, rng.choice([None, ['DA']]), rng)

        # Same matrix for every split and every worker count, compared pairwise (no oracle involved)
        for name, mfss in bams[:3]:
            mats = []
            for bpj, threads in itertools.product([1, 2, 4, 7, 100], [1, 3]):
                cmds = list(generate_commands(name, bin_size=250, bins_per_job=bpj, min_mq=50,
                                              max_fragment_size=mfss[-1], key_tags=['DA'], dedup=True,
                                              kwargs={}))
                with contextlib.redirect_stdout(io.StringIO()):
                    mats.append(flatten(obtain_counts(cmds, None, live_update=False, threads=threads)))
            if any(m != mats[0] for m in mats[1:]):
                fail(f'{name}: matrix depends on bins_per_job / threads')
            raw('pairwise', name, canonical(mats[0]))

        # Free aspects that are part of the observable behaviour: filter diagnostics and error text
        with pysam.AlignmentFile('a.bam') as f:
            buf = io.StringIO()
            verdicts = []
            with contextlib.redirect_stdout(buf):
                for i, rec in enumerate(f.fetch(until_eof=True)):
                    if i >= 80:
                        break
                    v = read_counts(rec, min_mq=50, dedup=True, read1_only=True, verbose=True)
                    if type(v) is not bool:
                        fail('read_counts verdict is not a bool')
                    verdicts.append(v)
            lines = buf.getvalue().splitlines()
            if len(lines) != len(verdicts):
                fail('verbose read_counts does not print one line per record')
            raw('verbose', buf.getvalue(), verdicts)
        try:
            count_fragments_binned(('a.bam', 1000, 100, 'nonexistent', 0, 1000, 50, None, None, True, {}))
            fail('unknown contig accepted')
        except ValueError as e:
            raw('unknown-contig', type(e).__name__, str(e))
        os.chdir(cwd)

    print(f'{N_CHECKS} configurations checked')
    print('BEHAVIOUR DIGEST', DIGEST.hexdigest())
    if FAILURES:
        print(f'PROPERTY VIOLATED ({len(FAILURES)} failures)')
        sys.exit(1)
    print('PROPERTY HOLDS')


if __name__ == '__main__':
    main()
