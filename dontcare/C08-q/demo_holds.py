#!/usr/bin/env python3
# -*- coding: utf-8 -*-
"""
Independent check of property C08 - "Parallel tagging is equivalent to serial tagging".

For a number of simulated scCHIC libraries (several contigs, molecules on both strands with 1..4 fragments,
exact duplicates on equal coordinates, pairs with an unmapped mate, completely unmapped pairs, molecules
whose cut site sits exactly on / next to a bin boundary) this script

 A. tiles the genome with the region-tiling API (blacklisted_binning_contigs + bp_chunked) and with hand made
    tilings whose boundaries are placed on cut sites, runs every job with run_tagging_tasks, and checks
      - every record is written by exactly one job,
      - the job which wrote a record is the one whose bin contains the cut site of its molecule,
      - the union of all jobs (and the merge of the job files, in a shuffled completion order) carries the
        same records, flags and molecule level tags as one serial pass,
 B. runs the complete multi processing entry point with 1..8 workers, with and without a pool, with random
    bin sizes / fetch margins / job sizes and in contig-per-process mode, and compares to the serial pass.

Only per-run molecule identifiers (ix / mi) and the record order among equal coordinates are ignored.

Prints PROPERTY HOLDS (exit 0) or PROPERTY VIOLATED (exit 1), and a BEHAVIOUR DIGEST over all raw outputs.
"""
import contextlib
import hashlib
import io
import os
import random
import re
import shutil
import sys
import tempfile

import pysam

import singlecellmultiomics.universalBamTagger.bamtagmultiome as tm
import singlecellmultiomics.universalBamTagger.tagging as tagging
from singlecellmultiomics.bamProcessing.bamBinCounts import blacklisted_binning_contigs
from singlecellmultiomics.bamProcessing.bamFunctions import merge_bams
from singlecellmultiomics.utils.binning import bp_chunked

PER_RUN_IDENTIFIERS = {'ix', 'mi'}  # molecule identifiers which are only valid within a single run
MOLECULE_TAGS = ('DS', 'RS', 'RC', 'TF', 'af')  # cut site, strand, rank, fragment counts
MAX_FRAGMENT = 400
READ_LEN = 40

digest = hashlib.sha256()
violations = []
n_cases = 0
n_owned_checks = [0]


def raw(*parts):
    for part in parts:
        digest.update(str(part).encode())
        digest.update(b'\n')


def violation(msg):
    violations.append(msg)
    if len(violations) < 25:
        print('VIOLATION:', msg)


# --------------------------------------------------------------------------------------------------------------------
# Input simulation
# --------------------------------------------------------------------------------------------------------------------
def simulate_library(path, seed):
    rng = random.Random(seed)
    n_contigs = rng.randint(2, 4)
    contigs = []
    for i in range(n_contigs):
        length = rng.choice([3_000, 9_000, 20_000, 45_000]) + rng.randint(0, 999)
        if i == 0 and seed % 3 == 0:
            length = 120_000 + rng.randint(0, 999)  # a contig larger than the "small contig" threshold
        contigs.append((f'chr{i + 1}', length))
    header = {'HD': {'VN': '1.6', 'SO': 'coordinate'}, 'SQ': [{'SN': c, 'LN': l} for c, l in contigs]}
    pysam_header = pysam.AlignmentHeader.from_dict(header)
    samples = [f'lib{seed}_cell{k}' for k in range(rng.randint(1, 3))]

    def seq(n):
        return ''.join(rng.choice('ACGT') for _ in range(n))

    def segment(name, flag, tid, pos, cigar, ntid, npos, tlen, tags, mapq=60):
        a = pysam.AlignedSegment(pysam_header)
        a.query_name = name
        a.flag = flag
        a.reference_id = tid
        a.reference_start = pos
        a.mapping_quality = mapq
        a.cigarstring = cigar
        a.next_reference_id = ntid
        a.next_reference_start = npos
        a.template_length = tlen
        a.query_sequence = seq(READ_LEN)
        a.query_qualities = pysam.qualitystring_to_array('E' * READ_LEN)
        a.set_tags(tags)
        return a

    records = []
    sites = {c: set() for c, _ in contigs}
    counter = [0]

    def add_fragment(tid, site, reverse, flen, sample, umi, r2_unmapped=False, mapq=60):
        """ forward: R1 starts at site+2 ; reverse: R1 ends (exclusive) at site-1 """
        name = f'q{seed}_{counter[0]}'
        counter[0] += 1
        bc = 'ACGTACGT'
        tags = [('SM', sample), ('BC', bc), ('RX', umi), ('MI', bc + umi)]
        cigar = f'{READ_LEN}M'
        if not reverse:
            left = site + 2
            right = left + flen - READ_LEN
            if r2_unmapped:
                records.append(segment(name, 1 + 8 + 64, tid, left, cigar, tid, left, 0, tags, mapq))
                records.append(segment(name, 1 + 4 + 32 * 0 + 128, tid, left, None, tid, left, 0, tags, 0))
            else:
                records.append(segment(name, 99, tid, left, cigar, tid, right, flen, tags, mapq))
                records.append(segment(name, 147, tid, right, cigar, tid, left, -flen, tags, mapq))
        else:
            r1_start = site - 1 - READ_LEN
            left = r1_start + READ_LEN - flen
            if r2_unmapped:
                records.append(segment(name, 1 + 8 + 16 + 64, tid, r1_start, cigar, tid, r1_start, 0, tags, mapq))
                records.append(segment(name, 1 + 4 + 32 + 128, tid, r1_start, None, tid, r1_start, 0, tags, 0))
            else:
                records.append(segment(name, 83, tid, r1_start, cigar, tid, left, -flen, tags, mapq))
                records.append(segment(name, 163, tid, left, cigar, tid, r1_start, flen, tags, mapq))
        sites[contigs[tid][0]].add(site)

    for tid, (contig, length) in enumerate(contigs):
        n_molecules = rng.randint(8, 40)
        for _ in range(n_molecules):
            reverse = rng.random() < 0.5
            site = rng.randint(MAX_FRAGMENT + 5, length - MAX_FRAGMENT - 5)
            sample = rng.choice(samples)
            umi = seq(3)
            n_fragments = rng.choice([1, 1, 1, 2, 2, 3, 4])
            for f in range(n_fragments):
                flen = rng.randint(READ_LEN + 10, MAX_FRAGMENT - 5)
                if f > 0 and rng.random() < 0.3:
                    flen = last_flen  # an exact duplicate: all records on equal coordinates
                last_flen = flen
                add_fragment(tid, site, reverse, flen, sample, umi,
                             r2_unmapped=rng.random() < 0.06,
                             mapq=rng.choice([60, 60, 60, 30, 0]))
            # now and then a second molecule on the very same site (other UMI / other cell / other strand)
            if rng.random() < 0.2:
                add_fragment(tid, site, reverse if rng.random() < 0.5 else (not reverse),
                             rng.randint(READ_LEN + 10, MAX_FRAGMENT - 5), rng.choice(samples), seq(3))
            # and a neighbour one or two bases further
            if rng.random() < 0.2:
                add_fragment(tid, site + rng.choice([1, 2, -1]), reverse,
                             rng.randint(READ_LEN + 10, MAX_FRAGMENT - 5), sample, umi)

    # completely unmapped pairs
    for k in range(rng.randint(0, 6)):
        name = f'u{seed}_{k}'
        umi = seq(3)
        tags = [('SM', rng.choice(samples)), ('BC', 'ACGTACGT'), ('RX', umi), ('MI', 'ACGTACGT' + umi)]
        records.append(segment(name, 77, -1, -1, None, -1, -1, 0, tags, 0))
        records.append(segment(name, 141, -1, -1, None, -1, -1, 0, tags, 0))

    order = {id(r): i for i, r in enumerate(records)}
    records.sort(key=lambda a: (a.reference_id if a.reference_id >= 0 else 10 ** 9, a.reference_start, order[id(a)]))
    with pysam.AlignmentFile(path, 'wb', header=header) as out:
        for a in records:
            out.write(a)
    pysam.index(path)
    return contigs, {c: sorted(s) for c, s in sites.items()}


# --------------------------------------------------------------------------------------------------------------------
# Reading results
# --------------------------------------------------------------------------------------------------------------------
def record_key(read):
    return (read.query_name, 1 if read.is_read1 else 2)


def constrained_view(read):
    """ Everything the property requires to be the same; per run identifiers are left out """
    tags = {k: v for k, v in read.get_tags() if k not in PER_RUN_IDENTIFIERS}
    return (read.flag, read.reference_name, read.reference_start, read.cigarstring, read.mapping_quality,
            read.next_reference_name, read.next_reference_start, read.template_length,
            read.query_sequence, tuple(read.query_qualities or ()),
            tuple((t, tags.get(t)) for t in MOLECULE_TAGS),
            read.is_duplicate, read.is_qcfail,
            tuple(sorted((k, repr(v)) for k, v in tags.items())))


def read_bam(path):
    with pysam.AlignmentFile(path) as f:
        return list(f.fetch(until_eof=True))


def check_sorted(reads, label):
    last = None
    for r in reads:
        k = (r.reference_id if r.reference_id >= 0 else 10 ** 9, r.reference_start)
        if last is not None and k < last:
            violation(f'{label}: output is not coordinate sorted')
            return
        last = k


def compare_to_serial(serial, reads, label):
    """ serial: dict key -> constrained view """
    seen = {}
    for r in reads:
        k = record_key(r)
        if k in seen:
            violation(f'{label}: record {k} written more than once')
        seen[k] = constrained_view(r)
    missing = set(serial) - set(seen)
    extra = set(seen) - set(serial)
    if missing:
        violation(f'{label}: {len(missing)} records of the serial pass are missing, e.g. {sorted(missing)[:3]}')
    if extra:
        violation(f'{label}: {len(extra)} records which the serial pass does not have, e.g. {sorted(extra)[:3]}')
    for k in set(serial) & set(seen):
        if serial[k] != seen[k]:
            violation(f'{label}: record {k} differs from the serial pass:\n   serial  : {serial[k]}\n   parallel: {seen[k]}')


def normalise(text, tmp):
    text = text.replace(tmp, 'TMP')
    text = re.sub(r'[0-9a-f]{8}-[0-9a-f]{4}-[0-9a-f]{4}-[0-9a-f]{4}-[0-9a-f]{12}', 'UUID', text)
    text = re.sub(r'[0-9a-f]{32}', 'UUID', text)
    text = re.sub(r'(tagged_)\d+', r'\1PID', text)
    text = re.sub(r'\d\d/\d\d/\d\d\d\d \d\d:\d\d:\d\d', 'DATE', text)
    return text


# --------------------------------------------------------------------------------------------------------------------
# Running the tagger
# --------------------------------------------------------------------------------------------------------------------
_real_multi = tm.tag_multiome_multi_processing
MODE = {'capture': None, 'override': None}


def _multi_wrapper(**kwargs):
    if MODE['capture'] is not None:
        MODE['capture'].update(kwargs)
        return
    kwargs.update(MODE['override'] or {})
    return _real_multi(**kwargs)


tm.tag_multiome_multi_processing = _multi_wrapper
tm.sleep = lambda seconds: None  # the entry point waits 5 seconds before removing its temp folder, skip that


def run_cmd(cmd, tmp):
    out = io.StringIO()
    with contextlib.redirect_stdout(out):
        tm.run_multiome_tagging_cmd(cmd.split())
    return normalise(out.getvalue(), tmp)


def run_serial(bam, out_path, extra, tmp):
    return run_cmd(f'{bam} -method chic {extra} -o {out_path}', tmp)


def capture_iteration_args(bam, extra, tmp):
    """ Obtain the arguments the command line hands to the multi processing entry point """
    MODE['capture'] = {}
    try:
        run_cmd(f'{bam} -method chic {extra} --multiprocess -temp_folder {tmp} -o {tmp}/capture.bam', tmp)
        captured = MODE['capture']
    finally:
        MODE['capture'] = None
    mia = dict(captured['molecule_iterator_args'])
    for prune in ['start', 'end', 'contig', 'progress_callback_function', 'alignments']:
        mia.pop(prune, None)
    iteration_args = {'molecule_iterator_args': mia, 'molecule_iterator_class': tm.MoleculeIterator}
    return iteration_args, dict(captured['additional_args'])


def random_tiling(rng, bam, contigs, sites):
    """ Returns job_gen : [ [ (contig,start,end,fetch_start,fetch_end), ..], ..] ; the first job takes the unmapped reads """
    kind = rng.choice(['api', 'api', 'api', 'sites', 'contigs'])
    margin = MAX_FRAGMENT + rng.choice([0, 1, 10, 100, 1000, 5000])
    if kind == 'api':
        bin_size = rng.choice([100, 250, 400, 777, 1000, 2500, 5000, 10_000, 50_000, 10 ** 6])
        # keep the number of bins within reason
        total = sum(l for _, l in contigs)
        while total / bin_size > 60:
            bin_size *= 2
        job_size = rng.choice([bin_size, 2 * bin_size, 5 * bin_size, 10 * bin_size, 10 ** 7])
        regions = list(blacklisted_binning_contigs(contig_length_resource=bam, bin_size=bin_size,
                                                   fragment_size=margin, blacklist_path=None,
                                                   contig_whitelist=[c for c, _ in contigs]))
        jobs = [job for job in bp_chunked(regions, job_size) if len(job)]
        desc = f'api bin={bin_size} margin={margin} job={job_size}'
    elif kind == 'sites':
        # boundaries exactly on, just before and just behind cut sites
        regions = []
        for contig, length in contigs:
            cand = sites[contig]
            k = min(len(cand), rng.randint(1, 8))
            bounds = set()
            for s in rng.sample(cand, k):
                bounds.add(min(max(s + rng.choice([0, 0, 1, -1, 2]), 1), length - 1))
            bounds = [0] + sorted(bounds) + [length]
            for a, b in zip(bounds, bounds[1:]):
                if b > a:
                    regions.append((contig, a, b, max(0, a - margin), min(length, b + margin)))
        rng_jobs = []
        current = []
        for region in regions:
            current.append(region)
            if rng.random() < 0.4:
                rng_jobs.append(current)
                current = []
        if current:
            rng_jobs.append(current)
        jobs = rng_jobs
        desc = f'sites margin={margin} bins={len(regions)}'
    else:
        # whole contigs, no coordinates at all ( contig-per-process mode )
        jobs = [[(contig, None, None, None, None)] for contig, _ in contigs]
        if rng.random() < 0.5 and len(jobs) > 1:
            jobs = [jobs[0] + jobs[1]] + jobs[2:]
        desc = 'contigs'
    return [[('*', None, None, None, None)]] + jobs, desc


def part_a(lib_index, bam, contigs, sites, serial, iteration_args, additional_args, tmp, n_tilings, rng):
    global n_cases
    for t in range(n_tilings):
        job_gen, desc = random_tiling(rng, bam, contigs, sites)
        label = f'library {lib_index} tiling {t} ({desc})'
        job_dir = os.path.join(tmp, f'jobs_{lib_index}_{t}')
        os.makedirs(job_dir)
        tasks = list(tagging.generate_tasks(input_bam_path=bam, temp_folder=job_dir, job_gen=job_gen,
                                            iteration_args=iteration_args, additional_args=additional_args,
                                            max_time_per_segment=None))
        order = list(range(len(tasks)))
        rng.shuffle(order)  # completion order
        written_by = {}
        all_reads = []
        files = []
        raw('TILING', lib_index, t, desc, job_gen)
        results = {}
        for job_index in order:
            out = io.StringIO()
            with contextlib.redirect_stdout(out):
                result_path, meta = tagging.run_tagging_tasks(tasks[job_index])
            results[job_index] = (result_path, meta, normalise(out.getvalue(), tmp))
            if result_path is not None:
                files.append(result_path)
        for job_index in sorted(results):
            result_path, meta, printed = results[job_index]
            raw('JOB', job_index, normalise(str(result_path), tmp),
                sorted((k, (len(v) if k == 'timeout_tasks' else v)) for k, v in meta.items()), printed)
            if meta.get('timeout_tasks'):
                violation(f'{label}: unexpected timeout')
            if result_path is None:
                if meta['total_molecules'] != 0:
                    violation(f'{label}: job {job_index} reports molecules but returned no file')
                continue
            reads = read_bam(result_path)
            check_sorted(reads, f'{label} job {job_index}')
            raw(*sorted(r.to_string() for r in reads))
            bins = job_gen[job_index]
            for r in reads:
                k = record_key(r)
                # exactly one job
                if k in written_by:
                    violation(f'{label}: record {k} written by job {written_by[k]} and by job {job_index}')
                written_by[k] = job_index
                # Ownership: the job whose bin contains the cut site of the molecule. ( Records of molecules for which
                # no cut site could be determined, for example a mate which is not aligned and forms a molecule of
                # its own, carry no DS; for those the property only asks for "exactly one job", which is checked above. )
                if r.has_tag('DS'):
                    site_contig, site = r.reference_name, r.get_tag('DS')
                    owned = any(c == site_contig and (s is None or (s <= site < e)) for c, s, e, _, _ in bins)
                    if not owned:
                        violation(f'{label}: record {k} with site {site_contig}:{site} written by job {job_index} {bins}')
                    n_owned_checks[0] += 1
            all_reads += reads
        compare_to_serial(serial, all_reads, label + ' [union of jobs]')
        # every molecule is written by the job whose bin contains its site: all records of serial are owned by somebody
        # (checked by compare_to_serial) and by nobody else (checked above)

        # merge in completion order, as the entry point does
        if len(files):
            merged = os.path.join(job_dir, 'merged.bam')
            merge_bams(list(files), merged, threads=1)
            merged_reads = read_bam(merged)
            check_sorted(merged_reads, label + ' [merged]')
            compare_to_serial(serial, merged_reads, label + ' [merged]')
        shutil.rmtree(job_dir, ignore_errors=True)
        n_cases += 1


def part_b(lib_index, bam, contigs, serial, extra, tmp, configs):
    global n_cases
    for ci, config in enumerate(configs):
        label = f'library {lib_index} full run {config}'
        out_path = os.path.join(tmp, f'full_{lib_index}_{ci}.bam')
        bed = os.path.join(tmp, f'full_{lib_index}_{ci}.bed')
        override = dict(config)
        if not override.get('one_contig_per_process'):
            override['job_bed_file'] = bed
        MODE['override'] = override
        try:
            printed = run_cmd(f'{bam} -method chic {extra} --multiprocess -temp_folder {tmp} -o {out_path}', tmp)
        finally:
            MODE['override'] = None
        reads = read_bam(out_path)
        raw('FULL', lib_index, sorted(config.items()), printed)
        raw(*sorted(r.to_string() for r in reads))
        if os.path.exists(bed):
            raw(open(bed).read())
        status = open(out_path.replace('.bam', '.status.txt')).read()
        raw(status)
        check_sorted(reads, label)
        compare_to_serial(serial, reads, label)
        left = [x for x in os.listdir(tmp) if x.startswith('scmo_')]
        raw('LEFT', len(left))
        for x in (out_path, out_path + '.bai', bed):
            if os.path.exists(x):
                os.remove(x)
        n_cases += 1


def main():
    tmp = tempfile.mkdtemp(prefix='c08_demo_')
    cwd = os.getcwd()
    os.chdir(tmp)
    try:
        n_libraries = 12
        master = random.Random(20260928)
        for lib_index in range(n_libraries):
            bam = os.path.join(tmp, f'library_{lib_index}.bam')
            contigs, sites = simulate_library(bam, seed=1000 + lib_index)
            extra = ['', '', '', '--every_fragment_as_molecule', '-umi_hamming_distance 0', '--no_rejects'][lib_index % 6]
            serial_path = os.path.join(tmp, f'serial_{lib_index}.bam')
            printed = run_serial(bam, serial_path, extra, tmp)
            serial_reads = read_bam(serial_path)
            raw('SERIAL', lib_index, extra, printed)
            raw(*sorted(r.to_string() for r in serial_reads))
            check_sorted(serial_reads, f'library {lib_index} serial')
            serial = {}
            for r in serial_reads:
                if record_key(r) in serial:
                    violation(f'library {lib_index}: serial pass wrote {record_key(r)} twice')
                serial[record_key(r)] = constrained_view(r)
            with pysam.AlignmentFile(bam) as f:
                n_input = sum(1 for _ in f.fetch(until_eof=True))
            if extra != '--no_rejects' and n_input != len(serial_reads):
                violation(f'library {lib_index}: serial pass wrote {len(serial_reads)} of {n_input} records')

            iteration_args, additional_args = capture_iteration_args(bam, extra, tmp)
            rng = random.Random(master.random())
            part_a(lib_index, bam, contigs, sites, serial, iteration_args, additional_args, tmp, n_tilings=24, rng=rng)

            total = sum(l for _, l in contigs)
            configs = []
            # every worker count is used at least once per three libraries, all of them over the whole run
            for n_threads in range(1, 9):
                if (n_threads + lib_index) % 3:
                    continue
                bin_size = rng.choice([500, 1000, 3000, 10_000, 10 ** 6])
                while total / bin_size > 80:
                    bin_size *= 2
                configs.append({'n_threads': n_threads, 'use_pool': True, 'one_contig_per_process': False,
                                'bp_per_segment': bin_size, 'bp_per_job': bin_size * rng.choice([1, 3, 10, 1000]),
                                'fragment_size': MAX_FRAGMENT + rng.choice([0, 5, 600, 10_000])})
            configs.append({'n_threads': rng.randint(1, 8), 'use_pool': True, 'one_contig_per_process': True})
            configs.append({'n_threads': 1, 'use_pool': False, 'one_contig_per_process': False,
                            'bp_per_segment': 2000 if total < 100_000 else 8000, 'bp_per_job': 6000,
                            'fragment_size': MAX_FRAGMENT + 1})
            part_b(lib_index, bam, contigs, serial, extra, tmp, configs)
            print(f'library {lib_index}: {len(serial_reads)} records, contigs {contigs}, options "{extra}", '
                  f'{n_cases} cases so far, {len(violations)} violations', flush=True)
    finally:
        os.chdir(cwd)
        shutil.rmtree(tmp, ignore_errors=True)

    print(f'{n_cases} tilings / runs checked, {n_owned_checks[0]} ownership checks')
    print(f'BEHAVIOUR DIGEST {digest.hexdigest()}')
    if violations:
        print(f'PROPERTY VIOLATED ({len(violations)} violations)')
        sys.exit(1)
    print('PROPERTY HOLDS')
    sys.exit(0)


if __name__ == '__main__':
    main()
