#!/usr/bin/env python3
"""tools/make_preserving_prompts.py: write /tmp/agent_prompt_pCNN.txt - a sub-agent is asked for a behaviour-PRESERVING refactoring of the code a
property is anchored in (only the property record is given to it). The checks must stay silent on such changes."""
import json, os
V = os.path.dirname(os.path.dirname(os.path.abspath(__file__)))
T = '''You are helping to evaluate a verification framework for an open-source Python project (BuysDB/SingleCellMultiOmics, a single-cell multi-omics bioinformatics toolkit built on pysam). This time the task is NOT to break anything: produce a realistic, moderately invasive REFACTORING / optimisation of the code behind one property that PRESERVES that property (and all observable behaviour). It is used to find out whether the framework raises false alarms on correct code. You work ONLY inside your own scratch git worktree of the repository at: __WT__
Do NOT read or touch /repo, /verif or any other directory outside __WT__ (apart from /tmp for scratch files and the python interpreter /venv/bin/python). Nothing you do should be committed. NEVER use `git stash` (it is shared between worktrees).

THE PROPERTY your change must PRESERVE:
----------------------------------------------------------------------
__ID__ - __TITLE__

STATEMENT: __STATEMENT__

QUANTIFIED OVER: __QUANT__

CODE IT IS ANCHORED IN: __ANCHORS__
----------------------------------------------------------------------

YOUR TASK
1. Read the anchored code in __WT__ until you understand how the property holds.
2. Make a realistic refactoring of that code (in `singlecellmultiomics/` only, not in tests), the kind a maintainer does in a clean-up or speed-up commit, 15-80 changed lines, for example several of: restructure a loop or split a long function into helpers; rename PRIVATE helpers, local variables or internal attributes; replace a data structure by an equivalent one (dict vs defaultdict, list vs deque, set vs sorted list); replace an algorithm by an equivalent one (e.g. a comprehension instead of a loop, bisect instead of a scan, an arithmetic formula instead of an enumeration); add CORRECT caching (with a complete key and proper invalidation); reorder independent statements; change the wording of log / progress messages printed to the terminal; add type hints / docstrings; replace `open`/`gzip.open` calls by a small local helper; move a module-level import. Keep public function names, signatures, command line options, file formats, tags and exceptions types of the public API unchanged. The behaviour - every output, for every input, history and fault - must stay exactly the same, INCLUDING the corner cases named in the property (boundaries, ties, empty inputs, zero values, faults, retries, multi-step histories). Be careful: do not introduce a bug.
3. The existing test suite must still pass completely:
       cd __WT__ && PYTHONPATH=__WT__ /venv/bin/python -m pytest -q -p no:cacheprovider --timeout=900
   (81 tests; about a minute). PYTHONPATH makes python import your worktree instead of the installed copy - always set it.
4. Write a differential script `__WT__/demo_same.py` (plain python; repository, pysam, numpy, pandas, standard library only; it builds its inputs itself in a temporary directory) that exercises the refactored code on a few hundred varied inputs INCLUDING the corner cases above and prints a deterministic digest (e.g. a sha256 over all outputs) as its last line. Run it with your change, then with the change removed (`git apply -R seeded_patch.diff` after step 5; re-apply afterwards with `git apply seeded_patch.diff`) and confirm the digests are IDENTICAL. If they differ you introduced a behaviour change: fix your refactoring until they agree.
5. Save your source change: cd __WT__ && git diff -- singlecellmultiomics > __WT__/seeded_patch.diff   (source change only).
6. Write `__WT__/meta.json` with keys: "property", "kind": "preserving", "summary" (what was refactored, 1-3 sentences), "files_changed", "renamed_or_removed_internal_names" (list of private functions/attributes/module-level names you renamed, removed or whose call signature changed - may be empty), "tests_pass" (true/false), "digest_with_change", "digest_without_change".

Leave the change APPLIED in the worktree. In your final answer report the summary, the renamed internal names, and the verification results.
'''
for l in open(os.path.join(V, 'properties.jsonl')):
    p = json.loads(l)
    a = p.get('anchors', {})
    anchors = '; '.join(a.get('files', [])) + ' -- mechanisms: ' + '; '.join(f"{m['name']} ({m['where']})" for m in a.get('mechanism', []))
    wt = f"/tmp/wt_p{p['id']}"
    t = (T.replace('__WT__', wt).replace('__ID__', p['id']).replace('__TITLE__', p['title']).replace('__STATEMENT__', p['statement'])
          .replace('__QUANT__', p['quantifier']['text']).replace('__ANCHORS__', anchors))
    open(f"/tmp/agent_prompt_p{p['id']}.txt", 'w').write(t)
    print(p['id'], end=' ')
