#!/venv/bin/python
"""Regenerates /verif/MANIFEST.json from the table below; only properties whose check module exists are claimed."""
import os
import json
import subprocess

HERE = os.path.dirname(os.path.dirname(os.path.abspath(__file__)))

# id -> (category, technique, level text, level note, design ref)
T = {
 'C01': ('exploration', 'runtime monitor: unique-id accounting oracle over input pulls, sink writes and files on disk',
         'Generated FASTQ libraries with unique ids are pushed through the real loader loop for every registered strategy and configuration; a conservation oracle (input = demultiplexed + rejects, mate sync, order, counters) decides every execution. Held-on-observed-executions, no proof.',
         'FASTQ generator, strict FASTQ reader and the id codec in the Illumina coordinates are trusted; gzip trusted.', '4/C01'),
 'C02': ('exploration', 'runtime monitor: hand-written protocol layout table checked against TaggedRecords captured at the write boundary',
         'Every accepted pair of every registered strategy is compared to an independent layout specification (tag slices, insert start, index alignment, base accounting).',
         'The layout table vlib/spec/layouts.py is a hand-written specification and part of the trusted base.', '4/C02'),
 'C03': ('exploration', 'runtime monitor: hooked lookup + brute-force nearest-neighbour oracle (all 5^L queries for generated whitelists)',
         'All 5^L queries on generated whitelists for k=0..2 and in every loading mode, plus sampled neighbourhoods of all shipped whitelists; oracle is an independent brute-force Hamming search over the file contents.',
         'Whitelist files parsed independently; duplicates in shipped files accept either index.', '4/C03'),
 'C04': ('exploration', 'runtime monitor: demultiplexer header -> real BAM -> QueryNameFlagger.digest, field-by-field round-trip oracle',
         'Round trip through the real FASTQ serialiser, a real BAM write/read and the real decoder for every strategy; totality over all 94 phred characters is enumerated exhaustively; header length sweep across the 254 limit.',
         'pysam BAM I/O trusted; independent 52-letter quality code.', '4/C04'),
 'C05': ('exploration', 'runtime monitor: multiset conservation oracle over simulated BAMs (unique read ids), single- and multi-process tagger, delayed workers',
         'Simulated BAMs with known content are tagged by the real CLI entry point in single and --multiprocess mode; the oracle demands multiset equality of primary records, sort order, index and declared read groups.',
         'BAM simulator and pysam trusted; worker schedules sampled (observed completion orders counted), not enumerated.', '4/C05'),
 'C06': ('exploration', 'runtime monitor: ground-truth simulator + partition oracle + per-molecule flag/tag invariants (hook on Molecule.write_tags)',
         'Simulated libraries with known (cell, site, strand, UMI) truth; the yielded partition and the written duplicate/RC/af/TF tags are decided against truth, also on inputs that already carry duplicate bits and on re-tagged output.',
         'Simulator is the truth; chain-linkage soundness only for hamming>0 / radius>0.', '4/C06'),
 'C07': ('exploration', 'runtime monitor: arrive/emit event log checked against the never-eject reference partition, exhaustive over ejection intervals for small inputs',
         'For each generated sorted fragment sequence every check_eject_every in 0..n and None is executed; partitions must be identical, each fragment emitted once, no premature emission.',
         'Inputs restricted to the stated precondition (sorted, fragments shorter than cache/2).', '4/C07'),
 'C08': ('exploration', 'runtime monitor: differential oracle serial vs parallel tagger outputs + per-job ownership monitor at merge_bams',
         'Serial output compared record-by-record (flags, positions, all tags but mi/ix) with contig-per-process CLI runs and with region-tiling API runs over grids of bin/job/margin sizes and worker counts.',
         'Margins >= longest simulated fragment (precondition of the property).', '4/C08'),
 'C09': ('exploration', 'runtime monitor: ground-truth cut-site oracle + mirror (reverse-complement) metamorphic relation',
         'Fragments simulated from random references on both strands with clips, motif mismatches and cycle shifts; DS/RS/qcfail decided against truth and against the mirrored library.',
         'Simulator trusted; no_umi_cigar_processing checked by the mirror relation only.', '4/C09'),
 'C10': ('exploration', 'runtime monitor: integer-arithmetic bin oracle on coordinate_to_bins (exhaustive grid) and on create_count_table output',
         'Exhaustive grid x in 0..N x (b, s<=b) for both copies of the bin function, plus generated BAMs through the count-table entry point with sites on exact multiples, 0 and the contig end.',
         'Floor-based integer bin arithmetic is the specification.', '4/C10'),
 'C11': ('exploration', 'runtime monitor: independent filter/weight model vs create_count_table on generated BAM x option-set pairs',
         'An independent model of the documented filters and weights is evaluated on the same generated BAM for random option combinations; whole-table equality.',
         'The model in the check is written from the --help texts and is part of the trusted base.', '4/C11'),
 'C12': ('exploration', 'runtime monitor: differential oracle across job splits/thread counts + independent count over the BAM',
         'obtain_counts(generate_commands(...)) for bins_per_job 1..N and several thread counts must give the identical matrix, equal to an independent per-record count; get_binned_counts likewise.',
         'max_fragment_size >= site-to-read distance (precondition).', '4/C12'),
 'C13': ('exploration', 'runtime monitor: brute-force vote oracle + permutation/duplication metamorphic relations on Molecule.get_consensus',
         'Random molecules of 1..12 fragments; brute-force per-position strict-majority oracle; all insertion orders for n<=5 and duplication of every fragment.',
         'Fragments forced into a molecule through the internal add so equality rules do not filter the input.', '4/C13'),
 'C14': ('exploration', 'runtime monitor: independent TAPS caller vs methylation_call_dict and XM/MC/sZ.. tags',
         'Random references and methylation patterns on both strands and both conventions; every call is compared with an independent context/conversion caller.',
         'Reference FASTA and simulator trusted.', '4/C14'),
 'C15': ('exploration', 'runtime monitor: well-formedness oracle on consensus pseudo-reads (blocks, lengths, MD, decidable bases, tags)',
         'Molecules with gapped coverage, both strands, conflicts; API and --consensus CLI; structure and decidable base calls are checked.',
         'Base calls are only checked where every sensible likelihood model agrees.', '4/C15'),
 'C16': ('exploration', 'runtime monitor: brute-force interval oracle after every step of random add/sort/query histories',
         'Random operation sequences on FeatureContainer with a brute-force closed-interval oracle applied after every step; read annotation compared with per-base truth.',
         'Closed-interval semantics as stated in the property.', '4/C16'),
 'C17': ('exploration', 'runtime monitor: tiling invariants (exact partition, size bound, window containment) over enumerated small regions',
         'Small regions, bin sizes, fragment sizes and blacklists enumerated; random large cases; each yielded tuple stream is checked for exact partition and window containment.',
         'Blacklist intervals half-open [start,end) as the code documents.', '4/C17'),
 'C18': ('exploration', 'runtime monitor: differential oracle across loading modes + independent VCF truth on clean sites',
         'Generated VCFs queried for all (contig,pos,base) in every lazyLoad x use_cache mode and access order; answers must agree across modes and with truth on clean sites.',
         'pysam VariantFile/tabix trusted.', '4/C18'),
 'C19': ('fault_enumeration', 'runtime monitor: fault-injecting open() stand-in + write-history oracle on final gzip files',
         'Every placement of one and two transient open failures and every EMFILE threshold is enumerated for short write sequences; random long sequences; final files must equal the write history.',
         'gzip trusted; faults are injected at the open() boundary only.', '4/C19'),
 'C20': ('fault_enumeration', 'runtime monitor: step-trace failpoints (raise / _exit / SIGKILL) at every recorded step boundary + status-vs-output oracle',
         'A clean run records the step trace; one run per trace position and fault mode; afterwards a success marker implies a complete, sorted, indexed output.',
         'Failpoints sit at python-level step boundaries; crashes inside htslib calls are not split further.', '4/C20'),
}

NOT_YET = 'check not built yet in this round (planned, see DESIGN.md section 4); no claim made until its monitor exists and is silent on the unchanged tree'


def main():
    checks = []
    na = []
    for pid in sorted(T):
        cat, tech, text, note, ref = T[pid]
        if os.path.exists(os.path.join(HERE, 'vlib', 'props', pid.lower() + '.py')):
            checks.append({
                'property_id': pid,
                'quick_cmd': f'./check {pid} --tier quick',
                'thorough_cmd': f'./check {pid} --tier thorough',
                'evidence_file': f'/verif/evidence/{pid}.json',
                'replay_cmd_template': f'./check {pid} --replay {{path}}',
                'engine': 'scmo-runtime-monitor',
                'level_claimed': {'category': cat, 'text': text, 'design_ref': 'DESIGN.md ' + ref},
                'level_note': note,
                'technique': tech,
            })
        else:
            na.append({'property_id': pid, 'reason': NOT_YET})
    hooks_file = os.path.join(HERE, 'hooks.json')
    hooks = json.load(open(hooks_file)) if os.path.exists(hooks_file) else {'source_commits': []}
    m = {
        'version': 1,
        'setup_cmd': './setup.sh',
        'hooks': {
            'guard': 'SCMO_VERIF',
            'enable': 'export SCMO_VERIF=1 (done by ./check); the repository is installed editable in /venv so checks import /repo\'s working tree directly; monitors are attached from the harness by wrapping module attributes / methods',
            'baseline_off_cmd': 'cd /repo && env -u SCMO_VERIF /venv/bin/python -m pytest -ra -q -p no:cacheprovider --timeout=900 --continue-on-collection-errors',
            'source_commits': hooks.get('source_commits', []),
            'add_only': True,
        },
        'engines': [{'name': 'scmo-runtime-monitor', 'path': '/verif/vlib',
                     'serves_properties': [c['property_id'] for c in checks],
                     'kind_free_text': 'runtime monitoring: generated/hostile/fault-injected workloads on the real code, wrapped observation points, deterministic oracles, three-valued verdicts'}],
        'checks': checks,
        'not_applicable': na,
        'notes': 'Compiler sanitizers / race detectors are not used: the repository is pure Python without threads or native code (DESIGN.md section 1). Exit 2 + INCONCLUSIVE line when monitors saw too little.',
    }
    if not na:
        m['not_applicable'] = []
    with open(os.path.join(HERE, 'MANIFEST.json'), 'w') as f:
        json.dump(m, f, indent=1)
    import jsonschema
    jsonschema.validate(m, json.load(open('/root/.vp/MANIFEST.schema.json')))
    print('MANIFEST ok:', len(checks), 'checks,', len(na), 'not yet claimed')


if __name__ == '__main__':
    main()
