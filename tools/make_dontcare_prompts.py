#!/usr/bin/env python3
"""tools/make_dontcare_prompts.py: write /tmp/agent_prompt_qCNN.txt - a sub-agent is asked for a change that ALTERS observable behaviour, but only in
aspects the property does not constrain (the property itself keeps holding). The checks must stay silent on such changes as well."""
import json, os
V = os.path.dirname(os.path.dirname(os.path.abspath(__file__)))
T = '''You are helping to evaluate a verification framework for an open-source Python project (BuysDB/SingleCellMultiOmics, a single-cell multi-omics bioinformatics toolkit built on pysam). The framework checks the PROPERTY below at run time. We want to know whether it raises FALSE ALARMS: produce a realistic change that ALTERS the observable behaviour of the code behind the property, but ONLY in aspects the property does NOT constrain - so that the property, read carefully and literally, STILL HOLDS for every input. You work ONLY inside your own scratch git worktree of the repository at: __WT__
Do NOT read or touch /repo, /verif or any other directory outside __WT__ (apart from /tmp for scratch files and the python interpreter /venv/bin/python). Nothing you do should be committed. NEVER use `git stash` (it is shared between worktrees).

THE PROPERTY that must KEEP HOLDING:
----------------------------------------------------------------------
__ID__ - __TITLE__

STATEMENT: __STATEMENT__

QUANTIFIED OVER: __QUANT__

CODE IT IS ANCHORED IN: __ANCHORS__
----------------------------------------------------------------------

YOUR TASK
1. Read the anchored code in __WT__ and work out which observable aspects the property leaves FREE. Typical free aspects: the wording of messages, logs, rejection-reason strings and exception messages; the ORDER of results where the property speaks of sets or says order may differ (ties, records on equal coordinates, iteration order of returned collections); values of identifiers the property calls per-run or arbitrary; ADDITIONAL tags / columns / keys / files beside the required ones; the names and location of temporary files; formatting that does not change a value (float formatting within exact round-trip, upper/lower case of non-compared text, trailing whitespace in logs); internal counters and statistics that the property does not mention; the timing and number of internal retries; which of several EQUALLY valid answers is chosen where the property allows several.
2. Make a realistic change (in `singlecellmultiomics/` only, not in tests; 5-40 changed lines; the kind of thing a maintainer would do: reword messages, add a helpful extra tag or column, sort or stop sorting an output where order is not promised, change a temp-file naming scheme, add a statistic, choose another tie-break where any is allowed, emit additional diagnostics) that changes 2-4 such FREE aspects at once and NOTHING the property constrains. Be careful and literal: if the property says "exactly", "only", "unchanged", "identical" or "same" about something, that thing is NOT free.
3. The existing test suite must still pass completely:
       cd __WT__ && PYTHONPATH=__WT__ /venv/bin/python -m pytest -q -p no:cacheprovider --timeout=900
   (81 tests; about a minute). PYTHONPATH makes python import your worktree instead of the installed copy - always set it.
4. Write `__WT__/demo_holds.py` (plain python; repository, pysam, numpy, pandas, standard library only; builds its own inputs in a temporary directory): an INDEPENDENT check of the property as stated (an oracle of your own, a few hundred varied inputs including the corner cases the property names) that prints "PROPERTY HOLDS" and exits 0 both with and without your change, and additionally prints a line "BEHAVIOUR DIGEST <sha256 over all raw outputs>" - that digest must DIFFER between the original code and your change (proof that observable behaviour changed). Verify both runs (`git apply -R seeded_patch.diff` to remove the change after step 5, `git apply seeded_patch.diff` to restore it).
5. Save your source change: cd __WT__ && git diff -- singlecellmultiomics > __WT__/seeded_patch.diff   (source change only).
6. Write `__WT__/meta.json` with keys: "property", "kind": "dontcare", "summary" (what observable behaviour changed, 1-3 sentences), "free_aspects_changed" (list), "why_property_still_holds" (2-4 sentences), "files_changed", "tests_pass" (true/false), "property_holds_with_change", "property_holds_without_change", "digest_with_change", "digest_without_change".

Leave the change APPLIED in the worktree. In your final answer report the summary, the free aspects changed, why the property still holds, and the verification results.
'''
for l in open(os.path.join(V, 'properties.jsonl')):
    p = json.loads(l)
    a = p.get('anchors', {})
    anchors = '; '.join(a.get('files', [])) + ' -- mechanisms: ' + '; '.join(f"{m['name']} ({m['where']})" for m in a.get('mechanism', []))
    wt = f"/tmp/wt_q{p['id']}"
    t = (T.replace('__WT__', wt).replace('__ID__', p['id']).replace('__TITLE__', p['title']).replace('__STATEMENT__', p['statement'])
          .replace('__QUANT__', p['quantifier']['text']).replace('__ANCHORS__', anchors))
    # later rounds: name what earlier rounds changed already and ask for other free aspects
    import glob
    done = []
    for m in sorted(glob.glob(os.path.join(V, 'dontcare', p['id'] + '-*', 'meta.json'))):
        try:
            d = json.load(open(m))
            done.append('  - already done: ' + str(d.get('summary', '')).strip()[:500])
        except Exception:
            pass
    if done:
        t = t.replace('YOUR TASK\n', 'DIVERSITY: earlier rounds already produced the following property-preserving changes; yours must change OTHER free aspects, in other '
                      'places:\n' + '\n'.join(done) + '\nGood candidates this time: a different but equally valid tie-break or iteration order; tuning constants and default '
                      'sizes (buffer, cache, batch, chunk sizes); an additional output column / tag / log line / file; stricter or friendlier handling of inputs the property '
                      'does not quantify over (malformed files, unsupported option combinations); earlier or later validation of arguments; temporary file names and '
                      'locations; what happens to things the property calls out of scope.\n\nYOUR TASK\n', 1)
    open(f"/tmp/agent_prompt_q{p['id']}.txt", 'w').write(t)
    print(p['id'], end=' ')
