#!/venv/bin/python
"""tools/eval_seeds.py [tier] [seed-dir ...]: apply each seeded change to /repo, run the check of its property, undo, record detection.json and rebuild seeded/INDEX.md"""
import os, sys, json, subprocess, re, time, glob
V = os.path.dirname(os.path.dirname(os.path.abspath(__file__)))
tier = sys.argv[1] if len(sys.argv) > 1 else 'quick'
dirs = sys.argv[2:] or sorted(glob.glob(os.path.join(V, 'seeded', 'C*-*')))
def sh(cmd, **k):
    return subprocess.run(cmd, shell=True, capture_output=True, text=True, **k)
assert sh('git -C /repo diff --quiet').returncode == 0, '/repo dirty'
import shutil, tempfile, atexit
_bak = tempfile.mkdtemp(prefix='scmo_evidence_bak_')
shutil.copytree(os.path.join(V, 'evidence'), os.path.join(_bak, 'evidence'))
def _restore():
    # evidence written while a seeded change was applied must never stay in /verif/evidence
    shutil.rmtree(os.path.join(V, 'evidence'), ignore_errors=True)
    shutil.copytree(os.path.join(_bak, 'evidence'), os.path.join(V, 'evidence'))
    shutil.rmtree(_bak, ignore_errors=True)
atexit.register(_restore)
for d in dirs:
    d = os.path.abspath(d)
    name = os.path.basename(d)
    prop = name.split('-')[0]
    meta = json.load(open(os.path.join(d, 'meta.json')))
    extra = meta.get('also_checks', [])
    if sh(f'git -C /repo apply {d}/patch.diff').returncode != 0:
        print(name, 'PATCH DOES NOT APPLY'); continue
    res = {}
    try:
        for c in [prop] + extra:
            t0 = time.time()
            p = sh(f'cd {V} && ./check {c} --tier {tier}')
            mechs = re.findall(r'mechanism=(\S+) count=(\d+)', p.stdout)
            res[c] = {'tier': tier, 'rc': p.returncode, 'wall_s': round(time.time() - t0, 1), 'mechanisms': mechs[:6],
                      'first': (re.findall(r'first: (.*)', p.stdout) or [''])[0][:300]}
            print(name, c, 'rc', p.returncode, f'{time.time()-t0:.0f}s', mechs[:3])
    finally:
        sh('git -C /repo checkout -- .')
    det = {}
    dp = os.path.join(d, 'detection.json')
    if os.path.exists(dp):
        det = json.load(open(dp))
    det[tier] = res
    json.dump(det, open(dp, 'w'), indent=1)
# index
rows = []
for d in sorted(glob.glob(os.path.join(V, 'seeded', 'C*-*'))):
    name = os.path.basename(d)
    meta = json.load(open(os.path.join(d, 'meta.json')))
    det = json.load(open(os.path.join(d, 'detection.json'))) if os.path.exists(os.path.join(d, 'detection.json')) else {}
    cells = []
    for t in ('quick', 'thorough'):
        for c, r in det.get(t, {}).items():
            cells.append(f"{c} {t}: {'CAUGHT' if r['rc'] == 1 else 'missed' if r['rc'] == 0 else 'inconclusive'} ({r['wall_s']}s) " + ', '.join(m for m, _ in r['mechanisms'][:2]))
    rows.append(f"| {name} | {meta.get('summary', '')[:160].replace('|', '/')} | {str(meta.get('needs_to_manifest', ''))[:200].replace('|', '/')} | {'<br>'.join(cells)} |")
open(os.path.join(V, 'seeded', 'INDEX.md'), 'w').write(
    '# Seeded changes and the checks that catch them\n\nEach directory holds `patch.diff` (apply with `git -C /repo apply`, undo with `git -C /repo checkout -- .`), the sub-agent\'s independent '
    'demonstration `demo_break.py`, `meta.json` (what it breaks, what it needs, what was run to confirm it) and `detection.json` (written by `tools/eval_seeds.py`).\n\n'
    '| seed | change | needs to manifest | detection |\n|---|---|---|---|\n' + '\n'.join(rows) + '\n')
print('INDEX written')
