#!/bin/bash
# tools/confirm_seed.sh <CNN> [suffix]: confirm a sub-agent's seeded change in its scratch worktree /tmp/wt_<CNN> and store it under /verif/seeded/
id=$1; suf=${2:-a}
wt=/tmp/wt_$id
dst=/verif/seeded/$id-$suf
cd $wt || exit 9
[ -s seeded_patch.diff ] || { echo "no patch"; exit 9; }
# make sure the working tree == patch
git checkout -- singlecellmultiomics 2>/dev/null
git apply seeded_patch.diff || { echo "patch does not apply on clean worktree"; exit 9; }
PYTHONPATH=$wt timeout 600 /venv/bin/python demo_break.py > /tmp/confirm_${id}_with.log 2>&1; rc_with=$?
git apply -R seeded_patch.diff
PYTHONPATH=$wt timeout 600 /venv/bin/python demo_break.py > /tmp/confirm_${id}_without.log 2>&1; rc_without=$?
git apply seeded_patch.diff
tests=$(PYTHONPATH=$wt timeout 900 /venv/bin/python -m pytest -q -p no:cacheprovider --timeout=900 2>&1 | tail -1)
echo "$id demo_with_change_rc=$rc_with demo_without_rc=$rc_without tests: $tests"
echo "  with:    $(tail -1 /tmp/confirm_${id}_with.log | cut -c1-200)"
echo "  without: $(tail -1 /tmp/confirm_${id}_without.log | cut -c1-200)"
if [ $rc_with -eq 1 ] && [ $rc_without -eq 0 ] && echo "$tests" | grep -q "^81 passed"; then
  mkdir -p $dst
  cp seeded_patch.diff $dst/patch.diff; cp demo_break.py $dst/demo_break.py
  /venv/bin/python - "$wt/meta.json" "$dst/meta.json" "$tests" <<'PY'
import json,sys
try: m=json.load(open(sys.argv[1]))
except Exception as e: m={'meta_error':repr(e)}
m['confirmed_by_main_session']={'worktree':'scratch worktree of /repo HEAD under /tmp (removed afterwards)',
  'ran':['git apply patch.diff; PYTHONPATH=<wt> python demo_break.py  -> exit 1 (PROPERTY BROKEN)',
         'git apply -R patch.diff; PYTHONPATH=<wt> python demo_break.py -> exit 0 (PROPERTY HOLDS)',
         'PYTHONPATH=<wt> python -m pytest -q -p no:cacheprovider --timeout=900 with the patch -> '+sys.argv[3]]}
json.dump(m,open(sys.argv[2],'w'),indent=1)
PY
  echo "  CONFIRMED -> $dst"
else
  echo "  NOT CONFIRMED"
fi
