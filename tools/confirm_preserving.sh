#!/bin/bash
# tools/confirm_preserving.sh <CNN>: confirm a behaviour-preserving refactoring in /tmp/wt_p<CNN> (digest identical with / without, 81 tests pass) and store it
id=$1
wt=/tmp/wt_p$id
dst=/verif/preserving/$id-p
cd $wt || exit 9
[ -s seeded_patch.diff ] || { echo "no patch"; exit 9; }
git checkout -- singlecellmultiomics 2>/dev/null
git apply seeded_patch.diff || { echo "patch does not apply"; exit 9; }
d_with=$(PYTHONPATH=$wt timeout 900 /venv/bin/python demo_same.py 2>/dev/null | tail -1)
git apply -R seeded_patch.diff
d_without=$(PYTHONPATH=$wt timeout 900 /venv/bin/python demo_same.py 2>/dev/null | tail -1)
git apply seeded_patch.diff
tests=$(PYTHONPATH=$wt timeout 900 /venv/bin/python -m pytest -q -p no:cacheprovider --timeout=900 2>&1 | tail -1)
echo "$id with=[$d_with] without=[$d_without] tests: $tests  lines: $(grep -c '^[-+][^-+]' seeded_patch.diff)"
if [ -n "$d_with" ] && [ "$d_with" == "$d_without" ] && echo "$tests" | grep -q "^81 passed"; then
  mkdir -p $dst; cp seeded_patch.diff $dst/patch.diff; cp demo_same.py $dst/; cp meta.json $dst/meta.json 2>/dev/null || echo '{}' > $dst/meta.json
  echo "  CONFIRMED -> $dst"
else
  echo "  NOT CONFIRMED"
fi
