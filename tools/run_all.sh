#!/bin/bash
# tools/run_all.sh [tier] [seed] : runs every check once, prints one line per check
tier=${1:-quick}; seed=${2:-0}
cd "$(dirname "$0")/.."
for i in 01 02 03 04 05 06 07 08 09 10 11 12 13 14 15 16 17 18 19 20; do
  s=$(date +%s)
  out=$(VERIF_SEED=$seed ./check C$i --tier $tier 2>&1); rc=$?
  e=$(date +%s)
  echo "C$i rc=$rc $((e-s))s $(echo "$out" | grep -E '^C[0-9]+ tier' | sed 's/.*evaluations/evaluations/' | cut -c1-90)"
  if [ $rc -ne 0 ]; then echo "$out" | grep -E "VIOLATION|INCONCLUSIVE|mechanism" | cut -c1-400 | head -6; fi
done
