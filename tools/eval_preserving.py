#!/venv/bin/python
"""tools/eval_preserving.py [tier] [dir ...]: apply each behaviour-preserving refactoring (preserving/CNN-p*/patch.diff) to /repo, run the check of its
property (and every check listed in meta['also_checks']), undo, and record result.json. Expected: rc 0 (HELD) - rc 1 is a false alarm of the machinery,
rc 2 means the harness depends on an internal name the refactoring changed."""
import os, sys, json, subprocess, re, time, glob, shutil, tempfile, atexit
V = os.path.dirname(os.path.dirname(os.path.abspath(__file__)))
tier = sys.argv[1] if len(sys.argv) > 1 else 'quick'
dirs = sys.argv[2:] or sorted(glob.glob(os.path.join(V, "preserving", "C*")) + glob.glob(os.path.join(V, "dontcare", "C*")))
def sh(cmd, **k):
    return subprocess.run(cmd, shell=True, capture_output=True, text=True, **k)
assert sh('git -C /repo diff --quiet').returncode == 0, '/repo dirty'
_bak = tempfile.mkdtemp(prefix='scmo_evidence_bak_')
shutil.copytree(os.path.join(V, 'evidence'), os.path.join(_bak, 'evidence'))
def _restore():
    shutil.rmtree(os.path.join(V, 'evidence'), ignore_errors=True)
    shutil.copytree(os.path.join(_bak, 'evidence'), os.path.join(V, 'evidence'))
    shutil.rmtree(_bak, ignore_errors=True)
atexit.register(_restore)
for d in dirs:
    d = os.path.abspath(d)
    name = os.path.basename(d)
    prop = name.split('-')[0]
    meta = json.load(open(os.path.join(d, 'meta.json')))
    if sh(f'git -C /repo apply {d}/patch.diff').returncode != 0:
        print(name, 'PATCH DOES NOT APPLY'); continue
    res = {}
    try:
        for c in [prop] + meta.get('also_checks', []):
            t0 = time.time()
            p = sh(f'cd {V} && ./check {c} --tier {tier}')
            mechs = re.findall(r'mechanism=(\S+) count=(\d+)', p.stdout)
            tail = p.stdout.strip().split('\n')[-2:]
            res[c] = {'tier': tier, 'rc': p.returncode, 'wall_s': round(time.time() - t0, 1), 'mechanisms': mechs[:6], 'tail': [t[:600] for t in tail]}
            print(name, c, 'rc', p.returncode, {0: 'quiet (expected)', 1: 'FALSE ALARM', 2: 'INCONCLUSIVE (harness depends on internals?)'}.get(p.returncode), mechs[:3])
    finally:
        sh('git -C /repo checkout -- .')
    rp = os.path.join(d, 'result.json')
    allr = json.load(open(rp)) if os.path.exists(rp) else {}
    allr[tier] = res
    json.dump(allr, open(rp, 'w'), indent=1)
