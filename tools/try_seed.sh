#!/bin/bash
# tools/try_seed.sh <patch.diff> <tier> <CNN> [CNN...] : apply a seeded change to /repo, run the checks, undo it.
patch=$1; tier=$2; shift 2
cd /repo || exit 9
if ! git diff --quiet; then echo "/repo has uncommitted changes, refusing"; exit 9; fi
git apply "$patch" || { echo "patch does not apply"; exit 9; }
trap 'git -C /repo checkout -- . ; echo "[reverted /repo]"' EXIT
cd /verif
for c in "$@"; do
  s=$(date +%s)
  out=$(./check $c --tier $tier 2>&1); rc=$?
  e=$(date +%s)
  echo "== $c rc=$rc $((e-s))s"
  echo "$out" | grep -E "^VIOLATION|mechanism=|INCONCLUSIVE" | cut -c1-330 | head -8
done
