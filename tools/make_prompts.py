#!/usr/bin/env python3
"""tools/make_prompts.py <round-letter>: write /tmp/agent_prompt_CNN.txt for the next round of seeded changes.
The prompt holds only the property text (from properties.jsonl), the worktree path and a list of the ideas already used
(summaries of seeded/CNN-*/meta.json) - nothing else from /verif."""
import json, os, sys, glob, re
V = os.path.dirname(os.path.dirname(os.path.abspath(__file__)))
rnd = sys.argv[1]
PREF = {
 'd': ("PREFERRED this time: a bug in code the property depends on INDIRECTLY (a shared helper, a utility module, a base class, "
       "an iterator or a default value used by the anchored code), or an INTERACTION between two options / input classes named in the "
       "'QUANTIFIED OVER' text that are rarely combined, or a boundary of a numeric parameter (0, 1, exactly equal to a limit, "
       "the last element, an empty group). It must still be realistic and keep all 81 tests passing."),
 'e': ("PREFERRED this time, one of: (a) a dependence on something the code does not control - the iteration order of a set or dict, the "
       "completion order of worker processes, the current working directory or a relative vs absolute path, a stale file left by a previous "
       "run, the form of a file name (.gz vs plain, dots or spaces in names, same base name in two directories); (b) an ERROR PATH: what "
       "happens to the guarantee right after a handled / ignored exception, an early return, a `continue`, or the clean-up in a `finally`; "
       "(c) a bug that needs VOLUME: it shows only after many operations - the second chunk of a chunked loop, a flush every k records, a "
       "buffer or cache that reaches its limit, a counter that passes a threshold. It must still be realistic and keep all 81 tests passing."),
 'f': ("PREFERRED this time, one of: (a) a bug in an ALTERNATIVE ENTRY POINT or second implementation of the same functionality - a second "
       "copy of a function in another module, the command line wrapper versus the library function behind it, a convenience wrapper / class "
       "method / alternative constructor, a code path selected by a flag that is off by default, a method of a SUBCLASS that overrides the "
       "behaviour - so that the main path stays correct; (b) a bug in how results are WRITTEN OUT or READ BACK (writing, flushing, closing, "
       "naming of output files, table headers, tag types) rather than in how they are computed; (c) an arithmetic slip that only shows for "
       "LARGE or UNUSUAL magnitudes (coordinates beyond 2^31, very long reads or names, qualities above 41, more than 255 / 65535 of "
       "something). It must still be realistic and keep all 81 tests passing."),
 'g': ("No preferred kind this time: ANY realistic bug that breaks the property, as long as it is in a different place and of a different nature "
       "than all the ones listed above. Before choosing, list for yourself the inputs, options, entry points, histories, environments and "
       "magnitudes the property names or implies, and pick the corner a test author would be LEAST likely to have thought of. It must still be "
       "realistic and keep all 81 tests passing."),
 'h': ("No preferred kind this time: ANY realistic bug that breaks the property, as long as it is in a different place and of a different nature "
       "than all the ones listed above. Before choosing, list for yourself the inputs, options, entry points, histories, environments and "
       "magnitudes the property names or implies, and the helper functions / base classes / third-party behaviour (pysam, numpy, pandas, gzip) "
       "the anchored code relies on; pick the corner a test author would be LEAST likely to have thought of. It must still be realistic and "
       "keep all 81 tests passing."),
 'i': ("PREFERRED this time, one of: (a) a LEGAL BUT UNUSUAL corner of a FILE FORMAT or data model the code reads or writes - SAM/BAM (CIGAR "
       "operations N, =, X, H, P, I at a read end; flag combinations; optional fields of other types: integer vs string vs float vs array; "
       "'*' sequence or qualities; lower-case or IUPAC bases; secondary / supplementary records; mate fields), FASTQ (comments after the "
       "name, '+name' separator lines, Windows line ends, empty records), FASTA (soft-masked lower case, line width, several records, IUPAC), VCF "
       "(multi-allelic, missing or unphased genotypes, symbolic alleles, several records at one position, sample order), BED / GTF / whitelist "
       "files (comment and track lines, extra or missing columns, tabs vs spaces, blank lines, repeated keys) - that the code currently handles "
       "and your change mishandles; (b) the COMBINATION of two options or settings that are each handled correctly alone; (c) state carried by a "
       "module-level or class-level variable, default argument or cache from one call / object / file to the next. It must still be realistic "
       "and keep all 81 tests passing."),
 'j': ("PREFERRED this time, one of: (a) ORDER AND TIES - behaviour that depends on the order of equal keys or equal scores: sort stability, "
       "max / min / argmax / most_common on ties, first-versus-last wins when a dict or table is filled twice, iteration order of sets, the "
       "order in which records with the same coordinate or the same name arrive; (b) TYPES - a value arriving as another type than usual and "
       "legal: numpy integer instead of int, a tag stored as string instead of integer (or the reverse), float coordinates, bytes versus str, "
       "a tuple where a list is usual, None versus missing; (c) LIFECYCLE - an object used for a second call, an iterator partially consumed and "
       "resumed, a generator abandoned early, a context manager left by an exception, copies that share a mutable member with their original, "
       "a file that is closed later than the next one is opened. It must still be realistic and keep all 81 tests passing."),
 'k': ("PREFERRED this time, one of: (a) a CONVENTION shared by two places of the code that must agree - 0- versus 1-based coordinates, inclusive "
       "versus exclusive interval ends, the spelling or type of a tag / column / file name that one module writes and another reads, strand or "
       "mate conventions, units - broken on ONE side only, so that each side still looks right on its own; (b) a DOCUMENTED BUT RARELY USED "
       "parameter, option or return form of the anchored functions / command lines (read the docstrings and argparse help) that none of the "
       "earlier bugs involves; (c) the EXTREMES OF A COLLECTION: empty input, exactly one element, all elements equal, exactly one element more "
       "than a chunk / batch / page size, the first and the last element of an iteration, a group that becomes empty after filtering. It must "
       "still be realistic and keep all 81 tests passing."),
 'l': ("PREFERRED this time, one of: (a) NAMES AND STRINGS that contain the characters the code itself uses as separators or patterns - contig "
       "names with ':', '-', '*', '.', '|' or '_' (HLA-A*01:01, chrUn_KI270302v1, ERCC-00002, contigs named like numbers or like '*'), sample / "
       "library / feature names with '_', '.', ',', ';', ':' or spaces, names that are prefixes of each other, names differing only in case, "
       "file paths with spaces or dots in directory names; (b) NUMBERS at the edge of exact arithmetic - weights that are sums of halves and "
       "thirds, integer versus true division, rounding of .5, negative values in floor division or modulo, counts above 2^31 / 2^53, values "
       "formatted and parsed back (1e+06, 1000000.0, '007'); (c) a DEFAULT that differs between two entry points of the same functionality "
       "(function default versus command line default versus class attribute). It must still be realistic and keep all 81 tests passing."),
 'm': ("PREFERRED this time, one of: (a) INPUT THAT ALREADY CARRIES WHAT THE TOOL ADDS, or comes from another tool's conventions - a BAM whose "
       "header already has @RG / @PG / @CO lines or whose reads already carry RG and the tool's own tags from an earlier (different) run, read "
       "names ending in /1 and /2, a header that claims another sort order, a stale index next to the file, FASTQ names with extra fields; (b) "
       "SHAPE EXTREMES of the data - no read at all, exactly one read or one cell, every read identical, reads of length 1 or of 10 kb, a "
       "single contig of length 1, thousands of tiny contigs, every read on the same position; (c) an OPTIMISATION that is right for the common "
       "case only - an early `break` that relies on sorted input, a cache keyed by `id()` or by a value that is not unique, a binary search or "
       "`bisect` with the wrong side, a pre-computed table or a vectorised (numpy) rewrite that differs for one dtype or for empty arrays. It "
       "must still be realistic and keep all 81 tests passing."),
}
PREF['n'] = PREF['h']
PREF['o'] = ("PREFERRED this time, one of: (a) AGGREGATION of partial results - two dictionaries / Counters / tables / lists of per-job, per-file, "
             "per-read or per-mate results merged into one (update versus add, concat + fillna, a key present on one side only, a default "
             "value shared by reference, an accumulator that is not reset or is reset too early); (b) the BORDER BETWEEN PYTHON AND A LIBRARY - "
             "pysam objects that are views or copies (AlignedSegment re-used by an iterator, tags set with another value type, header objects, "
             "query_sequence assignment resetting qualities, get_aligned_pairs variants, reference_end of unusual records), numpy / pandas "
             "semantics (integer overflow of small dtypes, NaN versus 0, chained assignment on a copy, index alignment), gzip / io text versus "
             "bytes; (c) a REFACTORING SLIP - a loop variable re-used after the loop, a comprehension or generator consumed twice, a mutable "
             "default argument, `is` versus `==`, `or` versus `is None`, an `else` attached to the wrong `if`/`for`, an early `return` or "
             "`continue` that skips a later statement. It must still be realistic and keep all 81 tests passing.")
props = [json.loads(l) for l in open(os.path.join(V, 'properties.jsonl'))]
tmpl = open('/tmp/agent_prompt_template.txt').read() if os.path.exists('/tmp/agent_prompt_template.txt') else None
for p in props:
    pid = p['id']
    done = []
    for m in sorted(glob.glob(os.path.join(V, 'seeded', pid + '-*', 'meta.json'))):
        try:
            d = json.load(open(m))
            done.append(f"  - already done: {d.get('summary', '').strip()} (needs: {str(d.get('needs_to_manifest', '')).strip()[:300]})")
        except Exception:
            pass
    wt = f'/tmp/wt_{pid}'
    src_path = f'/tmp/agent_prompt_{pid}.txt'
    if not os.path.exists(src_path):
        src_path = os.path.join(V, 'tools', 'prompts', f'agent_prompt_{pid}.txt')   # copy of the last round's prompts
    src = open(src_path).read()
    head, rest = src.split('IMPORTANT - DIVERSITY:', 1)
    _, tail = rest.split('----------------------------------------------------------------------', 1)
    div = ('IMPORTANT - DIVERSITY: other people already produced bugs for this property. Your change MUST be in a DIFFERENT place and of a '
           'different nature than ALL of the following (do not modify these lines or re-introduce these ideas):\n' + '\n'.join(done) + '\n' + PREF[rnd] + '\n\n')
    open(f'/tmp/agent_prompt_{pid}.txt', 'w').write(head + div + '----------------------------------------------------------------------' + tail)
    print(pid, len(done), 'prior ideas')
