#!/venv/bin/python
"""tools/kf.py add <property> <mechanism> <state> <commit-or-> <text>   (edit known_findings.json by hand otherwise)"""
import sys, json, os
p = os.path.join(os.path.dirname(os.path.dirname(os.path.abspath(__file__))), 'known_findings.json')
d = json.load(open(p))
_, cmd, prop, mech, state, commit, text = sys.argv
e = {'property': prop, 'mechanism': mech, 'state': state}
if state == 'fixed':
    e['commit'] = commit
    e['line'] = f'fixed: property={prop} {commit} {text}'
else:
    e['what'] = text
d['findings'] = [x for x in d['findings'] if not (x['property'] == prop and x['mechanism'] == mech)] + [e]
json.dump(d, open(p, 'w'), indent=1)
print('ok', len(d['findings']))
