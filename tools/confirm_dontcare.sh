#!/bin/bash
# tools/confirm_dontcare.sh <CNN>: confirm a behaviour-changing but property-preserving change in /tmp/wt_q<CNN>:
# the agent's independent property check passes with and without it, the behaviour digest differs, 81 tests pass. Stored under /verif/dontcare/<CNN>-q/
id=$1
wt=/tmp/wt_q$id
dst=/verif/dontcare/$id-${2:-q}
cd $wt || exit 9
[ -s seeded_patch.diff ] || { echo "no patch"; exit 9; }
git checkout -- singlecellmultiomics 2>/dev/null
git apply seeded_patch.diff || { echo "patch does not apply"; exit 9; }
PYTHONPATH=$wt timeout 900 /venv/bin/python demo_holds.py > /tmp/q_${id}_with.log 2>&1; rc_with=$?
git apply -R seeded_patch.diff
PYTHONPATH=$wt timeout 900 /venv/bin/python demo_holds.py > /tmp/q_${id}_without.log 2>&1; rc_without=$?
git apply seeded_patch.diff
d_with=$(grep "BEHAVIOUR DIGEST" /tmp/q_${id}_with.log | tail -1)
d_without=$(grep "BEHAVIOUR DIGEST" /tmp/q_${id}_without.log | tail -1)
tests=$(PYTHONPATH=$wt timeout 900 /venv/bin/python -m pytest -q -p no:cacheprovider --timeout=900 2>&1 | tail -1)
echo "$id holds_with_rc=$rc_with holds_without_rc=$rc_without digests_differ=$([ "$d_with" != "$d_without" ] && echo yes || echo NO) tests: $tests lines: $(grep -c '^[-+][^-+]' seeded_patch.diff)"
if [ $rc_with -eq 0 ] && [ $rc_without -eq 0 ] && [ -n "$d_with" ] && [ "$d_with" != "$d_without" ] && echo "$tests" | grep -q "^81 passed"; then
  mkdir -p $dst; cp seeded_patch.diff $dst/patch.diff; cp demo_holds.py $dst/; cp meta.json $dst/meta.json 2>/dev/null || echo '{}' > $dst/meta.json
  echo "  CONFIRMED -> $dst"
else
  echo "  NOT CONFIRMED"; tail -2 /tmp/q_${id}_with.log
fi
