#!/usr/bin/env python3
# Differential script for property C01 (demultiplexing conserves every read pair).
# Builds its own inputs, runs the demultiplexer over many varied libraries and
# prints a sha256 over everything observable (outputs, rejects, logs, counters, exceptions).
import contextlib
import glob
import gzip
import hashlib
import io
import os
import random
import shutil
import sys
import tempfile

import singlecellmultiomics
from singlecellmultiomics.barcodeFileParser.barcodeFileParser import BarcodeParser
from singlecellmultiomics.fastqProcessing.fastqHandle import FastqHandle
from singlecellmultiomics.fastqProcessing.fastqIterator import FastqIterator, FastqRecord
from singlecellmultiomics.modularDemultiplexer import baseDemultiplexMethods as bdm
from singlecellmultiomics.modularDemultiplexer.demultiplexingStrategyLoader import DemultiplexingStrategyLoader

DIGEST = hashlib.sha256()
N_ITEMS = 0


def emit(*parts):
    global N_ITEMS
    N_ITEMS += 1
    # the randomly named scratch directory shows up in some exception messages
    DIGEST.update(repr(parts).replace(TMP, '<TMP>').encode('utf-8', 'backslashreplace'))
    DIGEST.update(b'\x00')


@contextlib.contextmanager
def quiet():
    sink = io.StringIO()
    with contextlib.redirect_stdout(sink):
        yield


def normalise_log(text):
    # Trace backs hold line numbers / source lines of the code; drop the frame lines
    return '\n'.join(line for line in text.split('\n') if not line.startswith('  '))


def read_any(path):
    if path.endswith('.gz'):
        with gzip.open(path, 'rt') as f:
            return f.read()
    with open(path) as f:
        return f.read()


def snapshot(directory):
    out = []
    for path in sorted(glob.glob(directory + '/**', recursive=True)):
        if os.path.isfile(path):
            try:
                content = read_any(path)
            except Exception as e:  # truncated gzip after a fault
                content = f'UNREADABLE:{type(e).__name__}'
            if path.endswith('.log'):
                content = normalise_log(content)
            out.append((os.path.relpath(path, directory), content))
    return out


# ---------------------------------------------------------------- set up
PKG = os.path.dirname(singlecellmultiomics.__file__)
TMP = tempfile.mkdtemp(prefix='pC01_demo_')
rng = random.Random(20260928)

bc_dir = os.path.join(TMP, 'barcodes')
os.makedirs(bc_dir)
for p in glob.glob(os.path.join(PKG, 'modularDemultiplexer/barcodes/*')):
    if '10x_3M' in p:
        continue
    shutil.copy(p, bc_dir)
# tiny stand-in for the 3 million 10x barcodes
with open(os.path.join(bc_dir, '10x_3M-february-2018.bc'), 'w') as f:
    for i in range(40):
        f.write(''.join(rng.choice('ACGT') for _ in range(16)) + '\n')

with quiet():
    barcodeParser = BarcodeParser(hammingDistanceExpansion=1, barcodeDirectory=bc_dir)
    indexParser = BarcodeParser(
        hammingDistanceExpansion=1,
        barcodeDirectory=os.path.join(PKG, 'modularDemultiplexer/indices/'))
    dmx = DemultiplexingStrategyLoader(
        barcodeParser=barcodeParser,
        indexParser=indexParser,
        indexFileAlias='illumina_merged_ThruPlex48S_RP')

ALL_QUALS = ''.join(chr(33 + q) for q in range(94))
KNOWN_INDEX = sorted(indexParser.barcodes['illumina_merged_ThruPlex48S_RP'])[:6]


def rand_seq(n, alphabet='ACGT'):
    return ''.join(rng.choice(alphabet) for _ in range(n))


def mutate(bc, n):
    bc = list(bc)
    for pos in rng.sample(range(len(bc)), n):
        bc[pos] = rng.choice([b for b in 'ACGT' if b != bc[pos]])
    return ''.join(bc)


def strategy_layout(strategy):
    """-> (barcode read, list of (start, end) pieces, prefix length, whitelist)"""
    alias = getattr(strategy, 'barcodeFileAlias', None)
    whitelist = sorted(barcodeParser.barcodes[alias]) if alias is not None and alias in barcodeParser.barcodes else []
    if hasattr(strategy, 'barcode_slices') and strategy.barcode_slices is not None:
        pieces = []
        bread = 0
        for ri, slices in enumerate(strategy.barcode_slices):
            for sl in slices:
                bread = ri
                pieces.append((sl.start or 0, sl.stop))
        prefix = max([e for s, e in pieces] + [0]) + 6
        return bread, pieces, prefix, whitelist
    if hasattr(strategy, 'barcodeStart'):
        s = strategy.barcodeStart
        e = s + strategy.barcodeLength
        prefix = max(e, getattr(strategy, 'umiStart', 0) + getattr(strategy, 'umiLength', 0))
        return strategy.barcodeRead, [(s, e)], prefix, whitelist
    return 0, [(3, 11)], 11, whitelist


def plant(seq, pieces, barcode):
    seq = list(seq)
    offset = 0
    for s, e in pieces:
        part = barcode[offset:offset + (e - s)]
        offset += e - s
        for i, b in enumerate(part):
            if s + i < len(seq):
                seq[s + i] = b
    return ''.join(seq)


def make_header(kind, idx, mate):
    x, y = 1000 + idx, 2000 + 7 * idx
    if kind == 'illumina':
        return f'@NS500414:628:H7YVNBGXC:{1 + idx % 4}:11101:{x}:{y} {mate}:N:0:{KNOWN_INDEX[idx % len(KNOWN_INDEX)]}'
    if kind == 'illumina_1mm':
        return f'@NS500414:628:H7YVNBGXC:1:11101:{x}:{y} {mate}:N:0:{mutate(KNOWN_INDEX[idx % len(KNOWN_INDEX)], 1)}'
    if kind == 'illumina_unknown_index':
        return f'@NS500414:628:H7YVNBGXC:1:11101:{x}:{y} {mate}:N:0:GGGGGGGGGG'
    if kind == 'illumina_numeric':
        return f'@NS500414:628:H7YVNBGXC:2:11101:{x}:{y} {mate}:Y:18:{idx % 9}'
    if kind == 'illumina_noindex':
        return f'@NS500414:628:H7YVNBGXC:2:11101:{x}:{y} {mate}:N:0::'
    if kind == 'short':
        return f'@M00001:12:000000000-ABCDE:1:1101:{x}:{y}'
    if kind == '3dec':
        return f'@Cluster_s_{1 + idx % 3}_1101_{idx}'
    if kind == 'scmo':
        return f'@Is:NS500414;RN:628;Fc:H7YVNBGXC;La:1;Ti:11101;CX:{x};CY:{y};Fi:N;CN:0;aa:CGATGT;aA:CGATGT;aI:2;LY:oldlib;RX:ACG;RQ:AAA;bi:{idx};bc:ACACACTA;BC:ACACACTA;QT:AAAAAAAA;MX:NLAIII384C8U3'
    if kind == 'garbage':
        return f'@read{idx}/{mate}'
    if kind == 'garbage_space':
        return f'@odd header {idx}\tx'
    raise ValueError(kind)


HEADER_KINDS = ['illumina'] * 8 + ['illumina_1mm', 'illumina_unknown_index', 'illumina_numeric',
                                   'illumina_noindex', 'short', '3dec', 'scmo', 'garbage', 'garbage_space']
READ_KINDS = ['white'] * 6 + ['mm1', 'mm1', 'mm2', 'unknown', 'truncated', 'short_prefix', 'empty',
                              'n_barcode', 'n_umi', 'polyT', 'motif']


def make_library(strategy, n, paired=True, header_kinds=HEADER_KINDS, read_kinds=READ_KINDS):
    bread, pieces, prefix, whitelist = strategy_layout(strategy)
    bclen = sum(e - s for s, e in pieces)
    records = []
    for idx in range(n):
        hk = header_kinds[idx % len(header_kinds)] if idx < len(header_kinds) else rng.choice(header_kinds)
        rk = read_kinds[idx % len(read_kinds)] if idx < 2 * len(read_kinds) else rng.choice(read_kinds)
        bc = rng.choice(whitelist) if whitelist else rand_seq(bclen)
        if len(bc) != bclen:
            bc = (bc + rand_seq(bclen))[:bclen]
        seqs = [rand_seq(rng.randint(prefix + 8, prefix + 60)), rand_seq(rng.randint(20, 70))]
        if bread == 1:
            seqs[1] = rand_seq(rng.randint(prefix + 8, prefix + 60))
        if rk in ('white', 'polyT', 'motif', 'n_umi'):
            pass
        elif rk == 'mm1':
            bc = mutate(bc, 1)
        elif rk == 'mm2':
            bc = mutate(bc, 2)
        elif rk == 'unknown':
            bc = rand_seq(bclen)
        elif rk == 'n_barcode':
            bc = list(bc)
            bc[rng.randrange(len(bc))] = 'N'
            bc = ''.join(bc)
        seqs[bread] = plant(seqs[bread], pieces, bc)
        if rk == 'n_umi':
            s = list(seqs[bread])
            for i in range(min(prefix, len(s))):
                if not any(a <= i < b for a, b in pieces) and rng.random() < 0.6:
                    s[i] = 'N'
            seqs[bread] = ''.join(s)
        if rk == 'motif':
            # restriction motifs / adapters some strategies look for right after the prefix
            s = seqs[0]
            seqs[0] = s[:prefix] + rng.choice(['CATG', 'TA', 'GATC', 'AGATC', 'CCTTGAACTTCTGGTTGTAG']) + s[prefix:]
        if rk == 'polyT':
            seqs[0] = seqs[0][:prefix] + 'T' * 24 + rand_seq(5)
        if rk == 'truncated':
            seqs[bread] = seqs[bread][:rng.randint(1, max(1, prefix - 1))]
        if rk == 'short_prefix':
            seqs[bread] = seqs[bread][:prefix]
        if rk == 'empty':
            seqs[rng.randrange(2)] = ''
            if rng.random() < 0.3:
                seqs = ['', '']
        pair = []
        for mate, seq in enumerate(seqs[:2 if paired else 1], start=1):
            mode = idx % 4
            if mode == 0:
                qual = (ALL_QUALS * 3)[idx % 94: idx % 94 + len(seq)]
            elif mode == 1:
                qual = ''.join(rng.choice(ALL_QUALS) for _ in seq)
            elif mode == 2:
                qual = rng.choice('!~JAI#5') * len(seq)
            else:
                qual = ''.join(rng.choice('!"#FGHIJKL~}|') for _ in seq)
            pair.append((make_header(hk, idx, mate), seq, '+', qual))
        records.append(pair)
    return records


def write_library(records, directory, name, gz=True, flavour='normal'):
    """-> list of paths (R1, R2)"""
    n_mates = len(records[0]) if records else 2
    paths = []
    for m in range(n_mates):
        path = os.path.join(directory, f'{name}_R{m + 1}.fastq' + ('.gz' if gz else ''))
        opener = (lambda p: gzip.open(p, 'wt', newline='')) if gz else (lambda p: open(p, 'w', newline=''))
        with opener(path) as f:
            for i, pair in enumerate(records):
                lines = list(pair[m])
                eol = '\n'
                if flavour == 'crlf':
                    eol = '\r\n'
                elif flavour == 'trailing_ws' and i % 2:
                    lines = [line + ' \t' for line in lines]
                text = eol.join(lines)
                if not (flavour == 'no_final_newline' and i == len(records) - 1):
                    text += eol
                f.write(text)
                if flavour == 'blank_line_mid' and i == len(records) // 2 and m == n_mates - 1:
                    f.write(eol)
        paths.append(path)
    return paths


class FaultyHandle:
    """Forwards to a real FastqHandle, raises OSError on the k-th write"""

    def __init__(self, inner, fail_at, exc=OSError):
        self.inner = inner
        self.fail_at = fail_at
        self.calls = 0
        self.exc = exc

    def write(self, records):
        self.calls += 1
        if self.calls == self.fail_at:
            raise self.exc(28, 'No space left on device')
        return self.inner.write(records)

    def close(self):
        self.inner.close()


class FaultyLog:
    def __init__(self, inner, fail_at):
        self.inner = inner
        self.fail_at = fail_at
        self.calls = 0

    def write(self, text):
        self.calls += 1
        if self.calls == self.fail_at:
            raise OSError(5, 'Input/output error')
        return self.inner.write(text)

    def close(self):
        self.inner.close()


RUN_ID = 0
STATS = {}


def run(label, files, strategies, paired, library='LIB', rejects=True, single_cell=False,
        maxReadPairs=None, use_log=True, probe=None, target=True,
        fault_target=None, fault_reject=None, fault_log=None, calls=1, handle_paired=None):
    global RUN_ID
    RUN_ID += 1
    out = os.path.join(TMP, f'out_{RUN_ID}')
    os.makedirs(out)
    hp = paired if handle_paired is None else handle_paired
    handle = FastqHandle(out + '/demultiplexed', hp, single_cell=single_cell, maxHandles=3) if target else None
    rejectHandle = FastqHandle(out + '/rejects', hp) if rejects else None
    log_handle = open(out + '/demultiplexing.log', 'w') if use_log else None
    t, r, lg = handle, rejectHandle, log_handle
    if fault_target:
        t = FaultyHandle(handle, fault_target)
    if fault_reject:
        r = FaultyHandle(rejectHandle, fault_reject)
    if fault_log:
        lg = FaultyLog(log_handle, fault_log)
    results = []
    for call in range(calls):
        try:
            with quiet():
                kwargs = dict(maxReadPairs=maxReadPairs, strategies=strategies, library=library,
                              targetFile=t, rejectHandle=r, log_handle=lg)
                if probe is not None:
                    kwargs['probe'] = probe
                processed, yields = dmx.demultiplex(files, **kwargs)
            results.append(('ok', processed, list(yields.items()), type(yields).__name__))
        except BaseException as e:
            results.append(('raised', type(e).__name__, str(e)))
    for h in (handle, rejectHandle, log_handle):
        if h is not None:
            try:
                h.close()
            except Exception as e:
                results.append(('close failed', type(e).__name__))
    snap = snapshot(out)
    for name, content in snap:
        for marker in (';Rr:', 'RR:NonMultiplexable;', 'RR:NonMultiplexable\n', ';RR:ValueError', ';RR:OSError', 'RR:bc:', 'Error occured using', 'UNREADABLE'):
            STATS[marker] = STATS.get(marker, 0) + content.count(marker)
    for r in results:
        if r[0] == 'raised':
            STATS['raised ' + r[1]] = STATS.get('raised ' + r[1], 0) + 1
    emit(label, results, snap)
    shutil.rmtree(out)
    return results


# ---------------------------------------------------------------- part 1: every strategy
in_dir = os.path.join(TMP, 'in')
os.makedirs(in_dir)
strategies = dmx.demultiplexingStrategies
accepted_total = 0
for si, strategy in enumerate(strategies):
    single_only = 'SINGLE_END' in type(strategy).__name__
    lib = make_library(strategy, 46, paired=True)
    pe = write_library(lib, in_dir, f's{si}_pe', gz=(si % 2 == 0))
    se = write_library([pair[:1] for pair in lib], in_dir, f's{si}_se', gz=(si % 2 == 1))
    res = run(f'{strategy.shortName}/pe/joint', pe, [strategy], True, library=f'lib{si}')
    if res[0][0] == 'ok':
        accepted_total += sum(v for k, v in res[0][2])
    res = run(f'{strategy.shortName}/se/joint', se, [strategy], False, library=f'lib{si}')
    if res[0][0] == 'ok':
        accepted_total += sum(v for k, v in res[0][2])
    run(f'{strategy.shortName}/pe/norejects', pe, [strategy], True, rejects=False, use_log=(si % 3 == 0))
    run(f'{strategy.shortName}/{"se" if single_only else "pe"}/percell',
        se if single_only else pe, [strategy], not single_only, single_cell=True)
    run(f'{strategy.shortName}/pe/max', pe, [strategy], True, maxReadPairs=[0, 1, 2, 7, 46, 47, 1000][si % 7])
    run(f'{strategy.shortName}/pe/probe', pe, [strategy], True, probe=True, use_log=False, maxReadPairs=30)
emit('accepted_total>0', accepted_total > 0)
sys.stderr.write(f'accepted in part 1: {accepted_total}\n')

# ---------------------------------------------------------------- part 2: one strategy, many input shapes
by_name = {s.shortName: s for s in strategies}
main_strategy = by_name.get('NLAIII384C8U3', strategies[5])
cs2 = by_name.get('CS2C8U6', strategies[2])
lib = make_library(main_strategy, 60, paired=True)
for flavour in ('normal', 'crlf', 'trailing_ws', 'no_final_newline', 'blank_line_mid'):
    for gz in (True, False):
        files = write_library(lib, in_dir, f'shape_{flavour}_{gz}', gz=gz, flavour=flavour)
        run(f'shape/{flavour}/{gz}', files, [main_strategy], True)

# every max read pair cut off, including zero, negative, and a float
files = write_library(lib[:12], in_dir, 'cut', gz=True)
for cut in [None, -1, 0, 1, 2, 3, 5, 11, 12, 13, 100, 2.5]:
    run(f'cut/{cut}', files, [main_strategy, cs2], True, maxReadPairs=cut)
    run(f'cut/{cut}/se/percell', files[:1], [main_strategy], False, maxReadPairs=cut, single_cell=True)

# mates of unequal length, empty inputs, header only
r1_only_short = write_library(lib[:9], in_dir, 'uneven_a', gz=False)
r2_long = write_library(lib[:15], in_dir, 'uneven_b', gz=False)
run('uneven/r1short', [r1_only_short[0], r2_long[1]], [main_strategy], True)
run('uneven/r2short', [r2_long[0], r1_only_short[1]], [main_strategy], True)
empty = os.path.join(in_dir, 'empty_R1.fastq')
open(empty, 'w').close()
empty_gz = os.path.join(in_dir, 'empty_R1.fastq.gz')
gzip.open(empty_gz, 'wt').close()
run('empty/plain', [empty, r2_long[1]], [main_strategy], True)
run('empty/gz/se', [empty_gz], [main_strategy], False)
run('empty/both', [empty, empty_gz], [main_strategy], True)
partial = os.path.join(in_dir, 'partial_R1.fastq')
with open(partial, 'w') as f:
    f.write('\n'.join(lib[0][0]) + '\n' + lib[1][0][0] + '\n' + lib[1][0][1] + '\n')
run('partial/se', [partial], [main_strategy], False)
run('partial/pe', [partial, r2_long[1]], [main_strategy], True)
run('missing file', [os.path.join(in_dir, 'nope.fastq')], [main_strategy], False)
run('three files', [r2_long[0], r2_long[1], r2_long[0]], [main_strategy], True)
run('no files', [], [main_strategy], True, maxReadPairs=4)

# several strategies at once, auto detect list, no strategies, mismatching handle width
mixed = make_library(cs2, 30) + make_library(main_strategy, 30) + make_library(by_name.get('SCARC8R1', strategies[3]), 20)
rng.shuffle(mixed)
files = write_library(mixed, in_dir, 'mixed', gz=True)
run('multi/3', files, [main_strategy, cs2, by_name.get('SCARC8R1', strategies[3])], True)
run('multi/dup', files, [cs2, cs2], True)
run('multi/all', files, list(strategies), True, maxReadPairs=25)
run('multi/all/percell', files, list(strategies), True, maxReadPairs=25, single_cell=True)
run('multi/none-selected', files, [], True)
run('multi/autodetect', files, None, True, maxReadPairs=40)
run('multi/autodetect/probe', files, None, True, maxReadPairs=40, probe=True)
run('multi/pe into se handle', files, [main_strategy], True, handle_paired=False)
run('multi/se into pe handle', files[:1], [main_strategy], False, handle_paired=True)
run('multi/no target', files, [main_strategy], True, target=False)
run('multi/no outputs', files, [main_strategy], True, target=False, rejects=False, use_log=False)
run('multi/history', files, [main_strategy], True, calls=3, maxReadPairs=17)

# library names: long (header > 254 characters), unsafe characters, empty, None
short_lib = write_library(make_library(main_strategy, 24), in_dir, 'names', gz=False)
for name in ['L' * 40, 'L' * 150, 'L' * 230, 'L' * 300, 'with space;and:colon', '', None, 'ünï']:
    run(f'name/{name!r}', short_lib, [main_strategy], True, library=name)
    run(f'name/{name!r}/percell', short_lib, [cs2], True, library=name, single_cell=True)

# faults on the output side
for k in (1, 2, 5, 9):
    run(f'fault/target/{k}', short_lib, [main_strategy], True, fault_target=k)
    run(f'fault/reject/{k}', short_lib, [main_strategy], True, fault_reject=k)
    run(f'fault/log/{k}', short_lib, [main_strategy], True, fault_log=k)
    run(f'fault/target/{k}/retry', short_lib, [main_strategy], True, fault_target=k, calls=2)
run('fault/log/garbage', short_lib, [by_name.get('ILLU', strategies[0])], True, fault_log=2, library='Q' * 300)

# detectLibYields (probe mode through the public wrapper)
with quiet():
    for verbose in (False, True):
        libraries = {'libA': {'lane1': {'R1': [files[0]], 'R2': [files[1]]}},
                     'libB': {'lane1': {'R1': [short_lib[0]]}}}
        processed, libYields = dmx.detectLibYields(libraries, testReads=35, verbose=verbose)
        emit('detectLibYields', processed, [(k, v['processedReadPairs'], list(v['strategyYields'].items())) for k, v in libYields.items()])
        for k, v in libYields.items():
            emit('selected', k, dmx.selectedStrategiesBasedOnYield(v['processedReadPairs'], v['strategyYields'], 2, 2))

# ---------------------------------------------------------------- part 3: unit level
# phred clamp: total over every code point, all methods, repeated (cached) calls
code_points = list(range(0, 0x500)) + [0x7FF, 0x800, 0xFFFF, 0x10000, 0x10FFFF - 32, 0x10FFFF]
for method in (0, 1, 2, 3, None, 'x'):
    for rep in range(2):
        for chunk_start in range(0, len(code_points), 97):
            text = ''.join(chr(c) for c in code_points[chunk_start:chunk_start + 97])
            try:
                emit('phred', method, chunk_start, bdm.phredToFastqHeaderSafeQualities(text, method=method))
            except Exception as e:
                emit('phred', method, chunk_start, type(e).__name__, str(e))
for value in ['', '!', '~', ALL_QUALS, list('IJK!'), ('a', 'b'), b'AB', ['AB'], [1], None, 5]:
    try:
        emit('phred odd', repr(value), bdm.phredToFastqHeaderSafeQualities(value))
    except Exception as e:
        emit('phred odd', repr(value), type(e).__name__, str(e))
safe = bdm.phredToFastqHeaderSafeQualities(ALL_QUALS)
emit('roundtrip', safe, bdm.fastqHeaderSafeQualitiesToPhred(safe))
tr = bdm.TaggedRecord(bdm.TagDefinitions)
for q in (ALL_QUALS, '', '!!!', '~~'):
    tr.addTagByTag('RQ', q, isPhred=True, cast_type=None)
    emit('tag RQ', tr.tags['RQ'])
    tr.addTagByTag('RQ', tr.tags['RQ'], isPhred=True, decodePhred=True)
    emit('tag RQ back', tr.tags['RQ'])

# fastq iterator: lock step consumption, read index, stop behaviour
a = os.path.join(in_dir, 'it_a.fastq')
b = os.path.join(in_dir, 'it_b.fastq.gz')
with open(a, 'w') as f:
    for i in range(5):
        f.write(f'@a{i}  \nACGT{i}\t\n+ \nIIII{i}\n')
    f.write('tail line a\n')
with gzip.open(b, 'wt') as f:
    for i in range(3):
        f.write(f'@b{i}\nTTTT{i}\n+\nJJJJ{i}\n')
    f.write('\n\n\n\n@after blank\nAC\n+\nII\n')
for paths in ([a], [b], [a, b], [b, a], [a, a, b], []):
    it = FastqIterator(*paths)
    emit('iter type', iter(it) is it, len(it.handles), it.readIndex)
    got = []
    for step in range(9):
        try:
            rec = next(it)
            got.append(('rec', rec, [type(r).__name__ for r in rec], it.readIndex))
        except StopIteration:
            got.append(('stop', it.readIndex))
    emit('iter', paths and [os.path.basename(p) for p in paths], got, [h.readline() for h in it.handles])
    for h in it.handles:
        h.close()
emit('list', [tuple(r) for r in FastqIterator(a, b)])
try:
    FastqIterator(a, os.path.join(in_dir, 'absent.fastq.gz'))
except Exception as e:
    emit('iter absent', type(e).__name__)

# base demultiplexer: records are handled one after the other
base = bdm.IlluminaBaseDemultiplexer(indexFileParser=indexParser)
good = FastqRecord('@NS500414:628:H7YVNBGXC:1:11101:15963:1046 1:N:0:CGATGT', 'ACGT', '+', 'IIII')
bad_index = FastqRecord('@NS500414:628:H7YVNBGXC:1:11101:15963:1046 2:N:0:GGGGGGGG', 'AC', '+', 'II')
garbage = FastqRecord('@nothing', 'ACG', '+', 'III')
empty_rec = FastqRecord('@NS500414:628:H7YVNBGXC:1:11101:1:2 1:N:0:CGATGT', '', '+', '')
for records in ([good], [good, good], [good, bad_index], [bad_index, good], [good, garbage], [garbage, bad_index],
                [empty_rec, good], [], (good,)):
    for library in (None, 'lib', 'L' * 300):
        for reason in (None, 'why', bdm.NonMultiplexable('because of')):
            for inherited in (False, True):
                try:
                    res = base.demultiplex(records, inherited=inherited, library=library, reason=reason, probe=None)
                    emit('base', [str(r) if not inherited else (sorted((k, str(v)) for k, v in r.tags.items()), r.sequence, r.qualities, r.plus) for r in res])
                except BaseException as e:
                    emit('base', type(e).__name__, str(e))

# fastq handles used directly
for paired in (False, True):
    for n_records in (0, 1, 2, 3):
        d = os.path.join(TMP, f'fh_{paired}_{n_records}')
        os.makedirs(d)
        h = FastqHandle(d + '/x', paired)
        emit('fh attrs', h.pe, h.sc, h.path == d + '/x', len(h.handles))
        for rep in range(2):
            h.write([f'@r{rep}_{i}\nAC\n+\nII\n' for i in range(n_records)])
        h.close()
        emit('fh', paired, n_records, snapshot(d))
try:
    FastqHandle(os.path.join(TMP, 'no_such_dir', 'x'), True)
except Exception as e:
    emit('fh nodir', type(e).__name__)

shutil.rmtree(TMP)
sys.stderr.write(f'{RUN_ID} demultiplex runs, {N_ITEMS} digested items, coverage {sorted(STATS.items())}\n')
print(DIGEST.hexdigest())
