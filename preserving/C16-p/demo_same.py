#!/usr/bin/env python3
"""Differential script for the FeatureContainer lookups (C16).

Builds a few hundred random feature sets (nested, identical, zero length,
both strands / unstranded, several contigs, negative starts), runs point and
range queries, pysam read annotation and molecule annotation through many
add / sort / query histories and prints a sha256 over everything observed.
"""
import os
import sys

if os.environ.get('PYTHONHASHSEED') != '0':
    # Results of the set based code paths are returned in set iteration order,
    # pin the string hash seed to make the exact order reproducible
    os.environ['PYTHONHASHSEED'] = '0'
    os.execv(sys.executable, [sys.executable] + sys.argv)

import hashlib
import random
import tempfile
import io
import contextlib
import pysam
import numpy as np
from singlecellmultiomics.features import FeatureContainer
from singlecellmultiomics.fragment import Fragment
from singlecellmultiomics.molecule import FeatureAnnotatedMolecule

strict = hashlib.sha256()   # exact order of everything returned
canon = hashlib.sha256()    # order independent (sorted) view
n_records = 0
DUMP = open(os.environ['DEMO_DUMP'], 'w') if os.environ.get('DEMO_DUMP') else None


def emit(label, value, ordered=True):
    """value: list / set of features (or anything with a repr)"""
    global n_records
    n_records += 1
    if DUMP is not None:
        DUMP.write(f'{label}|{value!r}\n')
    if isinstance(value, (list, tuple)):
        as_list = list(value)
        strict.update(f'{label}|{as_list!r}\n'.encode())
        canon.update(f'{label}|{sorted(map(repr, as_list))!r}\n'.encode())
    elif isinstance(value, (set, frozenset)):
        strict.update(f'{label}|{sorted(map(repr, value))!r}\n'.encode())
        canon.update(f'{label}|{sorted(map(repr, value))!r}\n'.encode())
    else:
        strict.update(f'{label}|{value!r}\n'.encode())
        canon.update(f'{label}|{value!r}\n'.encode())


def guarded(label, fn, *args, **kwargs):
    try:
        r = fn(*args, **kwargs)
    except BaseException as e:  # faults are part of the behaviour
        emit(label, f'EXC {type(e).__name__}: {e}')
        return None
    emit(label, r)
    return r


CONTIGS = ['chr1', 'chr2', 'chrX', 'scaffold_7']
HEADER = pysam.AlignmentHeader.from_dict({
    'HD': {'VN': '1.6', 'SO': 'unsorted'},
    'SQ': [{'SN': c, 'LN': 100000} for c in CONTIGS + ['chrUn']]})


def random_feature(rng, i, span, allow_negative, tie_prone):
    style = rng.random()
    lo = -20 if allow_negative else 0
    if style < 0.15:      # zero length
        s = rng.randint(lo, span)
        e = s
    elif style < 0.35:    # long, creates nesting
        s = rng.randint(lo, span // 2)
        e = s + rng.randint(span // 4, span)
    elif style < 0.5:     # aligned to a grid: shared starts / ends, identical intervals
        s = rng.randrange(0, span, 10)
        e = s + rng.choice([0, 10, 20, 50])
    else:
        s = rng.randint(lo, span)
        e = s + rng.randint(1, 15)
    if e < 0:
        e = 0
    strand = rng.choice(['+', '-', '+', '-', None])
    # Identical (start, end, name) with a different strand / payload type cannot be ordered
    name = rng.choice(['g%d' % i, 'g%d' % (i % 5), 'dup']) if tie_prone else 'g%d' % i
    data = rng.choice([None, '', 'x', ('type', 'exon'), (('gene_id', 'G%d' % (i % 7)), ('type', 'exon'))])
    return s, e, name, strand, data


def state_digest(f):
    out = []
    for attr in ('startCoordinates', 'endCoordinates', 'endIndexes', 'fastIndex', 'maxFeatureSizes'):
        d = getattr(f, attr, None)
        if d is None:
            out.append((attr, None))
            continue
        out.append((attr, [(k, np.asarray(v).tolist(), str(np.asarray(v).dtype)) for k, v in d.items()]))
    lookup = getattr(f, 'endIndexLookup', None)
    out.append(('endIndexLookup', None if lookup is None else [
        (k, [(int(a), int(b)) for a, b in v.items()]) for k, v in lookup.items()]))
    out.append(('features', [(k, list(v)) for k, v in f.features.items()]))
    out.append(('sorted', f.sorted))
    return out


def make_read(rng, contig, span, name='r'):
    read = pysam.AlignedSegment(HEADER)
    read.query_name = name
    read.reference_name = contig
    read.reference_start = rng.randint(0, span)
    ops = []
    qlen = 0
    n_blocks = rng.randint(1, 4)
    if rng.random() < 0.3:
        k = rng.randint(1, 3)
        ops.append((4, k))
        qlen += k
    for b in range(n_blocks):
        k = rng.randint(1, 12)
        ops.append((0, k))
        qlen += k
        if b != n_blocks - 1:
            kind = rng.choice([3, 2, 1])
            k = rng.randint(1, 25)
            ops.append((kind, k))
            if kind == 1:
                qlen += k
    read.cigartuples = ops
    read.query_sequence = ''.join(rng.choice('ACGT') for _ in range(qlen))
    read.query_qualities = pysam.qualitystring_to_array('I' * qlen)
    read.flag = rng.choice([0, 16])
    read.mapping_quality = 60
    return read


def query_round(f, rng, label, span, variants=True):
    contigs = CONTIGS + ['chrNotThere']
    # point queries
    for q in range(14):
        contig = rng.choice(contigs)
        kind = rng.random()
        feats = f.features.get(contig, [])
        if kind < 0.45 and feats:
            ft = rng.choice(feats)
            coord = rng.choice([ft[0], ft[1], ft[0] - 1, ft[1] + 1, ft[0] + 1, ft[1] - 1])
        elif kind < 0.55:
            coord = rng.choice([-1, -5, -100, 0])
        elif kind < 0.6:
            coord = span * 5
        else:
            coord = rng.randint(-5, span + 30)
        strand = rng.choice([None, '+', '-'])
        style = rng.randrange(4)
        if style == 0:
            guarded(f'{label}/at/{contig}/{coord}/{strand}', f.findFeaturesAt, contig, coord, strand)
        elif style == 1:
            guarded(f'{label}/atkw/{contig}/{coord}/{strand}', f.findFeaturesAt,
                    chromosome=contig, lookupCoordinate=coord, strand=strand)
        elif style == 2:
            guarded(f'{label}/atdef/{contig}/{coord}', f.findFeaturesAt, contig, coord)
        else:
            guarded(f'{label}/atnp/{contig}/{coord}/{strand}', f.findFeaturesAt, contig, np.int64(coord), strand)
        if variants and rng.random() < 0.5:
            for optim in ('bdbnb', 'nb', 'optim', 'plain'):
                guarded(f'{label}/at-{optim}/{contig}/{coord}/{strand}', f.findFeaturesAt,
                        contig, coord, strand, optim)
        if rng.random() < 0.3:
            guarded(f'{label}/nearest/{contig}/{coord}/{strand}', f.findNearestFeature, contig, coord, strand)
    # range queries
    for q in range(10):
        contig = rng.choice(contigs)
        feats = f.features.get(contig, [])
        if feats and rng.random() < 0.5:
            a = rng.choice(feats)
            b = rng.choice(feats)
            start = rng.choice([a[0], a[1], a[0] - 1, a[1] + 1])
            end = rng.choice([b[0], b[1], b[0] - 1, b[1] + 1])
        else:
            start = rng.randint(-10, span + 10)
            end = start + rng.choice([0, 0, 1, 5, 30, span, -3])
        strand = rng.choice([None, '+', '-'])
        if rng.random() < 0.5:
            guarded(f'{label}/between/{contig}/{start}/{end}/{strand}', f.findFeaturesBetween,
                    contig, start, end, strand)
        else:
            guarded(f'{label}/betweenkw/{contig}/{start}/{end}/{strand}', f.findFeaturesBetween,
                    chromosome=contig, sampleStart=start, sampleEnd=end, strand=strand)
        if rng.random() < 0.3:
            guarded(f'{label}/brk/{contig}/{start}/{end}/{strand}', f.findFeaturesBetweenBRK,
                    contig, start, end, strand)
    # reads
    for q in range(4):
        contig = rng.choice(CONTIGS + ['chrUn'])
        read = make_read(rng, contig, span)
        strand = rng.choice([None, '+', '-'])
        desc = f'{contig}:{read.reference_start}:{read.cigarstring}:{strand}'
        guarded(f'{label}/pysam1/{desc}', f.findFeaturesAtPysamAlign, read, strand)
        guarded(f'{label}/pysam0/{desc}', f.findFeaturesAtPysamAlign, read, strand, 0)
        guarded(f'{label}/pysam1kw/{desc}', f.findFeaturesAtPysamAlign, read, strand=strand, method=1)


def molecule_round(f, rng, label, span):
    for q in range(3):
        contig = rng.choice(CONTIGS)
        read = make_read(rng, contig, span, name=f'm{q}')
        read.set_tag('SM', 'cell1')
        read.set_tag('RX', 'ACG')
        for stranded in (None, True, False):
            for method in (0, 1):
                for capture in (False, True):
                    try:
                        frag = Fragment([read, None])
                        mol = FeatureAnnotatedMolecule(frag, features=f, stranded=stranded,
                                                       capture_locations=capture)
                        mol.annotate(method=method)
                        hits = [(k, sorted(v)) for k, v in mol.hits.items()]
                        emit(f'{label}/mol/{contig}/{read.reference_start}/{read.cigarstring}/{stranded}/{method}/hits',
                             hits)
                        if capture:
                            emit(f'{label}/mol/locs/{stranded}/{method}', list(mol.feature_locations.items()))
                    except BaseException as e:
                        emit(f'{label}/mol/exc', f'{type(e).__name__}: {e}')


def scenario(seed):
    rng = random.Random(seed)
    f = FeatureContainer()
    if seed % 7 == 0:
        f.debug = True          # debug messages are routed through debugMsg
        msgs = []
        f.debugMsg = lambda m: msgs.append(str(m))
    else:
        msgs = None
    span = rng.choice([30, 60, 200, 1000])
    n = rng.choice([1, 1, 2, 3, 5, 10, 25, 60, 120, 200])
    allow_negative = seed % 5 == 0
    tie_prone = seed % 8 == 3
    label = f's{seed}'
    contigs_used = rng.sample(CONTIGS, rng.randint(1, len(CONTIGS)))

    # queries on the empty container
    if seed % 11 == 0:
        query_round(f, rng, label + '/empty', span, variants=False)

    counter = 0
    n_phases = rng.randint(1, 4)
    for phase in range(n_phases):
        n_add = n if phase == 0 else rng.choice([0, 1, 1, 2, 5, 20])
        for _ in range(n_add):
            s, e, name, strand, data = random_feature(rng, counter, span, allow_negative, tie_prone)
            counter += 1
            contig = rng.choice(contigs_used if rng.random() < 0.9 else CONTIGS)
            f.addFeature(contig, s, e, name, strand, data)
            if rng.random() < 0.1:   # exact duplicate
                f.addFeature(contig, s, e, name, strand, data)
            if rng.random() < 0.03:  # query in between adds, no explicit sort
                guarded(f'{label}/p{phase}/interleaved', f.findFeaturesAt, contig, s, strand)
        mode = rng.randrange(4)
        if mode == 0:
            guarded(f'{label}/p{phase}/sort', f.sort)
        elif mode == 1:
            guarded(f'{label}/p{phase}/sort', f.sort)
            guarded(f'{label}/p{phase}/sort2', f.sort)
        elif mode == 2:
            # range query first, on a container which was not re-indexed
            c = rng.choice(CONTIGS)
            guarded(f'{label}/p{phase}/unsorted-between', f.findFeaturesBetween, c, 0, span, None)
        # mode 3: no explicit sort at all
        emit(f'{label}/p{phase}/state-pre', state_digest(f))
        query_round(f, rng, f'{label}/p{phase}', span)
        emit(f'{label}/p{phase}/state-post', state_digest(f))
        if seed % 4 == 0:
            molecule_round(f, rng, f'{label}/p{phase}', span)
    emit(f'{label}/len', len(f))
    emit(f'{label}/refs', f.getReferenceList())
    emit(f'{label}/cacheinfo', tuple(FeatureContainer.findFeaturesAt.cache_info()))
    if msgs is not None:
        emit(f'{label}/debugmsgs', msgs)


def fault_scenarios():
    # invalid strand
    f = FeatureContainer()
    guarded('fault/strand', f.addFeature, 'chr1', 1, 2, 'a', '*')
    emit('fault/strand/state', state_digest(f))
    # negative end coordinate: the end coordinates are stored unsigned
    f = FeatureContainer()
    f.addFeature('chr1', 5, 10, 'ok', '+', None)
    f.sort()
    guarded('fault/negend/before', f.findFeaturesAt, 'chr1', 7)
    f.addFeature('chr2', 1, 4, 'fine', '+', None)
    f.addFeature('chr1', -10, -5, 'neg', '+', None)
    guarded('fault/negend/query', f.findFeaturesAt, 'chr1', 7)
    emit('fault/negend/state', state_digest(f))
    guarded('fault/negend/retry', f.findFeaturesAt, 'chr1', 7)
    guarded('fault/negend/retry-between', f.findFeaturesBetween, 'chr1', 0, 20)
    guarded('fault/negend/retry-chr2', f.findFeaturesAt, 'chr2', 2)
    guarded('fault/negend/sort', f.sort)
    emit('fault/negend/state2', state_digest(f))
    # end before start: nothing overlaps the start of the feature
    f = FeatureContainer()
    f.addFeature('chr1', 10, 5, 'inverted', '+', None)
    guarded('fault/inverted/sort', f.sort)
    emit('fault/inverted/state', state_digest(f))
    guarded('fault/inverted/query', f.findFeaturesAt, 'chr1', 7)
    f.addFeature('chr1', 0, 30, 'cover', '+', None)
    guarded('fault/inverted/sort2', f.sort)
    guarded('fault/inverted/query2', f.findFeaturesAt, 'chr1', 7)
    guarded('fault/inverted/query3', f.findFeaturesBetween, 'chr1', 0, 100)
    emit('fault/inverted/state2', state_digest(f))
    # non integer coordinates
    f = FeatureContainer()
    f.addFeature('chr1', 'a', 'b', 'text', '+', None)
    guarded('fault/text/sort', f.sort)
    emit('fault/text/state', state_digest(f))
    guarded('fault/text/query', f.findFeaturesAt, 'chr1', 7)
    # un-orderable ties (identical interval and name, None vs str strand)
    f = FeatureContainer()
    f.addFeature('chr1', 1, 5, 'n', None, None)
    f.addFeature('chr1', 1, 5, 'n', '+', None)
    guarded('fault/tie/query', f.findFeaturesAt, 'chr1', 3)
    emit('fault/tie/state', state_digest(f))
    guarded('fault/tie/query-again', f.findFeaturesAt, 'chr1', 3)
    # unhashable payload
    f = FeatureContainer()
    f.addFeature('chr1', 1, 5, 'n', '+', {'a': 1})
    guarded('fault/unhashable/sort', f.sort)
    guarded('fault/unhashable/query', f.findFeaturesAt, 'chr1', 3)
    guarded('fault/unhashable/between', f.findFeaturesBetween, 'chr1', 0, 3)
    emit('fault/unhashable/state', state_digest(f))
    # odd query values
    f = FeatureContainer()
    f.addFeature('chr1', 1, 5, 'n', '+', 'd')
    f.addFeature('chr1', 3, 3, 'z', '-', 'd')
    guarded('fault/none-coord', f.findFeaturesAt, 'chr1', None)
    guarded('fault/float-coord', f.findFeaturesAt, 'chr1', 3.0)
    guarded('fault/float-coord2', f.findFeaturesAt, 'chr1', 2.5)
    guarded('fault/str-coord', f.findFeaturesAt, 'chr1', '3')
    guarded('fault/between-none', f.findFeaturesBetween, 'chr1', None, 3)
    guarded('fault/between-reversed', f.findFeaturesBetween, 'chr1', 5, 1)
    guarded('fault/bad-optim', f.findFeaturesAt, 'chr1', 3, None, None)
    # two containers share the memoisation of the class
    a = FeatureContainer()
    b = FeatureContainer()
    a.addFeature('chr1', 1, 10, 'a', '+', None)
    b.addFeature('chr1', 5, 20, 'b', '-', None)
    guarded('two/a1', a.findFeaturesAt, 'chr1', 7)
    guarded('two/b1', b.findFeaturesAt, 'chr1', 7)
    a.addFeature('chr1', 7, 7, 'a2', '-', None)
    guarded('two/b2', b.findFeaturesAt, 'chr1', 7)
    guarded('two/a2', a.findFeaturesAt, 'chr1', 7)
    guarded('two/a3', a.findFeaturesBetween, 'chr1', 7, 7, '-')
    # same list object is handed out by the memoised lookup
    r1 = a.findFeaturesAt('chr1', 7)
    r2 = a.findFeaturesAt('chr1', 7)
    emit('two/identity', r1 is r2)


def file_scenarios(tmp):
    # GTF and BED loading end in the same index
    gtf = os.path.join(tmp, 'a.gtf')
    with open(gtf, 'w') as h:
        for i in range(40):
            s = 100 + (i % 9) * 40
            e = s + 30 + (i % 4) * 100
            strand = '+-'[i % 2]
            h.write(f'chr{1 + i % 3}\tsrc\texon\t{s}\t{e}\t.\t{strand}\t.\t'
                    f'gene_id "G{i % 6}"; transcript_id "T{i % 10}"; exon_id "E{i}"; gene_name "N{i % 6}";\n')
    f = FeatureContainer()
    with contextlib.redirect_stdout(io.StringIO()):
        f.loadGTF(gtf, select_feature_type=['exon'], identifierFields=('exon_id', 'transcript_id'), store_all=True)
    emit('gtf/state', state_digest(f))
    for c in ('chr1', 'chr2', 'chr3', '1'):
        for x in range(80, 900, 17):
            guarded(f'gtf/at/{c}/{x}', f.findFeaturesAt, c, x, None)
            guarded(f'gtf/between/{c}/{x}', f.findFeaturesBetween, c, x, x + 25, '+')


def main():
    with tempfile.TemporaryDirectory() as tmp:
        for seed in range(320):
            scenario(seed)
        fault_scenarios()
        try:
            file_scenarios(tmp)
        except BaseException as e:
            emit('gtf/exc', f'{type(e).__name__}: {e}')
    print('records', n_records)
    print('order-independent digest', canon.hexdigest())
    print(strict.hexdigest())


if __name__ == '__main__':
    main()
