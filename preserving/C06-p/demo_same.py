#!/usr/bin/env python3
"""Differential script for the molecule assignment code (property C06).

Simulates a few hundred small single cell libraries with a known duplicate
structure, runs the molecule assignment / tagging code over them in many
configurations and prints a sha256 digest over everything that is observable:
the partition into molecules, the order of emission, the iterator counters
between emissions, all flags and tags of all reads after write_tags, the
results of direct Fragment / Molecule comparisons (including raised
exceptions), BAM round trips, re-tagging histories and command line runs of
bamtagmultiome on the shipped test data.

The last line printed is the digest.
"""
import hashlib
import os
import random
import shutil
import sys
import tempfile
import contextlib
import io

import pysam

from singlecellmultiomics.fragment import Fragment, NlaIIIFragment, CHICFragment
from singlecellmultiomics.molecule import Molecule, NlaIIIMolecule, CHICMolecule, MoleculeIterator

HERE = os.path.dirname(os.path.abspath(__file__))
HEADER = pysam.AlignmentHeader.from_dict({
    'HD': {'VN': '1.6', 'SO': 'unsorted'},
    'SQ': [{'SN': 'chr1', 'LN': 200000}, {'SN': 'chr2', 'LN': 200000}, {'SN': 'chr3', 'LN': 50000}],
})

DIGEST = hashlib.sha256()
N_RECORDS = 0


def emit(*values):
    global N_RECORDS
    N_RECORDS += 1
    DIGEST.update(repr(values).encode())
    DIGEST.update(b'\n')


# ---------------------------------------------------------------- simulation
def random_seq(rng, n):
    return ''.join(rng.choice('ACGT') for _ in range(n))


def mutate_umi(rng, umi, n):
    umi = list(umi)
    for pos in rng.sample(range(len(umi)), min(n, len(umi))):
        umi[pos] = rng.choice([b for b in 'ACGT' if b != umi[pos]])
    return ''.join(umi)


def make_read(name, contig, start, seq, cigar, is_reverse, is_read1, sample, umi,
              mate=None, mapq=60, extra_tags=(), unmapped=False, qcfail=False,
              duplicate=False):
    read = pysam.AlignedSegment(HEADER)
    read.query_name = name
    read.query_sequence = seq
    read.query_qualities = pysam.qualitystring_to_array('F' * len(seq))
    read.is_paired = True
    read.is_read1 = is_read1
    read.is_read2 = not is_read1
    if unmapped:
        read.is_unmapped = True
        read.mapping_quality = 0
    else:
        read.reference_name = contig
        read.reference_start = start
        read.cigarstring = cigar
        read.is_reverse = is_reverse
        read.mapping_quality = mapq
        read.is_proper_pair = True
    read.is_qcfail = qcfail
    read.is_duplicate = duplicate
    if sample is not None:
        read.set_tag('SM', sample)
    if umi is not None:
        read.set_tag('RX', umi)
    for tag, value in extra_tags:
        read.set_tag(tag, value)
    return read


def simulate_library(rng, method, radius, lib_index):
    """returns list of [R1, R2] pairs (R2 can be None), in approximate coordinate order"""
    n_cells = rng.randint(1, 8)
    n_sites = rng.randint(1, 40)
    umi_len = rng.choice([3, 4, 6, 8])
    read_len = rng.choice([20, 30, 45])
    history = rng.random() < 0.35  # input carries duplicate flags / RC tags of an earlier run
    pairs = []
    serial = 0
    # clustered sites: some sites are very close to each other (radius cases)
    sites = []
    for s in range(n_sites):
        if sites and rng.random() < 0.3:
            contig, pos, _ = rng.choice(sites)
            pos = max(200, pos + rng.randint(-6, 6))
        else:
            contig = rng.choice(['chr1', 'chr1', 'chr2', 'chr3'])
            pos = rng.randint(500, 40000)
        sites.append((contig, pos, rng.random() < 0.5))
    for contig, pos, reverse in sites:
        for cell in rng.sample(range(n_cells), rng.randint(1, n_cells)):
            sample = f'LIB{lib_index % 3}_CELL_{cell}'
            umis = []
            for u in range(rng.randint(1, 6)):
                r = rng.random()
                if umis and r < 0.25:
                    umi = mutate_umi(rng, rng.choice(umis), 1)
                elif umis and r < 0.4:
                    umi = mutate_umi(rng, rng.choice(umis), 2)
                elif r < 0.5:
                    umi = list(random_seq(rng, umi_len))
                    umi[rng.randrange(umi_len)] = 'N'
                    umi = ''.join(umi)
                elif r < 0.55:
                    umi = random_seq(rng, umi_len + 1)  # different length
                else:
                    umi = random_seq(rng, umi_len)
                umis.append(umi)
            for umi in umis:
                for copy in range(rng.randint(1, 5)):
                    serial += 1
                    name = f'r{lib_index}_{serial}'
                    jitter = 0
                    if radius > 0 and rng.random() < 0.4:
                        jitter = rng.randint(-radius - 1, radius + 1)
                    softclip = rng.choice([0, 0, 0, 1, 2, 3])
                    frag_size = rng.randint(read_len + 5, 300)
                    obs_umi = umi
                    if rng.random() < 0.08:
                        obs_umi = mutate_umi(rng, umi, 1)  # sequencing error in the umi
                    tags = []
                    if history:
                        tags.append(('RC', rng.randint(0, 4)))
                        tags.append(('af', rng.randint(1, 5)))
                        tags.append(('TF', rng.randint(1, 5)))
                    if method == 'chic' and rng.random() < 0.8:
                        tags.append(('MX', rng.choice(['scCHIC384C8U3', 'scCHIC384C8U3l', 'other'])))
                        tags.append(('lh', rng.choice(['TA', 'AA', 'TT'])))
                    dup = history and rng.random() < 0.6
                    body = random_seq(rng, read_len)
                    if not reverse:
                        seq = ('CATG' + body)[:read_len] if method == 'nla' and rng.random() < 0.93 else body
                        r1_start = pos + jitter
                        if softclip:
                            cigar = f'{softclip}S{read_len - softclip}M'
                            r1_start += softclip if rng.random() < 0.5 else 0
                        else:
                            cigar = f'{read_len}M'
                        r2_start = r1_start + frag_size - read_len
                        r1 = make_read(name, contig, r1_start, seq, cigar, False, True, sample, obs_umi,
                                       extra_tags=tags, duplicate=dup)
                        r2_rev = True
                    else:
                        seq = (body + 'CATG')[-read_len:] if method == 'nla' and rng.random() < 0.93 else body
                        r1_end = pos + jitter
                        if softclip:
                            cigar = f'{read_len - softclip}M{softclip}S'
                            aligned = read_len - softclip
                        else:
                            cigar = f'{read_len}M'
                            aligned = read_len
                        r1_start = max(1, r1_end - aligned)
                        r2_start = max(0, r1_start + aligned - frag_size)
                        r1 = make_read(name, contig, r1_start, seq, cigar, True, True, sample, obs_umi,
                                       extra_tags=tags, duplicate=dup)
                        r2_rev = False
                    kind = rng.random()
                    if kind < 0.12:
                        r2 = None  # single end
                    elif kind < 0.16:
                        r2 = make_read(name, None, None, random_seq(rng, read_len), None, False, False,
                                       sample, obs_umi, unmapped=True, duplicate=dup)
                    else:
                        r2 = make_read(name, contig, r2_start, random_seq(rng, read_len), f'{read_len}M',
                                       r2_rev, False, sample, obs_umi, extra_tags=tags, duplicate=dup,
                                       mapq=rng.choice([60, 60, 30, 0]))
                    if rng.random() < 0.03:
                        r1.is_qcfail = True
                    if rng.random() < 0.02:
                        r1 = make_read(name, None, None, seq, None, False, True, sample, obs_umi, unmapped=True)
                    pairs.append([r1, r2])

    def sort_key(pair):
        r1 = pair[0]
        if r1.is_unmapped:
            return (99, 0, r1.query_name)
        return (r1.reference_id, r1.reference_start, r1.query_name)
    pairs.sort(key=sort_key)
    if rng.random() < 0.25:
        # locally shuffled (not perfectly sorted) input
        for i in range(0, len(pairs) - 3, 3):
            if rng.random() < 0.3:
                pairs[i], pairs[i + 2] = pairs[i + 2], pairs[i]
    return pairs


# ---------------------------------------------------------------- observation
def describe_read(read):
    if read is None:
        return None
    tags = sorted((t, repr(v)) for t, v in read.get_tags())
    return (read.query_name, read.flag, read.reference_id, read.reference_start, read.cigarstring,
            read.is_duplicate, tuple(tags))


def describe_molecule(m):
    return (type(m).__name__, len(m), m.overflow_fragments, m.umi, getattr(m, 'sample', None),
            tuple(m.span) if getattr(m, 'span', None) is not None else None,
            m.strand, repr(getattr(m, 'site_location', None)), repr(m.match_hash),
            tuple(sorted(m.umi_counter.items())), m.umi_hamming_distance, m.finalised,
            tuple(tuple(describe_read(r) for r in frag) for frag in m))


CLASSES = {
    'plain': (Fragment, Molecule),
    'nla': (NlaIIIFragment, NlaIIIMolecule),
    'chic': (CHICFragment, CHICMolecule),
}


def run_iterator(label, source, method, hamming, radius, pooling, eject_every, cap,
                 yield_overflow=True, yield_invalid=False, every_fragment=False, perform_qflag=False,
                 cache_size=None):
    fragment_class, molecule_class = CLASSES[method]
    fragment_args = {'umi_hamming_distance': hamming, 'assignment_radius': radius}
    molecule_args = {}
    if cap is not None:
        molecule_args['max_associated_fragments'] = cap
    if cache_size is not None:
        molecule_args['cache_size'] = cache_size
    it = MoleculeIterator(source,
                          molecule_class=molecule_class,
                          fragment_class=fragment_class,
                          fragment_class_args=fragment_args,
                          molecule_class_args=molecule_args,
                          pooling_method=pooling,
                          check_eject_every=eject_every,
                          yield_overflow=yield_overflow,
                          yield_invalid=yield_invalid,
                          every_fragment_as_molecule=every_fragment,
                          perform_qflag=perform_qflag)
    out_reads = []
    n = 0
    try:
        for m in it:
            n += 1
            emit(label, 'counters', it.waiting_fragments, it.yielded_fragments, it.deleted_fragments,
                 it.get_molecule_cache_size(), it.check_ejection_iter)
            try:
                m.write_tags()
            except Exception as e:  # noqa
                emit(label, 'write_tags raised', type(e).__name__, str(e))
            emit(label, 'molecule', describe_molecule(m))
            for frag in m:
                out_reads.append([frag[0], frag[1] if len(frag.reads) > 1 else None])
    except Exception as e:  # noqa
        emit(label, 'iteration raised', type(e).__name__, str(e))
    emit(label, 'end', n, it.waiting_fragments, it.yielded_fragments, it.deleted_fragments,
         it.get_molecule_cache_size())
    return out_reads


def check_partition(label, out_reads, hamming):
    """Independent summary of the duplicate structure in the tagged output"""
    primary = sum(1 for r1, r2 in out_reads if r1 is not None and not r1.is_duplicate)
    emit(label, 'primary fragments', primary, len(out_reads))


# ---------------------------------------------------------------- sections
def section_libraries(tmpdir):
    rng = random.Random(60606)
    lib_index = 0
    for method in ('plain', 'nla', 'chic'):
        for hamming in (0, 1, 2):
            for radius in (0, 3, 10):
                if method == 'nla' and radius != 0 and hamming == 2:
                    continue
                for rep in range(4):
                    lib_index += 1
                    pairs = simulate_library(rng, method, radius, lib_index)
                    pooling = rng.choice([0, 1, 1])
                    eject_every = rng.choice([None, 0, 1, 5, 25, 10000])
                    cap = rng.choice([None, None, 1, 2, 3, 10])
                    cache_size = rng.choice([None, 0, 20, 400])
                    label = (lib_index, method, hamming, radius, pooling, eject_every, cap, cache_size)
                    out = run_iterator(label + ('first',), pairs, method, hamming, radius, pooling,
                                       eject_every, cap,
                                       yield_overflow=rng.random() < 0.7,
                                       yield_invalid=rng.random() < 0.3,
                                       cache_size=cache_size,
                                       perform_qflag=rng.random() < 0.3)
                    check_partition(label, out, hamming)
                    # history: tag the tagged reads again (idempotence), same settings, no cap
                    out2 = run_iterator(label + ('again',), out, method, hamming, radius, pooling,
                                        eject_every, None, cache_size=cache_size)
                    check_partition(label + ('again',), out2, hamming)
                    if rep == 0:
                        # third step with other settings and the other pooling method
                        out3 = run_iterator(label + ('third',), out2, method, (hamming + 1) % 3, radius,
                                            1 - pooling, None, cap, yield_overflow=True)
                        check_partition(label + ('third',), out3, hamming)
                    if rep == 1:
                        run_iterator(label + ('every',), out2, method, hamming, radius, pooling,
                                     eject_every, cap, every_fragment=True)
    # empty input and a single read
    for method in CLASSES:
        for pooling in (0, 1):
            run_iterator(('empty', method, pooling), [], method, 1, 0, pooling, 1, None)
            r1 = make_read('solo', 'chr1', 1000, 'CATGAAAATTTTCCCCGGGG', '20M', False, True, 'A_1', 'ACG')
            run_iterator(('solo', method, pooling), [r1], method, 1, 0, pooling, 0, 1)
            run_iterator(('solo-list', method, pooling), [[r1]], method, 0, 5, pooling, None, None)


def section_bam_roundtrip(tmpdir):
    rng = random.Random(424242)
    for i in range(24):
        method = ('plain', 'nla', 'chic')[i % 3]
        hamming = rng.choice([0, 1, 2])
        radius = rng.choice([0, 0, 4])
        pairs = simulate_library(rng, method, radius, 1000 + i)
        unsorted_path = os.path.join(tmpdir, f'lib{i}.unsorted.bam')
        sorted_path = os.path.join(tmpdir, f'lib{i}.bam')
        with pysam.AlignmentFile(unsorted_path, 'wb', header=HEADER) as out:
            for r1, r2 in pairs:
                if r2 is not None and not r1.is_unmapped:
                    if not r2.is_unmapped:
                        r1.next_reference_id = r2.reference_id
                        r1.next_reference_start = r2.reference_start
                        r1.mate_is_reverse = r2.is_reverse
                        r2.next_reference_id = r1.reference_id
                        r2.next_reference_start = r1.reference_start
                        r2.mate_is_reverse = r1.is_reverse
                    else:
                        continue
                elif r1.is_unmapped:
                    continue
                else:
                    r1.is_paired = False
                    r1.is_proper_pair = False
                out.write(r1)
                if r2 is not None:
                    out.write(r2)
        pysam.sort('-o', sorted_path, unsorted_path)
        pysam.index(sorted_path)
        label = ('bam', i, method, hamming, radius)
        eject_every = rng.choice([None, 3, 50, 10000])
        pooling = rng.choice([0, 1])
        with pysam.AlignmentFile(sorted_path) as f:
            out = run_iterator(label, f, method, hamming, radius, pooling, eject_every,
                               rng.choice([None, 2, 4]), perform_qflag=True)
        # write the tagged reads, and tag the tagged file again
        tagged_unsorted = os.path.join(tmpdir, f'lib{i}.tagged.unsorted.bam')
        tagged = os.path.join(tmpdir, f'lib{i}.tagged.bam')
        with pysam.AlignmentFile(tagged_unsorted, 'wb', header=HEADER) as o:
            for r1, r2 in out:
                for r in (r1, r2):
                    if r is not None:
                        o.write(r)
        pysam.sort('-o', tagged, tagged_unsorted)
        pysam.index(tagged)
        with pysam.AlignmentFile(tagged) as f:
            out2 = run_iterator(label + ('retag',), f, method, hamming, radius, pooling, eject_every, None)
        check_partition(label, out2, hamming)


def section_direct(tmpdir):
    """Direct comparisons of fragments / molecules, including failing ones"""
    rng = random.Random(777)

    def attempt(label, func):
        try:
            emit(label, 'ok', repr(func()))
        except Exception as e:  # noqa
            emit(label, 'raised', type(e).__name__, str(e))

    umis = ['AAA', 'AAT', 'ATT', 'TTT', 'ANA', 'NNN', 'AAAA', 'AAAT', '', None, 'CCC', 'AAN']
    samples = ['S1', 'S1', 'S1', 'S1', 'S1', 'S2', 'S2', None]
    for i in range(450):
        hamming = rng.choice([0, 1, 2, 3])
        radius = rng.choice([0, 0, 1, 5, 50])
        frags = []
        for k in range(2):
            contig = rng.choice(['chr1', 'chr1', 'chr1', 'chr2'])
            start = rng.choice([100, 100, 101, 105, 106, 150, 151])
            length = rng.choice([20, 20, 21, 25])
            reverse = rng.random() < 0.25
            r1 = make_read(f'd{i}_{k}', contig, start, 'CATG' + 'A' * (length - 4), f'{length}M', reverse, True,
                           rng.choice(samples), rng.choice(umis), unmapped=rng.random() < 0.05)
            r2 = None
            if rng.random() < 0.5 and not r1.is_unmapped:
                r2 = make_read(f'd{i}_{k}', contig, start + rng.choice([30, 31, 40, 900]), 'C' * 20, '20M',
                               not reverse, False, r1.get_tag('SM') if r1.has_tag('SM') else None,
                               r1.get_tag('RX') if r1.has_tag('RX') else None)
            method = rng.choice(['plain', 'plain', 'nla', 'chic'])
            kwargs = dict(umi_hamming_distance=hamming, assignment_radius=radius)
            if rng.random() < 0.2:
                kwargs['max_fragment_size'] = rng.choice([10, 45, 1000])
            try:
                frags.append(CLASSES[method][0]([r1, r2], **kwargs))
            except Exception as e:  # noqa
                emit(('direct', i, k), 'construction raised', type(e).__name__, str(e))
        if len(frags) < 2:
            continue
        a, b = frags
        label = ('direct', i)
        attempt(label + ('a==b',), lambda: a == b)
        attempt(label + ('b==a',), lambda: b == a)
        attempt(label + ('a==a',), lambda: a == a)
        attempt(label + ('umi_eq',), lambda: a.umi_eq(b))
        attempt(label + ('umi_eq r',), lambda: b.umi_eq(a))
        attempt(label + ('plain eq',), lambda: Fragment.__eq__(a, b))
        attempt(label + ('plain eq r',), lambda: Fragment.__eq__(b, a))
        for use_hash in (True, False):
            for cap in (None, 1, 2):
                def grow():
                    mol_class = CLASSES['plain'][1] if type(a) is Fragment else (
                        NlaIIIMolecule if isinstance(a, NlaIIIFragment) else CHICMolecule)
                    if not isinstance(b, type(a)):
                        mol_class = Molecule
                    m = mol_class(a, max_associated_fragments=cap)
                    results = []
                    for f in (b, a, b):
                        try:
                            results.append(m.add_fragment(f, use_hash=use_hash))
                        except OverflowError:
                            results.append('overflow')
                    m.write_tags()
                    return results, describe_molecule(m)
                attempt(label + ('grow', use_hash, cap), grow)


def section_command_line(tmpdir):
    import singlecellmultiomics.universalBamTagger.bamtagmultiome as tm
    runs = [
        ('data/mini_nla_test.bam', '-method nla'),
        ('data/mini_nla_test.bam', '-method nla --allow_cycle_shift -umi_hamming_distance 0'),
        ('data/mini_nla_test.bam', '-method nla -max_associated_fragments 1'),
        ('data/chic_test_region.bam', '-method chic'),
        ('data/chic_test_region.bam', '-method chic -umi_hamming_distance 2 -max_associated_fragments 2'),
    ]
    cwd = os.getcwd()
    os.chdir(HERE)
    try:
        for i, (bam, options) in enumerate(runs):
            first = os.path.join(tmpdir, f'cmd{i}.bam')
            second = os.path.join(tmpdir, f'cmd{i}.again.bam')
            for source, target in ((bam, first), (first, second)):
                sink = io.StringIO()
                with contextlib.redirect_stdout(sink), contextlib.redirect_stderr(sink):
                    tm.run_multiome_tagging_cmd(f'{source} {options} -o {target}'.split(' '))
                with pysam.AlignmentFile(target) as f:
                    for read in f:
                        emit(('cmd', i, os.path.basename(target)), describe_read(read))
    finally:
        os.chdir(cwd)


def main():
    tmpdir = tempfile.mkdtemp(prefix='demo_same_C06_')
    try:
        for section in (section_direct, section_libraries, section_bam_roundtrip, section_command_line):
            before = N_RECORDS
            section(tmpdir)
            print(f'{section.__name__}: {N_RECORDS - before} records, running digest {DIGEST.hexdigest()[:16]}')
    finally:
        shutil.rmtree(tmpdir, ignore_errors=True)
    print(f'{N_RECORDS} records')
    print(DIGEST.hexdigest())


if __name__ == '__main__':
    main()
