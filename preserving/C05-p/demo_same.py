#!/usr/bin/env python3
"""Differential script for property C05 (tagging conserves alignment records).

Builds a few hundred varied BAM files / read streams in a temporary directory, pushes them
through the tagger (single process and --multiprocess), the molecule iterator,
run_tagging_task and sorted_bam_file / sort_and_index and prints a sha256 digest of everything
observable as the last line. Only the public API is used, so that the script runs
unchanged with and without the refactoring.
"""
import contextlib
import hashlib
import io
import os
import random
import re
import shutil
import sys
import tempfile

import pysam

import singlecellmultiomics.universalBamTagger.bamtagmultiome as tm
import singlecellmultiomics.universalBamTagger.tagging as tagging
import singlecellmultiomics.bamProcessing.bamFunctions as bf
from singlecellmultiomics.molecule import MoleculeIterator, Molecule, NlaIIIMolecule, CHICMolecule
from singlecellmultiomics.fragment import Fragment, NlaIIIFragment, CHICFragment

tm.sleep = lambda seconds: None  # do not wait 5 seconds before removing the temp folder

N_TAG_BAMS = int(os.environ.get('DEMO_N_BAMS', 96))
N_ITER_STREAMS = int(os.environ.get('DEMO_N_STREAMS', 240))
N_TASK_BAMS = int(os.environ.get('DEMO_N_TASK_BAMS', 24))
N_SORT_CASES = int(os.environ.get('DEMO_N_SORT', 40))

UUID_RE = re.compile(r'[0-9a-f]{8}-[0-9a-f]{4}-[0-9a-f]{4}-[0-9a-f]{4}-[0-9a-f]{12}')

DIGEST = hashlib.sha256()
DUMP = open(os.environ['DEMO_DUMP'], 'w') if os.environ.get('DEMO_DUMP') else None  # debugging aid
N_ITEMS = 0


def emit(*items):
    global N_ITEMS
    N_ITEMS += 1
    line = '\x1f'.join(str(i) for i in items) + '\n'
    DIGEST.update(line.encode())
    if DUMP is not None:
        DUMP.write(line.replace('\x1f', ' | '))


def normalise(text, *paths):
    text = str(text)
    for i, p in enumerate(paths):
        text = text.replace(os.path.abspath(p), f'<P{i}>').replace(p, f'<P{i}>')
    return UUID_RE.sub('<UUID>', text)


# --------------------------------------------------------------------------------------
# Synthetic data
# --------------------------------------------------------------------------------------
SAMPLES = ['LIB-A_1', 'LIB-A_2', 'LIB-B_17', 'plainsample', 'LIB_C_0']
UMIS = ['AAA', 'ACG', 'TTT', 'GCA']
FLOWCELLS = [None, 'HVKCC', 'HN7FY']
LANES = [None, '1', '4']
CONTIG_LENGTHS = [500, 4_000, 50_000, 99_999, 100_000, 100_001, 250_000, 1_200_000]


def random_seq(rng, n):
    return ''.join(rng.choice('ACGT') for _ in range(n))


def make_header(rng, n_contigs=None):
    if n_contigs is None:
        n_contigs = rng.randint(1, 12)
    names = [f'c{i}' for i in range(n_contigs)]
    rng.shuffle(names)
    mode = rng.random()
    lengths = []
    for _ in names:
        if mode < 0.15:
            lengths.append(rng.choice([500, 4_000, 99_999]))  # only small contigs
        elif mode < 0.3:
            lengths.append(rng.choice([100_000, 100_001, 1_200_000]))  # only large contigs
        else:
            lengths.append(rng.choice(CONTIG_LENGTHS))
    return pysam.AlignmentHeader.from_dict({
        'HD': {'VN': '1.6', 'SO': 'coordinate'},
        'SQ': [{'SN': n, 'LN': l} for n, l in zip(names, lengths)],
        'PG': [{'ID': 'bwa', 'PN': 'bwa', 'CL': 'bwa mem nothing'}],
    })


class ReadFactory:
    def __init__(self, rng, header):
        self.rng = rng
        self.header = header
        self.serial = 0

    def segment(self, name, flag, tid, pos, seq, tags, mate_tid=-1, mate_pos=-1, tlen=0, mapq=None, cigar=None):
        r = pysam.AlignedSegment(self.header)
        r.query_name = name
        r.query_sequence = seq
        r.query_qualities = pysam.qualitystring_to_array(
            ''.join(self.rng.choice('AEF6/') for _ in seq))
        r.flag = flag
        r.reference_id = tid
        r.reference_start = pos
        r.next_reference_id = mate_tid
        r.next_reference_start = mate_pos
        r.template_length = tlen
        if not (flag & 4):
            r.mapping_quality = self.rng.choice([0, 3, 20, 60, 60]) if mapq is None else mapq
            r.cigarstring = cigar if cigar is not None else f'{len(seq)}M'
        for k, v in tags.items():
            r.set_tag(k, v)
        return r

    def tags(self, sample=None, umi=None):
        rng = self.rng
        sample = sample or rng.choice(SAMPLES)
        umi = umi or rng.choice(UMIS)
        t = {'SM': sample, 'RX': umi, 'BC': 'ACGTACGT', 'MI': 'ACGTACGT' + umi}
        fc, la = rng.choice(FLOWCELLS), rng.choice(LANES)
        if fc is not None:
            t['Fc'] = fc
        if la is not None:
            t['La'] = la
        if rng.random() < 0.6:
            t['LY'] = sample.rsplit('_', 1)[0]
        if rng.random() < 0.2:
            t['MX'] = rng.choice(['NLAIII384C8U3', 'scCHIC384C8U3', 'scCHIC384C8U3l'])
        return t

    def name(self):
        self.serial += 1
        return f'NS5:{self.rng.randint(1, 9)}:FC:{self.rng.randint(1, 4)}:{self.serial}:{self.rng.randint(1, 9999)}'

    def fragment(self, kind, tid, pos, tags=None, name=None):
        """returns a list of segments"""
        rng = self.rng
        tags = tags if tags is not None else self.tags()
        name = name or self.name()
        length = self.header.lengths[tid] if tid >= 0 else 0
        l1, l2 = rng.randint(20, 40), rng.randint(20, 40)
        gap = rng.randint(0, 120)
        catg = rng.random() < 0.75
        seq1 = ('CATG' if catg else '') + random_seq(rng, l1)
        seq2 = random_seq(rng, l2)
        pos = max(0, min(pos, max(0, length - len(seq1) - len(seq2) - gap - 1)))
        pos2 = pos + gap
        tlen = pos2 + len(seq2) - pos
        if kind == 'pair_fwd':
            return [self.segment(name, 1 | 2 | 32 | 64, tid, pos, seq1, tags, tid, pos2, tlen),
                    self.segment(name, 1 | 2 | 16 | 128, tid, pos2, seq2, tags, tid, pos, -tlen)]
        if kind == 'pair_rev':
            # R1 on the reverse strand (its CATG is at the end), R2 forward in front of it
            seq1r = random_seq(rng, l1) + ('CATG' if catg else '')
            return [self.segment(name, 1 | 2 | 32 | 128, tid, pos, seq2, tags, tid, pos2, tlen),
                    self.segment(name, 1 | 2 | 16 | 64, tid, pos2, seq1r, tags, tid, pos, -tlen)]
        if kind == 'pair_same_orientation':
            return [self.segment(name, 1 | 64, tid, pos, seq1, tags, tid, pos2, tlen),
                    self.segment(name, 1 | 128, tid, pos2, seq2, tags, tid, pos, -tlen)]
        if kind == 'pair_not_proper':
            return [self.segment(name, 1 | 32 | 64, tid, pos, seq1, tags, tid, pos2, tlen),
                    self.segment(name, 1 | 16 | 128, tid, pos2, seq2, tags, tid, pos, -tlen)]
        if kind == 'single':
            return [self.segment(name, rng.choice([0, 16]), tid, pos, seq1, tags)]
        if kind == 'orphan_r1':
            return [self.segment(name, 1 | 2 | 32 | 64, tid, pos, seq1, tags, tid, pos2, tlen)]
        if kind == 'orphan_r2':
            return [self.segment(name, 1 | 2 | 16 | 128, tid, pos2, seq2, tags, tid, pos, -tlen)]
        if kind == 'half_mapped_r2_unmapped':
            return [self.segment(name, 1 | 8 | 64, tid, pos, seq1, tags, tid, pos),
                    self.segment(name, 1 | 4 | 128, tid, pos, seq2, tags, tid, pos)]
        if kind == 'half_mapped_r1_unmapped':
            return [self.segment(name, 1 | 4 | 64, tid, pos, seq1, tags, tid, pos),
                    self.segment(name, 1 | 8 | 128, tid, pos, seq2, tags, tid, pos)]
        if kind == 'unmapped_pair':
            return [self.segment(name, 1 | 4 | 8 | 64, -1, -1, seq1, tags),
                    self.segment(name, 1 | 4 | 8 | 128, -1, -1, seq2, tags)]
        if kind == 'unmapped_single':
            return [self.segment(name, 4, -1, -1, seq1, tags)]
        if kind == 'with_secondary':
            primary = self.fragment('pair_fwd', tid, pos, tags, name)
            extra_flag = rng.choice([256, 2048])
            extra = self.segment(name, 1 | 64 | extra_flag, tid, min(pos + 7, max(0, length - 30)),
                                 random_seq(rng, 20), tags, tid, pos2)
            return primary + [extra]
        if kind == 'softclipped':
            seq = 'CATG' + random_seq(rng, 30)
            return [self.segment(name, 0, tid, pos, seq, tags, cigar=f'5S{len(seq) - 8}M3S')]
        raise ValueError(kind)


MAPPED_KINDS = ['pair_fwd', 'pair_fwd', 'pair_fwd', 'pair_rev', 'pair_rev', 'pair_same_orientation',
                'pair_not_proper', 'single', 'orphan_r1', 'orphan_r2', 'half_mapped_r2_unmapped',
                'half_mapped_r1_unmapped', 'with_secondary', 'softclipped']


def make_segments(rng, header, n_fragments, unmapped_fraction, empty_contigs=()):
    factory = ReadFactory(rng, header)
    usable = [tid for tid in range(len(header.references)) if tid not in empty_contigs]
    segments = []
    hot_spots = {}
    for _ in range(n_fragments):
        if rng.random() < unmapped_fraction or not usable:
            segments += factory.fragment(rng.choice(['unmapped_pair', 'unmapped_pair', 'unmapped_single']), -1, -1)
            continue
        tid = rng.choice(usable)
        length = header.lengths[tid]
        # Re-use a few positions, this yields duplicates (molecules with several fragments) and coordinate ties
        spots = hot_spots.setdefault(tid, [rng.choice([0, rng.randint(0, max(0, length - 1)), max(0, length - 60)])
                                           for _ in range(3)])
        pos = rng.choice(spots) if rng.random() < 0.6 else rng.randint(0, max(0, length - 1))
        kind = rng.choice(MAPPED_KINDS)
        tags = factory.tags()
        frag = factory.fragment(kind, tid, pos, tags)
        segments += frag
        if rng.random() < 0.3 and kind in ('pair_fwd', 'pair_rev', 'single'):
            # exact duplicate (other name): same sample, umi, coordinates
            for _ in range(rng.randint(1, 3)):
                name = factory.name()
                for r in frag:
                    d = pysam.AlignedSegment.fromstring(r.to_string(), header)
                    d.query_name = name
                    segments.append(d)
    return segments


def write_sorted_bam(path, header, segments):
    unsorted = path + '.tmp_unsorted.bam'
    with pysam.AlignmentFile(unsorted, 'wb', header=header) as out:
        for r in segments:
            out.write(r)
    pysam.sort('-o', path, unsorted)
    pysam.index(path)
    os.remove(unsorted)


def describe_bam(path, full_rg=True):
    """Everything observable of a bam file but the (time stamped) @PG lines and the order of the @RG lines

    full_rg=False: only the identifiers of the read groups. When several worker processes run at the same time,
    the LB/PL attributes of a read group which occurs in more than one job are taken from the job which finished first.
    """
    if not os.path.exists(path):
        return ['missing']
    out = []
    with pysam.AlignmentFile(path) as f:
        h = f.header.to_dict()
        out.append(('HD', sorted(h.get('HD', {}).items())))
        out.append(('SQ', [(d['SN'], d['LN']) for d in h.get('SQ', [])]))
        out.append(('RGID', sorted(d['ID'] for d in h.get('RG', []))))
        if full_rg:
            out.append(('RG', sorted(sorted(d.items()) for d in h.get('RG', []))))
        out.append(('PG', sorted((d.get('ID'), d.get('PN')) for d in h.get('PG', []))))
        out.append(('CO', h.get('CO', [])))
        try:
            out.append(('index', f.check_index()))
        except Exception as e:
            out.append(('index', type(e).__name__))
        declared = set(d['ID'] for d in h.get('RG', []))
        records = [r.to_string() for r in f.fetch(until_eof=True)]
        f.reset()
        undeclared = sum(1 for r in f.fetch(until_eof=True) if not r.has_tag('RG') or r.get_tag('RG') not in declared)
        out.append(('undeclared_rg', undeclared))
        out.append(('n', len(records)))
        out += records
    return out


# --------------------------------------------------------------------------------------
# 1) The tagger, single process and multi process
# --------------------------------------------------------------------------------------
def run_tagger(tag, cmd, in_path, out_path, root, full_rg=True):
    recorded_jobs = []
    original_generate_tasks = tm.generate_tasks

    def recording_generate_tasks(*args, **kwargs):
        job_gen = kwargs['job_gen']
        job_gen = [list(job) for job in job_gen]
        recorded_jobs.append(repr(job_gen))
        kwargs['job_gen'] = job_gen
        return original_generate_tasks(*args, **kwargs)

    tm.generate_tasks = recording_generate_tasks
    buffer = io.StringIO()
    error = None
    try:
        with contextlib.redirect_stdout(buffer), contextlib.redirect_stderr(buffer):
            tm.run_multiome_tagging_cmd(cmd)
    except BaseException as e:  # also SystemExit
        error = f'{type(e).__name__}:{normalise(e, root)}'
    finally:
        tm.generate_tasks = original_generate_tasks

    status_path = out_path.replace('.bam', '.status.txt')
    status = open(status_path).read() if os.path.exists(status_path) else 'no status'
    emit(tag, 'error', error)
    emit(tag, 'status', status)
    emit(tag, 'jobs', recorded_jobs)
    emit(tag, 'leftovers', sorted(normalise(x, root) for x in os.listdir(os.path.dirname(out_path))
                                  if 'unsorted' in x or 'SCMO' in x or 'rehead' in x or 'header.sam' in x))
    for line in describe_bam(out_path, full_rg=full_rg):
        emit(tag, line)
    # what is conserved
    with pysam.AlignmentFile(in_path) as f:
        primary_in = sorted((r.query_name, r.is_read2, r.query_sequence, r.reference_id, r.reference_start, r.cigarstring)
                            for r in f.fetch(until_eof=True) if not r.is_secondary and not r.is_supplementary)
    if os.path.exists(out_path):
        with pysam.AlignmentFile(out_path) as f:
            all_out = sorted((r.query_name, r.is_read2, r.query_sequence, r.reference_id, r.reference_start, r.cigarstring)
                             for r in f.fetch(until_eof=True))
        emit(tag, 'conserved', primary_in == all_out, len(primary_in), len(all_out))


def tagger_section(root):
    rng = random.Random(5005)
    temp_folder = os.path.join(root, 'tagtemp')
    os.makedirs(temp_folder)
    for case in range(N_TAG_BAMS):
        case_dir = os.path.join(root, f'tag{case}')
        os.makedirs(case_dir)
        if case == 0:
            header = make_header(rng, 1)
        elif case == 1:
            header = make_header(rng, 12)
        else:
            header = make_header(rng)
        n_contigs = len(header.references)
        empty = set(tid for tid in range(n_contigs) if rng.random() < 0.25)
        shape = case % 8
        if shape == 0:
            n_fragments, unmapped_fraction = rng.randint(1, 6), 0.0   # tiny, no unmapped reads
        elif shape == 1:
            n_fragments, unmapped_fraction = rng.randint(3, 20), 1.0  # only unmapped reads
        elif shape == 2:
            n_fragments, unmapped_fraction = 0, 0.0                   # no reads at all
        elif shape == 3:
            empty = set()
            n_fragments, unmapped_fraction = rng.randint(40, 90), 0.1
        else:
            n_fragments, unmapped_fraction = rng.randint(10, 70), rng.choice([0, 0.05, 0.3])
        segments = make_segments(rng, header, n_fragments, unmapped_fraction, empty)
        in_path = os.path.join(case_dir, 'in.bam')
        write_sorted_bam(in_path, header, segments)
        emit('input', case, [(n, l) for n, l in zip(header.references, header.lengths)], len(segments))

        configurations = []
        for method in ('nla', 'chic', 'qflag'):
            configurations.append((method, False, None, False))
            configurations.append((method, True, rng.randint(1, 4), False))
        # no rejects
        method = rng.choice(['nla', 'chic'])
        configurations.append((method, False, None, True))
        configurations.append((method, True, rng.randint(1, 4), True))
        for method, multi, threads, no_rejects in configurations:
            out_path = os.path.join(case_dir, f'out_{method}_{int(multi)}_{int(no_rejects)}.bam')
            cmd = [in_path, '-method', method, '-o', out_path, '-temp_folder', temp_folder]
            if multi:
                cmd += ['--multiprocess', '-tagthreads', str(threads)]
            if no_rejects:
                cmd.append('--no_rejects')
            if method == 'nla' and rng.random() < 0.3:
                cmd.append('--allow_cycle_shift')
            if rng.random() < 0.15:
                cmd += ['-max_associated_fragments', '2']  # overflow molecules
            if rng.random() < 0.1 and n_contigs > 1:
                cmd += ['-skip_contig', ','.join(rng.sample(list(header.references), 2))]
            tag = f'tag{case}:{method}:{int(multi)}:{threads}:{int(no_rejects)}:{" ".join(cmd[5:]).replace(temp_folder, "T")}'
            full_rg = not multi or threads == 1
            run_tagger(tag, cmd, in_path, out_path, root, full_rg)
            if rng.random() < 0.1:
                # history: write to the same output path again
                run_tagger(tag + ':again', cmd, in_path, out_path, root, full_rg)
        emit('tagtemp', sorted(os.listdir(temp_folder)) == [])
        shutil.rmtree(case_dir)


# --------------------------------------------------------------------------------------
# 2) The molecule iterator on read streams: order and bookkeeping of every emitted molecule
# --------------------------------------------------------------------------------------
def iterator_section(root):
    rng = random.Random(1234)
    classes = [(Fragment, Molecule), (NlaIIIFragment, NlaIIIMolecule), (CHICFragment, CHICMolecule)]
    for case in range(N_ITER_STREAMS):
        header = make_header(rng, rng.randint(1, 4))
        n_fragments = rng.choice([0, 1, 5, 20, 40, 80])
        segments = make_segments(rng, header, n_fragments, rng.choice([0, 0.1]))
        fragment_class, molecule_class = classes[case % 3]
        check_eject_every = rng.choice([None, 0, 1, 2, 3, 7, 25])
        pooling_method = case % 2 if fragment_class is not Fragment else rng.choice([0, 1])
        yield_invalid = rng.random() < 0.6
        yield_overflow = rng.random() < 0.7
        molecule_class_args = {}
        if rng.random() < 0.4:
            molecule_class_args['max_associated_fragments'] = rng.choice([1, 2])
        kwargs = dict(molecule_class=molecule_class, fragment_class=fragment_class,
                      check_eject_every=check_eject_every, pooling_method=pooling_method,
                      yield_invalid=yield_invalid, yield_overflow=yield_overflow,
                      molecule_class_args=molecule_class_args,
                      every_fragment_as_molecule=rng.random() < 0.1,
                      min_mapping_qual=rng.choice([None, None, 10]))
        tag = f'iter{case}:{fragment_class.__name__}:{check_eject_every}:{pooling_method}:{int(yield_invalid)}:{int(yield_overflow)}:{sorted(molecule_class_args.items())}'

        source = case % 4
        if source in (0, 1):
            # From a sorted bam file
            path = os.path.join(root, f'iter{case}.bam')
            write_sorted_bam(path, header, segments)
            alignments = pysam.AlignmentFile(path)
            if source == 1 and len(header.references):
                kwargs['contig'] = rng.choice(list(header.references) + ['*'])
        else:
            # From an iterable of mate pairs / single reads (sorted or not)
            by_name = {}
            for r in segments:
                if r.is_secondary or r.is_supplementary:
                    continue
                by_name.setdefault(r.query_name, [None, None])[1 if r.is_read2 else 0] = r
            pairs = list(by_name.values())
            if source == 2:
                pairs.sort(key=lambda p: min((x.reference_id if x.reference_id >= 0 else 10 ** 6, x.reference_start)
                                             for x in p if x is not None))
            stream = []
            for p in pairs:
                if p[1] is None and rng.random() < 0.5:
                    stream.append(rng.choice([p[0], [p[0]], (p[0],)]))
                elif p[0] is None:
                    stream.append([None, p[1]])
                else:
                    stream.append(rng.choice([list(p), tuple(p)]))
            alignments = stream

        observed = []
        error = None
        try:
            iterator = MoleculeIterator(alignments, **kwargs)
            rounds = 2 if source >= 2 and rng.random() < 0.3 else 1  # re-iteration of the same iterator
            for round_i in range(rounds):
                for molecule in iterator:
                    observed.append((
                        round_i,
                        tuple(tuple(None if r is None else (r.query_name, r.is_read2) for r in fragment.reads)
                              for fragment in molecule),
                        iterator.waiting_fragments, iterator.yielded_fragments, iterator.deleted_fragments,
                        iterator.check_ejection_iter, iterator.get_molecule_cache_size(),
                        molecule.is_valid() if hasattr(molecule, 'is_valid') else None,
                    ))
                observed.append(('end', iterator.waiting_fragments, iterator.yielded_fragments,
                                 iterator.deleted_fragments, iterator.get_molecule_cache_size()))
        except Exception as e:
            error = f'{type(e).__name__}:{e}'
        emit(tag, 'error', error)
        emit(tag, 'n', len(observed))
        for o in observed:
            emit(tag, o)
        if source in (0, 1):
            alignments.close()
            os.remove(path)
            os.remove(path + '.bai')


# --------------------------------------------------------------------------------------
# 3) run_tagging_task / run_tagging_tasks: windows, read groups, argument checks
# --------------------------------------------------------------------------------------
class CollectingOutput:
    def __init__(self):
        self.records = []

    def write(self, read):
        self.records.append(read.to_string())


def task_section(root):
    rng = random.Random(777)
    classes = [(NlaIIIFragment, NlaIIIMolecule), (CHICFragment, CHICMolecule), (Fragment, Molecule)]
    for case in range(N_TASK_BAMS):
        header = make_header(rng, rng.randint(1, 5))
        segments = make_segments(rng, header, rng.choice([0, 3, 30, 80]), rng.choice([0, 0.2]))
        path = os.path.join(root, f'task{case}.bam')
        write_sorted_bam(path, header, segments)
        fragment_class, molecule_class = classes[case % 3]
        contig = rng.choice(header.references)
        length = header.get_reference_length(contig)
        a, b = sorted(rng.randint(0, length) for _ in range(2))
        windows = [
            dict(),  # nothing supplied at all: no fetching
            dict(contig=contig),
            dict(contig='*'),
            dict(contig=contig, start=a, end=b),
            dict(contig=contig, start=a, end=b, fetch_start=max(0, a - 50), fetch_end=min(length, b + 50)),
            dict(contig=contig, start=0, end=length, fetch_start=0, fetch_end=length),
            dict(contig=contig, start=a, end=a, fetch_start=a, fetch_end=a),
            dict(contig=contig, start=a),                              # incomplete
            dict(contig=contig, start=a, end=b, fetch_start=a),          # incomplete
            dict(start=a, end=b, fetch_start=a, fetch_end=b),            # no contig
        ]
        for wi, window in enumerate(windows):
            for read_groups in (None, dict(), {'pre.existing.rg': {'ID': 'pre.existing.rg'}}):
                output = CollectingOutput()
                error = None
                statistics = None
                tag = f'task{case}:{wi}:{fragment_class.__name__}:{None if read_groups is None else len(read_groups)}'
                iterator_args = dict(molecule_class=molecule_class, fragment_class=fragment_class,
                                     yield_invalid=(wi + case) % 3 != 0,
                                     check_eject_every=rng.choice([1, 5, 10_000]))
                try:
                    with pysam.AlignmentFile(path) as alignments:
                        statistics = tagging.run_tagging_task(
                            alignments, output, molecule_iterator_class=MoleculeIterator,
                            molecule_iterator_args=iterator_args, read_groups=read_groups, **window)
                except Exception as e:
                    error = f'{type(e).__name__}:{e}'
                emit(tag, 'error', error)
                emit(tag, 'stats', None if statistics is None else statistics['total_molecules_written'])
                emit(tag, 'rg', None if read_groups is None else sorted((k, sorted(v.items())) for k, v in read_groups.items()))
                emit(tag, 'n', len(output.records))
                for record in output.records:
                    emit(tag, record)

        # Several tasks in one job through run_tagging_tasks (what a worker process executes)
        temp_dir = os.path.join(root, f'taskjob{case}')
        os.makedirs(temp_dir)
        job = [(c, None, None, None, None) for c in rng.sample(list(header.references) + ['*'], rng.randint(1, len(header.references) + 1))]
        tasks = list(tagging.generate_tasks(
            input_bam_path=path, temp_folder=temp_dir, job_gen=[job],
            iteration_args={'molecule_iterator_args': dict(molecule_class=molecule_class, fragment_class=fragment_class,
                                                          yield_invalid=True),
                            'molecule_iterator_class': MoleculeIterator},
            additional_args={'consensus_mode': None}))
        buffer = io.StringIO()
        with contextlib.redirect_stdout(buffer):
            target, meta = tagging.run_tagging_tasks(tasks[0])
        emit(f'taskjob{case}', job, target is None, sorted(meta.items()), normalise(buffer.getvalue(), root),
             sorted(normalise(x, root) for x in os.listdir(temp_dir)))
        if target is not None:
            for line in describe_bam(target):
                emit(f'taskjob{case}', line)
        shutil.rmtree(temp_dir)
        os.remove(path)
        os.remove(path + '.bai')


# --------------------------------------------------------------------------------------
# 4) sorted_bam_file / sort_and_index / merge_bams, including failing sorts
# --------------------------------------------------------------------------------------
@contextlib.contextmanager
def failing_sort(n_failures, log, root):
    real_sort = pysam.sort
    state = {'calls': 0}

    def fake_sort(*args, **kwargs):
        state['calls'] += 1
        log.append(('sort', tuple(normalise(a, root) for a in args)))
        if state['calls'] <= n_failures:
            raise pysam.SamtoolsError(f'planted failure {state["calls"]}')
        return real_sort(*args, **kwargs)

    pysam.sort = fake_sort
    try:
        yield
    finally:
        pysam.sort = real_sort


def sort_section(root):
    rng = random.Random(4242)
    cwd = os.getcwd()
    for case in range(N_SORT_CASES):
        case_dir = os.path.join(root, f'sort{case}')
        os.makedirs(case_dir)
        os.chdir(case_dir)
        header = make_header(rng, rng.randint(1, 6))
        segments = [r for r in make_segments(rng, header, rng.choice([0, 1, 10, 40]), rng.choice([0, 0.3]))]
        rng.shuffle(segments)
        rg_names = ['FC.1.LIB_1', 'FC.2.LIB_2', 'FC.1.nolibrary']
        for r in segments:
            r.set_tag('RG', rng.choice(rg_names))
        rg_mode = case % 4
        if rg_mode == 0:
            read_groups = set(rg_names)
        elif rg_mode == 1:
            read_groups = {n: {'ID': n, 'LB': 'lib', 'PL': 'ILLUMINA', 'SM': n.split('.')[-1], 'PU': n} for n in rg_names}
        elif rg_mode == 2:
            read_groups = None
        else:
            read_groups = dict()  # filled while writing
        n_failures = rng.choice([0, 0, 1, 2, 3, 4])
        options = dict(local_temp_sort=rng.random() < 0.8, fast_compression=rng.random() < 0.5)
        input_is_sorted = rng.random() < 0.15
        if input_is_sorted:
            segments.sort(key=lambda x: (x.reference_id if x.reference_id >= 0 else 10 ** 6, x.reference_start))
        if rng.random() < 0.5:
            options['temp_prefix'] = rng.choice(['SCMO', 'TMP', 'other'])
        header_mode = case % 3
        write_path = rng.choice([os.path.join(case_dir, 'sub', 'dir', 'out.bam'), os.path.join(case_dir, 'out.bam'), 'relative_out.bam'])
        origin_path = os.path.join(case_dir, 'origin.bam')
        with pysam.AlignmentFile(origin_path, 'wb', header=header):
            pass
        if header_mode == 0:
            source = dict(header=header)
        elif header_mode == 1:
            source = dict(origin_bam=origin_path)
        else:
            source = dict(origin_bam=pysam.AlignmentFile(origin_path))
        log = []
        error = None
        buffer = io.StringIO()
        try:
            with contextlib.redirect_stdout(buffer), failing_sort(n_failures, log, root):
                with bf.sorted_bam_file(write_path, read_groups=read_groups, input_is_sorted=input_is_sorted,
                                        **source, **options) as out:
                    for r in segments:
                        out.write(r)
                        if rg_mode == 3:
                            read_groups[r.get_tag('RG')] = {'ID': r.get_tag('RG'), 'SM': 'x'}
        except Exception as e:
            error = f'{type(e).__name__}:{normalise(e, root)}'
        tag = f'sort{case}:{rg_mode}:{n_failures}:{sorted(options.items())}:{int(input_is_sorted)}:{header_mode}:{normalise(write_path, root)}'
        emit(tag, 'error', error)
        emit(tag, 'log', log)
        emit(tag, 'stdout', normalise(buffer.getvalue(), root))
        emit(tag, 'files', sorted(normalise(os.path.join(d, f), root) for d, _, fs in os.walk(case_dir) for f in fs))
        for line in describe_bam(write_path):
            emit(tag, line)

        # sort_and_index on its own, keeping the unsorted file
        if os.path.exists(write_path) and error is None:
            log = []
            buffer = io.StringIO()
            error = None
            resorted = os.path.join(case_dir, 'resorted.bam')
            try:
                with contextlib.redirect_stdout(buffer), failing_sort(rng.choice([0, 2, 3]), log, root):
                    bf.sort_and_index(write_path, resorted, remove_unsorted=rng.random() < 0.5,
                                      local_temp_sort=rng.random() < 0.7, fast_compression=rng.random() < 0.5)
            except Exception as e:
                error = f'{type(e).__name__}:{normalise(e, root)}'
            emit(tag, 'resort', error, log, normalise(buffer.getvalue(), root), os.path.exists(write_path))
            for line in describe_bam(resorted):
                emit(tag, 'resort', line)

        # missing header and origin
        try:
            with bf.sorted_bam_file(os.path.join(case_dir, 'never.bam')) as out:
                pass
        except Exception as e:
            emit(tag, 'noheader', type(e).__name__, str(e))
        os.chdir(cwd)
        shutil.rmtree(case_dir)

    # A write path which cannot be opened
    try:
        with bf.sorted_bam_file('/proc/does/not/exist/out.bam', header=make_header(rng, 2)) as out:
            pass
    except Exception as e:
        emit('unwritable', type(e).__name__)

    # merge_bams of per job outputs
    for case in range(12):
        case_dir = os.path.join(root, f'merge{case}')
        os.makedirs(case_dir)
        header = make_header(rng, rng.randint(1, 6))
        paths = []
        for part in range(rng.choice([1, 2, 3, 5])):
            part_path = os.path.join(case_dir, f'part{part}.bam')
            segments = make_segments(rng, header, rng.choice([0, 5, 20]), rng.choice([0, 0.3]))
            for r in segments:
                r.set_tag('RG', f'FC.{part}.LIB_{part}')
            with bf.sorted_bam_file(part_path, header=header, read_groups={f'FC.{part}.LIB_{part}'}) as out:
                for r in segments:
                    out.write(r)
            paths.append(part_path)
        merged = os.path.join(case_dir, 'merged.bam')
        error = None
        try:
            with contextlib.redirect_stdout(io.StringIO()):
                result = bf.merge_bams(paths, merged, threads=rng.choice([None, 1, 3]))
            emit(f'merge{case}', normalise(result, root))
        except Exception as e:
            error = f'{type(e).__name__}:{normalise(e, root)}'
        emit(f'merge{case}', 'error', error, sorted(os.listdir(case_dir)))
        for line in describe_bam(merged):
            emit(f'merge{case}', line)
        shutil.rmtree(case_dir)


def main():
    root = tempfile.mkdtemp(prefix='demo_c05_')
    sections = os.environ.get('DEMO_SECTIONS', 'tagger,iterator,task,sort').split(',')
    try:
        for name in sections:
            before = N_ITEMS
            {'tagger': tagger_section, 'iterator': iterator_section,
             'task': task_section, 'sort': sort_section}[name](root)
            print(f'section {name}: {N_ITEMS - before} observations, running digest {DIGEST.hexdigest()[:16]}', flush=True)
    finally:
        shutil.rmtree(root, ignore_errors=True)
    print(f'{N_ITEMS} observations')
    print(DIGEST.hexdigest())


if __name__ == '__main__':
    main()
