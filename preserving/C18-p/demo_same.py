#!/usr/bin/env python3
"""Differential script for the AlleleResolver refactoring (property C18).

Builds a few hundred random VCF files and resolver configurations, loads them
eagerly / lazily / through the on-disk cache (first and later runs), queries
them in varied contig orders and prints a sha256 digest over every observable
output (answers, internal table, cache files, stdout, raised exceptions).
"""
import contextlib
import gzip
import hashlib
import io
import os
import random
import shutil
import sys
import tempfile

import pysam

from singlecellmultiomics.alleleTools import AlleleResolver
import singlecellmultiomics.alleleTools.alleleTools as at_module

BASES = 'ACGT'
CONTIGS = ['chr1', 'chr2', 'chr3', 'chrUn_KI270', 'ERCC-00002', 'KN196472.1', 'KZ115748.1', 'chr4_random']
DIGEST = hashlib.sha256()
N_RECORDS = [0]
# optional: write every record to the file named in DEMO_DUMP (for debugging differences)
DUMP = open(os.environ['DEMO_DUMP'], 'w') if os.environ.get('DEMO_DUMP') else None


def emit(*items):
    line = '\t'.join(str(i) for i in items)
    DIGEST.update(line.encode() + b'\n')
    N_RECORDS[0] += 1
    if DUMP is not None:
        DUMP.write(line + '\n')


def random_allele(rng, ref=None, snv_only=False):
    r = rng.random()
    if snv_only or r < 0.8:
        return rng.choice([b for b in BASES if b != ref])
    if r < 0.9:
        return (ref or 'A') + ''.join(rng.choice(BASES) for _ in range(rng.randint(1, 3)))
    return '*' if r < 0.93 else '<DEL>'


def make_vcf(rng, path, samples, contigs, n_sites, all_phased):
    """Write a bgzipped + indexed vcf file, returns list of (contig,pos0) sites"""
    lines = ['##fileformat=VCFv4.2']
    for c in contigs:
        lines.append(f'##contig=<ID={c},length=100000>')
    lines.append('##ALT=<ID=DEL,Description="Deletion">')
    lines.append('##FORMAT=<ID=GT,Number=1,Type=String,Description="Genotype">')
    header = '#CHROM\tPOS\tID\tREF\tALT\tQUAL\tFILTER\tINFO'
    if samples:
        header += '\tFORMAT\t' + '\t'.join(samples)
    lines.append(header)
    sites = []
    for c in contigs:
        if rng.random() < 0.12:
            continue  # contig declared but without records
        positions = sorted(rng.sample(range(1, 400), rng.randint(1, n_sites)))
        for pos in positions:
            kind = rng.random()
            if kind < 0.12:
                ref = rng.choice(BASES) + rng.choice(BASES)  # multi base reference
            else:
                ref = rng.choice(BASES)
            if kind > 0.88 and (samples or rng.random() < 0.15):
                alts = []  # monomorphic
            else:
                n_alt = 1 if rng.random() < 0.75 else rng.randint(2, 3)
                alts = []
                while len(alts) < n_alt:
                    a = random_allele(rng, ref[0])
                    if a not in alts and a != ref:
                        alts.append(a)
            row = [c, str(pos), '.', ref, ','.join(alts) if alts else '.', '.', '.', '.']
            if samples:
                row.append('GT')
                for s in samples:
                    sep = '|' if (all_phased or rng.random() < 0.5) else '/'
                    gt = []
                    for _ in range(2 if rng.random() < 0.9 else 1):
                        if rng.random() < 0.12:
                            gt.append('.')
                        else:
                            gt.append(str(rng.randint(0, len(alts))))
                    if rng.random() < 0.3:  # homozygous
                        gt = [gt[0]] * len(gt)
                    row.append(sep.join(gt))
            lines.append('\t'.join(row))
            sites.append((c, pos - 1))
    plain = path[:-3]
    with open(plain, 'w') as f:
        f.write('\n'.join(lines) + '\n')
    pysam.tabix_index(plain, preset='vcf', force=True)
    return sites


def dump_table(resolver, tag):
    table = resolver.locationToAllele
    emit(tag, 'table-type', type(table).__name__)
    for chrom in table:  # insertion order is part of the behaviour
        emit(tag, 'table-chrom', chrom, type(table[chrom]).__name__, len(table[chrom]))
        for pos in table[chrom]:
            entry = table[chrom][pos]
            emit(tag, 'table-site', chrom, pos, type(entry).__name__,
                 ';'.join(f'{b}={",".join(sorted(entry[b]))}:{type(entry[b]).__name__}' for b in entry))


def dump_cache(vcf_path, tmpdir, tag):
    cache_dir = os.path.abspath(vcf_path) + '_allele_cache'
    if not os.path.exists(cache_dir):
        emit(tag, 'cache-dir', 'absent')
        return
    for name in sorted(os.listdir(cache_dir)):
        full = os.path.join(cache_dir, name)
        try:
            with gzip.open(full, 'rt') as f:
                content = f.read()
        except Exception as e:  # partially written file
            content = f'unreadable:{type(e).__name__}'
        emit(tag, 'cache-file', name, hashlib.sha256(content.encode()).hexdigest(), content.count('\n'))
        for line in content.split('\n'):
            emit(tag, 'cache-line', name, line)


class FakeRead:
    def __init__(self, contig, pairs, seq, unmapped=False):
        self.reference_name = contig
        self.query_sequence = seq
        self.is_unmapped = unmapped
        self._pairs = pairs

    def get_aligned_pairs(self, matches_only=True):
        return self._pairs


def query(resolver, rng, contig_universe, sites, tag, tmpdir, order_mode):
    """Perform lookups, the order of contig accesses depends on order_mode"""
    by_contig = {}
    for c, p in sites:
        by_contig.setdefault(c, []).append(p)
    contigs = list(contig_universe) + ['not_a_contig']
    plan = []
    if order_mode == 'sequential':
        plan = contigs
    elif order_mode == 'reversed':
        plan = contigs[::-1]
    elif order_mode == 'return':  # return to evicted contigs
        plan = contigs + contigs[:3] + [contigs[0], contigs[1], contigs[0]]
    else:
        plan = [rng.choice(contigs) for _ in range(12)]
    for step, contig in enumerate(plan):
        positions = list(by_contig.get(contig, []))
        positions = positions[:6] + [-1, 0, 399, 10 ** 6]
        if len(positions) > 4 and rng.random() < 0.5:
            positions.append(positions[0] + 1)
        for pos in positions:
            use_has_first = rng.random() < 0.3
            if use_has_first:
                out, result = run_captured(tmpdir, resolver.has_location, contig, pos)
                emit(tag, step, 'has', contig, pos, result, out)
            for base in 'ACGTN*':
                out, result = run_captured(tmpdir, resolver.getAllelesAt, contig, pos, base)
                if isinstance(result, set):
                    result = 'set:' + ','.join(sorted(result))
                emit(tag, step, 'get', contig, pos, base, result, out)
            if not use_has_first:
                out, result = run_captured(tmpdir, resolver.has_location, contig, pos)
                emit(tag, step, 'has', contig, pos, result, out)
        if step % 3 == 0:
            dump_table(resolver, f'{tag}/step{step}')
    # read based lookup
    reads = [None, FakeRead('chr1', [], '', unmapped=True)]
    for contig in contigs[:4]:
        ps = by_contig.get(contig, [])[:8]
        seq = ''.join(rng.choice(BASES) for _ in ps)
        reads.append(FakeRead(contig, [(i, p) for i, p in enumerate(ps)], seq))
    out, result = run_captured(tmpdir, resolver.getAllele, reads)
    emit(tag, 'getAllele', sorted(result) if isinstance(result, set) else result, out)
    dump_table(resolver, f'{tag}/final')


def run_captured(tmpdir, fn, *args, **kwargs):
    """Run fn, returns (normalised stdout, result or exception description)"""
    buf = io.StringIO()
    with contextlib.redirect_stdout(buf):
        try:
            result = fn(*args, **kwargs)
        except BaseException as e:
            result = f'EXC:{type(e).__name__}:{e}:ctx={type(e.__context__).__name__}'
    return buf.getvalue().replace(tmpdir, '<TMP>').replace('\n', '\\n'), \
        result.replace(tmpdir, '<TMP>') if isinstance(result, str) else result


def build(tmpdir, tag, **kwargs):
    out, resolver = run_captured(tmpdir, AlleleResolver, **kwargs)
    emit(tag, 'init', out, resolver if isinstance(resolver, str) else 'ok')
    return None if isinstance(resolver, str) else resolver


def scenario(rng, tmpdir, index):
    n_samples = rng.choice([0, 1, 2, 2, 3, 4])
    samples = [f'S{i}' for i in range(n_samples)]
    if n_samples and rng.random() < 0.2:
        samples[0] = '129S1'
    contigs = ['chr1', 'chr2', 'chr3'] + rng.sample(CONTIGS[3:], rng.randint(0, 3))
    rng.shuffle(contigs)
    vcf = os.path.join(tmpdir, f'v{index}.vcf.gz')
    sites = make_vcf(rng, vcf, samples, contigs, rng.randint(2, 14), all_phased=rng.random() < 0.5)

    phased = rng.random() < 0.7
    select = None
    if samples and rng.random() < 0.55:
        select = rng.choice([
            samples[:1], samples[-2:], list(reversed(samples)), samples + ['absent'], [], ['absent'],
            set(samples[:2]), tuple(samples[:2])])
    ignore = rng.choice([None, None, {('C', 'T'), ('G', 'A')}, set(), {('A', 'C')}, {('T', 'G'), ('A', 'A')}])
    verbose = rng.random() < 0.4
    region = rng.choice([(None, None)] * 4 + [(50, 250), (None, 120), (200, None), (390, 399)])
    common = dict(phased=phased, select_samples=select, ignore_conversions=ignore, verbose=verbose)
    tag = f's{index}'
    emit(tag, 'config', n_samples, phased,
         sorted(select) if select is not None else None,
         sorted(ignore) if ignore is not None else None, verbose, region, ','.join(contigs))
    order_modes = ['sequential', 'reversed', 'return', 'random']

    # eager, every contig at once; the file name is supplied in different types
    vcf_arg = rng.choice([vcf, vcf.encode('ascii')])
    r = build(tmpdir, tag + '/eager-all', vcffile=vcf_arg, **common)
    if r is not None:
        query(r, rng, contigs, sites, tag + '/eager-all', tmpdir, rng.choice(order_modes))
    # eager, one contig
    one = rng.choice(contigs + ['not_a_contig'])
    r = build(tmpdir, tag + '/eager-one', vcffile=vcf, chrom=one, **common)
    if r is not None:
        query(r, rng, contigs, sites, tag + '/eager-one', tmpdir, rng.choice(order_modes))
    # lazy
    r = build(tmpdir, tag + '/lazy', vcffile=vcf, lazyLoad=True, **common)
    if r is not None:
        query(r, rng, contigs, sites, tag + '/lazy', tmpdir, 'return')
        if rng.random() < 0.5:
            out, clone = run_captured(tmpdir, r.prefetch, rng.choice(contigs + ['not_a_contig']), 10, 200)
            emit(tag, 'prefetch', out, type(clone).__name__)
            dump_table(r, tag + '/after-prefetch')
    # cache, combined with every flag combination over the scenarios
    lazy_flag = rng.random() < 0.5
    fault = rng.choice([None, None, None, 'rename', 'gzip', 'makedirs'])
    for run in range(3):
        run_tag = f'{tag}/cache{run}'
        kwargs = dict(common)
        if run == 2 or region != (None, None):
            kwargs['region_start'], kwargs['region_end'] = region
        r = build(tmpdir, run_tag, vcffile=vcf, use_cache=True, lazyLoad=lazy_flag, **kwargs)
        if r is None:
            continue
        patched = None
        if fault is not None and run == 0:
            patched = install_fault(fault)
        try:
            query(r, rng, contigs, sites, run_tag, tmpdir, order_modes[(index + run) % 4])
        finally:
            if patched is not None:
                patched()
        dump_cache(vcf, tmpdir, run_tag)
    # change of settings must not hit the cache of other settings
    if rng.random() < 0.5:
        other = dict(common)
        other['phased'] = not phased
        other['ignore_conversions'] = {('C', 'T')} if ignore is None else None
        r = build(tmpdir, tag + '/cache-other', vcffile=vcf, use_cache=True, **other)
        if r is not None:
            query(r, rng, contigs, sites, tag + '/cache-other', tmpdir, 'return')
            dump_cache(vcf, tmpdir, tag + '/cache-other')
    shutil.rmtree(os.path.abspath(vcf) + '_allele_cache', ignore_errors=True)


def install_fault(kind):
    """Make writing of the cache fail, returns function which removes the fault"""
    counter = [0]
    if kind == 'rename':
        original = os.rename

        def failing(*a, **k):
            counter[0] += 1
            if counter[0] % 2 == 1:
                raise OSError(28, 'No space left on device')
            return original(*a, **k)
        os.rename = failing
        return lambda: setattr(os, 'rename', original)
    if kind == 'gzip':
        original = gzip.open

        def failing(path, mode='rb', *a, **k):
            if 'w' in mode:
                counter[0] += 1
                if counter[0] % 2 == 1:
                    raise PermissionError(13, 'Permission denied')
            return original(path, mode, *a, **k)
        gzip.open = failing
        return lambda: setattr(gzip, 'open', original)
    original = os.makedirs

    def failing(*a, **k):
        counter[0] += 1
        if counter[0] == 1:
            raise OSError(30, 'Read-only file system')
        return original(*a, **k)
    os.makedirs = failing
    return lambda: setattr(os, 'makedirs', original)


def special_cases(tmpdir):
    # No vcf file at all
    for lazy in (False, True):
        r = build(tmpdir, f'novcf{lazy}', lazyLoad=lazy)
        for args in (('chr1', 10, 'A'), ('chr1', -1, 'N')):
            out, res = run_captured(tmpdir, r.getAllelesAt, *args)
            emit('novcf', lazy, args, res, out)
            out, res = run_captured(tmpdir, r.has_location, *args[:2])
            emit('novcf', lazy, args, res, out)
        r.addAlleleInfoOneBased('chr1', 10, 'A', 'x')
        out, res = run_captured(tmpdir, r.getAllelesAt, 'chr1', 10, 'A')
        emit('novcf-added', lazy, sorted(res) if isinstance(res, set) else res, out)
        dump_table(r, f'novcf{lazy}')

    # Vcf file without index (lazy and cached)
    rng = random.Random(99)
    vcf = os.path.join(tmpdir, 'noindex.vcf.gz')
    sites = make_vcf(rng, vcf, ['A1', 'B1'], ['chr1', 'chr2'], 8, True)
    os.remove(vcf + '.tbi')
    for kwargs in (dict(lazyLoad=True), dict(use_cache=True), dict(), dict(lazyLoad=True, verbose=True)):
        tag = 'noindex' + repr(sorted(kwargs.items()))
        r = build(tmpdir, tag, vcffile=vcf, **kwargs)
        if r is None:
            continue
        for c, p in sites[:5] + [('zz', 3)]:
            out, res = run_captured(tmpdir, r.getAllelesAt, c, p, 'A')
            emit(tag, 'get', c, p, sorted(res) if isinstance(res, set) else res, out)
            out, res = run_captured(tmpdir, r.has_location, c, p)
            emit(tag, 'has', c, p, res, out)
        dump_table(r, tag)
        dump_cache(vcf, tmpdir, tag)

    # Invalid ("dirty") vcf file, homebrew parser
    dirty = os.path.join(tmpdir, 'dirty.vcf')
    with open(dirty, 'w') as f:
        f.write('#comment\n')
        for c in ('chr1', 'chr2', 'chr3'):
            for p in (5, 17, 90):
                f.write(f'{c} {p} . {rng.choice("AC")} {rng.choice("GT")}\n')
    for kwargs in (dict(), dict(chrom='chr2'), dict(lazyLoad=True), dict(use_cache=True, verbose=True),
                   dict(lazyLoad=True, select_samples=['a']), dict(uglyMode=True, chrom='chr1', verbose=True)):
        tag = 'dirty' + repr(sorted(kwargs.items()))
        r = build(tmpdir, tag, vcffile=dirty, **kwargs)
        if r is None:
            continue
        for c in ('chr2', 'chr1', 'chr3', 'chr9', 'chr2'):
            for p in (4, 16, 89, 5):
                for b in 'ACGT':
                    out, res = run_captured(tmpdir, r.getAllelesAt, c, p, b)
                    emit(tag, 'get', c, p, b, sorted(res) if isinstance(res, set) else res, out)
                out, res = run_captured(tmpdir, r.has_location, c, p)
                emit(tag, 'has', c, p, res, out)
        dump_table(r, tag)

    # Missing file
    for kwargs in (dict(), dict(lazyLoad=True), dict(use_cache=True)):
        build(tmpdir, 'missing' + repr(sorted(kwargs.items())), vcffile=os.path.join(tmpdir, 'nope.vcf.gz'), **kwargs)

    # Direct use of the cache reader / writer and fetchChromosome
    vcf = os.path.join(tmpdir, 'direct.vcf.gz')
    sites = make_vcf(rng, vcf, ['A1', 'B1', 'C1'], ['chr1', 'chr2', 'chr3'], 12, True)
    r = build(tmpdir, 'direct', vcffile=vcf, lazyLoad=True)
    for clear in (False, True, False):
        for c in ('chr1', 'chr3', 'nope', 'chr2'):
            out, res = run_captured(tmpdir, r.fetchChromosome, vcf, c, clear)
            emit('direct-fetch', clear, c, res, out)
            dump_table(r, f'direct-fetch-{clear}-{c}')
    with pysam.VariantFile(vcf) as handle:
        out, res = run_captured(tmpdir, r.fetchChromosome, handle, 'chr1', True)
        emit('direct-fetch-handle', res, out)
    cache_path = os.path.join(tmpdir, 'manual_cache.tsv.gz')
    for c in ('chr1', 'empty_contig'):
        out, res = run_captured(tmpdir, r.write_cache, cache_path, c)
        emit('direct-write', c, res, out, sorted(os.listdir(tmpdir)).count('manual_cache.tsv.gz'))
        with gzip.open(cache_path, 'rt') as f:
            emit('direct-write-content', c, f.read().replace('\n', '|'))
        dump_table(r, f'direct-write-{c}')
        for region in ((None, None), (20, 200), (1000, None), (None, -5)):
            r2 = build(tmpdir, 'direct-read', vcffile=vcf, lazyLoad=True, region_start=region[0], region_end=region[1])
            out, res = run_captured(tmpdir, r2.read_cached, cache_path, 'other')
            emit('direct-read', c, region, res, out)
            dump_table(r2, f'direct-read-{c}-{region}')
    out, res = run_captured(tmpdir, r.write_cache, os.path.join(tmpdir, 'no_dir', 'x.gz'), 'never_seen')
    emit('direct-write-fail', res, out)
    dump_table(r, 'direct-write-fail')


def main():
    tmpdir = tempfile.mkdtemp(prefix='c18demo')
    try:
        n = int(sys.argv[1]) if len(sys.argv) > 1 else 260
        for index in range(n):
            scenario(random.Random(index * 7919 + 13), tmpdir, index)
        special_cases(tmpdir)
    finally:
        shutil.rmtree(tmpdir, ignore_errors=True)
    print('records', N_RECORDS[0])
    print('source', 'refactored' if hasattr(AlleleResolver, '_phased_site') else 'original',
          os.path.dirname(at_module.__file__).startswith('/tmp/wt_pC18'))
    print(DIGEST.hexdigest())


if __name__ == '__main__':
    main()
