#!/usr/bin/env python3
"""Differential script for the C20 refactoring (sorted_bam_file / sort_and_index /
tag_multiome_single_thread / tag_multiome_multi_processing / write_status).

Builds its own inputs in a temporary directory, runs a few hundred scenarios
(including faults injected at every step) and prints a sha256 digest over
everything observable: exceptions, call traces of the patched primitives, status
file history, produced files and the contents of the written bam files.
"""
import builtins
import contextlib
import hashlib
import io
import itertools
import json
import os
import random
import re
import shutil
import sys
import tempfile

if os.environ.get('PYTHONHASHSEED') != '0':
    # read groups can be supplied as a set of strings: fix the iteration order
    os.environ['PYTHONHASHSEED'] = '0'
    os.execv(sys.executable, [sys.executable] + sys.argv)

REPO = os.path.dirname(os.path.abspath(__file__))
sys.path.insert(0, REPO)

import pysam
import singlecellmultiomics.bamProcessing.bamFunctions as bf
import singlecellmultiomics.universalBamTagger.bamtagmultiome as tm
import singlecellmultiomics.molecule as scmol

assert os.path.abspath(bf.__file__).startswith(REPO), bf.__file__

NLA = os.path.join(REPO, 'data', 'mini_nla_test.bam')
CHIC = os.path.join(REPO, 'data', 'chic_test_region.bam')

ROOT = tempfile.mkdtemp(prefix='c20demo_')
UUID_RE = re.compile(r'[0-9a-f]{8}-[0-9a-f]{4}-[0-9a-f]{4}-[0-9a-f]{4}-[0-9a-f]{12}')
ADDR_RE = re.compile(r'0x[0-9a-f]+')
DATE_RE = re.compile(r'\d\d/\d\d/\d{4} \d\d:\d\d:\d\d')
ARGV_RE = re.compile(r'CL:[^\t\n]*demo_same\.py[^\t\n]*')


def norm(text):
    text = str(text)
    text = text.replace(os.path.realpath(ROOT), '<ROOT>').replace(ROOT, '<ROOT>')
    text = text.replace(REPO, '<REPO>')
    text = UUID_RE.sub('<UUID>', text)
    text = ADDR_RE.sub('<ADDR>', text)
    text = DATE_RE.sub('<DATE>', text)
    return text


RESULTS = []


def emit(name, payload):
    blob = json.dumps(payload, sort_keys=True, default=str)
    RESULTS.append((name, hashlib.sha256(blob.encode()).hexdigest()))
    if os.environ.get('C20_VERBOSE'):
        print(name, blob)


# --------------------------------------------------------------------------
# Patching / fault injection
# --------------------------------------------------------------------------
class Injected(RuntimeError):
    pass


class Patches:
    """Wrap attributes with recording wrappers which optionally raise"""

    def __init__(self):
        self.trace = []
        self._undo = []

    def wrap(self, owner, attr, label, fail_when=None, exc=Injected, record=None, before_fail=None):
        orig = getattr(owner, attr)
        counter = {'n': 0}
        trace = self.trace

        def wrapper(*args, **kwargs):
            if record is not None and not record(args, kwargs):
                return orig(*args, **kwargs)
            counter['n'] += 1
            trace.append([label, counter['n'], norm(repr(args)), norm(repr(sorted(kwargs.items())))])
            if fail_when is not None and fail_when(counter['n'], args, kwargs):
                if before_fail is not None:
                    before_fail(args, kwargs)
                raise exc(f'injected fault in {label} call {counter["n"]}')
            return orig(*args, **kwargs)
        setattr(owner, attr, wrapper)
        self._undo.append((owner, attr, orig))

    def undo(self):
        for owner, attr, orig in reversed(self._undo):
            setattr(owner, attr, orig)
        self._undo = []


def under_root(args, kwargs):
    return len(args) > 0 and isinstance(args[0], str) and (
        os.path.abspath(args[0]).startswith(ROOT) or os.path.abspath(args[0]).startswith(os.path.realpath(ROOT)))


def is_status(args, kwargs):
    return len(args) > 0 and isinstance(args[0], str) and args[0].endswith('.status.txt')


def nth(*numbers):
    numbers = set(numbers)
    return lambda n, a, k: n in numbers


def standard_patches(fault=None):
    """Install recorders on every primitive used by the post processing steps.
    fault: (label, fail_when, exc) or None"""
    p = Patches()
    spec = {
        'pysam.sort': (pysam, 'sort', None),
        'pysam.index': (pysam, 'index', None),
        'pysam.merge': (pysam, 'merge', None),
        'os.remove': (os, 'remove', under_root),
        'os.rename': (os, 'rename', under_root),
        'os.makedirs': (os, 'makedirs', under_root),
        'shutil.rmtree': (shutil, 'rmtree', under_root),
        'open': (builtins, 'open', is_status),
        'add_readgroups_to_header': (bf, 'add_readgroups_to_header', None),
        'replace_bam_header': (bf, 'replace_bam_header', None),
        'sort_and_index': (bf, 'sort_and_index', None),
        'write_status': (tm, 'write_status', None),
        'merge_bams': (tm, 'merge_bams', None),
        'sleep': (tm, 'sleep', None),
        'write_tags': (scmol.Molecule, 'write_tags', None),
        'write_pysam': (scmol.Molecule, 'write_pysam', None),
    }
    for label, (owner, attr, record) in spec.items():
        fail_when = exc = before = None
        if fault is not None and fault[0] == label:
            fail_when, exc = fault[1], fault[2]
            before = fault[3] if len(fault) > 3 else None
        if label == 'sleep':
            # do not really sleep
            orig_sleep = tm.sleep
            tm.sleep = lambda *a, **k: None
            p._undo.append((tm, 'sleep', orig_sleep))
            p.wrap(tm, 'sleep', label, fail_when, exc or Injected)
            continue
        if label in ('write_tags', 'write_pysam'):
            # Do not record arguments of these (objects), only count
            orig = getattr(owner, attr)
            counter = {'n': 0}

            def make(orig=orig, counter=counter, label=label, fail_when=fail_when, exc=exc):
                def wrapper(self, *args, **kwargs):
                    counter['n'] += 1
                    if fail_when is not None and fail_when(counter['n'], args, kwargs):
                        p.trace.append([label, counter['n'], 'FAULT'])
                        raise (exc or Injected)(f'injected fault in {label} call {counter["n"]}')
                    return orig(self, *args, **kwargs)
                return wrapper
            setattr(owner, attr, make())
            p._undo.append((owner, attr, orig))
            continue
        p.wrap(owner, attr, label, fail_when, exc or Injected, record=record, before_fail=before)
    return p


# --------------------------------------------------------------------------
# Observation helpers
# --------------------------------------------------------------------------
def describe_bam(path):
    """Everything observable about a bam file"""
    d = {'exists': os.path.exists(path)}
    if not d['exists']:
        return d
    d['index'] = sorted(ext for ext in ('.bai', '.csi') if os.path.exists(path + ext))
    try:
        with pysam.AlignmentFile(path, check_sq=False) as f:
            header = norm(str(f.header))
            header = ARGV_RE.sub('CL:<ARGV>', header)
            d['header'] = header
            d['SO'] = f.header.to_dict().get('HD', {}).get('SO')
            reads = []
            previous = None
            is_sorted = True
            for read in f:
                reads.append(norm(read.to_string()))
                key = (read.reference_id if read.reference_id >= 0 else 1 << 40, read.reference_start)
                if previous is not None and key < previous:
                    is_sorted = False
                previous = key
            d['n'] = len(reads)
            d['reads'] = hashlib.sha256('\n'.join(reads).encode()).hexdigest()
            d['coordinate_sorted'] = is_sorted
            try:
                d['check_index'] = bool(f.check_index())
            except Exception as e:
                d['check_index'] = type(e).__name__
    except Exception as e:
        d['read_error'] = f'{type(e).__name__}: {norm(e)}'
    return d


def listing(folder):
    out = []
    for base, dirs, files in os.walk(folder):
        dirs.sort()
        for name in sorted(files):
            out.append(norm(os.path.join(base, name)))
        for name in dirs:
            out.append(norm(os.path.join(base, name)) + '/')
    return sorted(out)


def status_of(out_path):
    path = out_path.replace('.bam', '.status.txt')
    if not os.path.exists(path):
        return None
    with open(path) as f:
        return f.read()


def run_observed(function, workdir, patches):
    """Run function in workdir, return observation dict"""
    old_cwd = os.getcwd()
    os.chdir(workdir)
    stdout, stderr = io.StringIO(), io.StringIO()
    outcome = None
    try:
        with contextlib.redirect_stdout(stdout), contextlib.redirect_stderr(stderr):
            try:
                returned = function()
                outcome = ['ok', norm(repr(returned))]
            except BaseException as e:  # noqa (also KeyboardInterrupt / SystemExit which we inject)
                outcome = ['raised', type(e).__name__, norm(e)]
    finally:
        patches.undo()
        os.chdir(old_cwd)
    return {
        'outcome': outcome,
        'trace': patches.trace,
        'stdout': norm(stdout.getvalue()),
        'stderr': norm(stderr.getvalue()),
        'files': listing(workdir),
    }


# --------------------------------------------------------------------------
# Part A : sorted_bam_file / sort_and_index on synthetic reads
# --------------------------------------------------------------------------
HEADER = {'HD': {'VN': '1.6'},
          'SQ': [{'SN': 'chr1', 'LN': 5000}, {'SN': 'chr2', 'LN': 3000}, {'SN': 'chrM', 'LN': 400}]}


def make_reads(rng, n, header_obj, presorted=False):
    reads = []
    for i in range(n):
        read = pysam.AlignedSegment(header_obj)
        length = rng.choice([1, 5, 20, 36])
        read.query_name = f'READ_{i}'
        read.query_sequence = ''.join(rng.choice('ACGT') for _ in range(length))
        read.query_qualities = [rng.randint(2, 40) for _ in range(length)]
        kind = rng.random()
        if kind < 0.12:
            read.is_unmapped = True
        else:
            read.reference_id = rng.randrange(3)
            # many ties: few distinct positions
            read.reference_start = rng.choice([0, 0, 7, 7, 7, 100, 101, 399 - length if length < 399 else 0])
            read.cigarstring = f'{length}M'
            read.mapping_quality = rng.choice([0, 1, 60])
            read.is_reverse = rng.random() < 0.5
        read.set_tag('RG', f'FC{rng.randrange(2)}.{rng.randrange(1, 3)}.LIB_{rng.randrange(3)}')
        reads.append(read)
    if presorted:
        reads.sort(key=lambda r: (r.reference_id if r.reference_id >= 0 else 1 << 40, r.reference_start))
    return reads


READ_GROUP_CHOICES = {
    'none': lambda: None,
    'set': lambda: {'FC0.1.LIB_0', 'FC1.2.LIB_2'},
    'set_single': lambda: {'FC0.1.LIB_0'},
    'set_nolib': lambda: {'FC0.1.SAMPLEWITHOUTLIB'},
    'set_bad': lambda: {'not_a_read_group'},
    'set_empty': lambda: set(),
    'dict': lambda: {'FC0.1.LIB_0': {'ID': 'FC0.1.LIB_0', 'LB': 'LIB', 'PL': 'ILLUMINA', 'SM': 'LIB_0', 'PU': 'FC0.1.LIB_0'},
                     'B': {'ID': 'B', 'LB': 'L2', 'PL': 'ILLUMINA', 'SM': 'S2', 'PU': 'B'}},
    'dict_empty': lambda: dict(),
    'list': lambda: ['FC0.1.LIB_0'],
    'frozenset': lambda: frozenset(['FC0.1.LIB_0']),
}

FAULTS_A = {
    'none': None,
    'sort_1': ('pysam.sort', nth(1), Injected),
    'sort_12': ('pysam.sort', nth(1, 2), Injected),
    'sort_123': ('pysam.sort', nth(1, 2, 3), Injected),
    'sort_2': ('pysam.sort', nth(2), Injected),
    'sort_kbd': ('pysam.sort', nth(1), KeyboardInterrupt),
    'sort_partial': ('pysam.sort', nth(1, 2, 3), Injected, 'partial'),
    'index_1': ('pysam.index', nth(1), Injected),
    'remove_1': ('os.remove', nth(1), OSError),
    'rename_1': ('os.rename', nth(1), OSError),
    'rehead': ('add_readgroups_to_header', nth(1), Injected),
    'rehead_inner': ('replace_bam_header', nth(1), Injected),
    'sort_and_index': ('sort_and_index', nth(1), Injected),
    'makedirs': ('os.makedirs', nth(1), OSError),
}


def write_garbage_at_sorted_path(args, kwargs):
    # pysam.sort('-o', sorted_path, ...)
    target = args[args.index('-o') + 1]
    with open(target, 'wb') as f:
        f.write(b'partial garbage')


def scenario_sorted_bam_file(index, rng, cfg):
    workdir = os.path.join(ROOT, f'A{index}')
    os.makedirs(workdir)
    header_obj = pysam.AlignmentHeader.from_dict(HEADER)
    presorted = cfg['presorted']
    reads = make_reads(rng, cfg['n'], header_obj, presorted=presorted)

    # origin bam for the origin_bam variants
    origin_path = os.path.join(ROOT, f'A{index}_origin.bam')
    origin_header = dict(HEADER)
    origin_header['CO'] = ['origin header']
    with pysam.AlignmentFile(origin_path, 'wb', header=origin_header):
        pass

    location = cfg['location']
    if location == 'plain':
        write_path = os.path.join(workdir, 'out.bam')
    elif location == 'nested':
        write_path = os.path.join(workdir, 'new', 'deeper', 'out.bam')
    elif location == 'relative':
        write_path = 'out.bam'
    elif location == 'dot':
        write_path = './out.bam'
    elif location == 'relative_nested':
        write_path = 'sub/out.bam'
    elif location == 'blocked':
        # parent "folder" is a file, creating it fails silently and opening raises
        with open(os.path.join(workdir, 'blocker'), 'w') as f:
            f.write('x')
        write_path = os.path.join(workdir, 'blocker', 'out.bam')
    else:
        raise ValueError(location)

    fault = FAULTS_A[cfg['fault']]
    if fault is not None and len(fault) > 3:
        fault = (fault[0], fault[1], fault[2], write_garbage_at_sorted_path)
    patches = standard_patches(fault)

    read_groups = READ_GROUP_CHOICES[cfg['read_groups']]()
    kwargs = {}
    source = cfg['header_source']
    origin_handle = None
    if source == 'dict':
        kwargs['header'] = HEADER
    elif source == 'object':
        kwargs['header'] = header_obj
    elif source == 'origin_path':
        kwargs['origin_bam'] = origin_path
    elif source == 'origin_handle':
        origin_handle = pysam.AlignmentFile(origin_path)
        kwargs['origin_bam'] = origin_handle
    elif source == 'both':
        kwargs['header'] = HEADER
        kwargs['origin_bam'] = origin_path
    elif source == 'neither':
        pass
    if cfg['read_groups'] != 'none' or rng.random() < 0.5:
        kwargs['read_groups'] = read_groups
    for key in ('input_is_sorted', 'local_temp_sort', 'fast_compression', 'temp_prefix', 'mode'):
        if cfg[key] != 'default':
            kwargs[key] = cfg[key]
    if cfg['threads']:
        kwargs['threads'] = 2

    body_fault = cfg['body_fault']

    def function():
        with bf.sorted_bam_file(write_path, **kwargs) as out:
            for i, read in enumerate(reads):
                if body_fault is not None and body_fault[0] == i:
                    raise body_fault[1]('injected body fault')
                out.write(read)
            if body_fault is not None and body_fault[0] == 'end':
                raise body_fault[1]('injected body fault at end')
        return 'completed'

    obs = run_observed(function, workdir, patches)
    if origin_handle is not None:
        origin_handle.close()
    final = write_path if os.path.isabs(write_path) else os.path.join(workdir, write_path)
    obs['bam'] = describe_bam(final)
    obs['cfg'] = {k: (v if not isinstance(v, tuple) else [str(x) for x in v]) for k, v in cfg.items()}
    emit(f'A{index}', obs)
    shutil.rmtree(workdir, ignore_errors=True)
    os.remove(origin_path)


def part_a():
    rng = random.Random(20)
    base = dict(n=12, presorted=False, location='plain', fault='none', read_groups='none',
                header_source='dict', input_is_sorted='default', local_temp_sort='default',
                fast_compression='default', temp_prefix='default', mode='default', threads=False,
                body_fault=None)
    configs = []
    # one factor at a time
    for n in (0, 1, 2, 40):
        configs.append(dict(base, n=n))
    for location in ('nested', 'relative', 'dot', 'relative_nested', 'blocked'):
        configs.append(dict(base, location=location))
        configs.append(dict(base, location=location, fault='makedirs'))
    for rg in READ_GROUP_CHOICES:
        configs.append(dict(base, read_groups=rg))
        configs.append(dict(base, read_groups=rg, n=0))
        configs.append(dict(base, read_groups=rg, input_is_sorted=True, presorted=True))
    for source in ('object', 'origin_path', 'origin_handle', 'both', 'neither'):
        configs.append(dict(base, header_source=source))
    for fault in FAULTS_A:
        for rg in ('none', 'set', 'dict'):
            for sorted_flag in ('default', True):
                for local in ('default', False):
                    configs.append(dict(base, fault=fault, read_groups=rg, input_is_sorted=sorted_flag,
                                        presorted=sorted_flag is True, local_temp_sort=local))
    for flag in (True, False, None, 0, 1):
        for presorted in (True, False):
            configs.append(dict(base, input_is_sorted=flag, presorted=presorted))
    for prefix in ('X', '', None):
        for local in (True, False):
            configs.append(dict(base, temp_prefix=prefix, local_temp_sort=local))
    for mode in ('wbu', 'wb0', 'w'):
        configs.append(dict(base, mode=mode))
    for fast in (True, False):
        for local in (True, False):
            configs.append(dict(base, fast_compression=fast, local_temp_sort=local, threads=True))
    for position in (0, 5, 11, 'end'):
        for exc in (RuntimeError, KeyboardInterrupt, GeneratorExit, StopIteration):
            configs.append(dict(base, body_fault=(position, exc), read_groups=rng.choice(['none', 'set'])))
    # random combinations
    for _ in range(150):
        configs.append(dict(
            n=rng.choice([0, 1, 3, 12, 25]),
            presorted=rng.random() < 0.5,
            location=rng.choice(['plain', 'plain', 'nested', 'relative', 'dot', 'relative_nested']),
            fault=rng.choice(list(FAULTS_A)),
            read_groups=rng.choice(list(READ_GROUP_CHOICES)),
            header_source=rng.choice(['dict', 'object', 'origin_path', 'origin_handle', 'both']),
            input_is_sorted=rng.choice(['default', 'default', True, False]),
            local_temp_sort=rng.choice(['default', True, False]),
            fast_compression=rng.choice(['default', True, False]),
            temp_prefix=rng.choice(['default', 'default', 'PFX']),
            mode=rng.choice(['default', 'default', 'wbu']),
            threads=rng.random() < 0.2,
            body_fault=rng.choice([None, None, None, (rng.choice([0, 2, 'end']), RuntimeError)]),
        ))
    for index, cfg in enumerate(configs):
        scenario_sorted_bam_file(index, random.Random(1000 + index), cfg)
    return len(configs)


def part_a2():
    """sort_and_index called directly"""
    count = 0
    header_obj = pysam.AlignmentHeader.from_dict(HEADER)
    for index, (fault, remove_unsorted, local, fast, prefix, relative) in enumerate(itertools.product(
            ['none', 'sort_1', 'sort_12', 'sort_123', 'sort_partial', 'index_1', 'remove_1', 'sort_kbd'],
            [True, False], [True, False], [False, True], ['TMP', None], [False, True])):
        if prefix is None and fault not in ('none', 'sort_1'):
            continue
        workdir = os.path.join(ROOT, f'S{index}')
        os.makedirs(workdir)
        unsorted = os.path.join(workdir, 'in.unsorted.bam')
        with pysam.AlignmentFile(unsorted, 'wb', header=header_obj) as out:
            for read in make_reads(random.Random(index), 15, header_obj):
                out.write(read)
        f = FAULTS_A[fault]
        if f is not None and len(f) > 3:
            f = (f[0], f[1], f[2], write_garbage_at_sorted_path)
        patches = standard_patches(f)
        target = 'sorted.bam' if relative else os.path.join(workdir, 'sorted.bam')
        kwargs = dict(remove_unsorted=remove_unsorted, local_temp_sort=local, fast_compression=fast, prefix=prefix)
        obs = run_observed(lambda: bf.sort_and_index(unsorted, target, **kwargs), workdir, patches)
        obs['bam'] = describe_bam(os.path.join(workdir, 'sorted.bam'))
        obs['cfg'] = [fault, remove_unsorted, local, fast, prefix, relative]
        emit(f'S{index}', obs)
        shutil.rmtree(workdir, ignore_errors=True)
        count += 1
    return count


# --------------------------------------------------------------------------
# Part B : the tagging pipelines
# --------------------------------------------------------------------------
def scenario_pipeline(name, command, fault=None, pre=None):
    workdir = os.path.join(ROOT, name)
    os.makedirs(workdir)
    tmp_root = os.path.join(workdir, 'tmp')
    os.makedirs(tmp_root)
    out_path = os.path.join(workdir, 'result', 'tagged.bam') if 'NESTED' in name else os.path.join(workdir, 'tagged.bam')
    if 'NESTED' in name:
        os.makedirs(os.path.dirname(out_path))
    command = command.replace('{OUT}', out_path).replace('{TMP}', tmp_root).replace('{WORK}', workdir)
    if pre is not None:
        pre(workdir, out_path)
    patches = standard_patches(fault)
    old_argv = sys.argv
    sys.argv = ['demo_same.py'] + command.split(' ')
    try:
        obs = run_observed(lambda: tm.run_multiome_tagging_cmd(command.split(' ')), workdir, patches)
    finally:
        sys.argv = old_argv
    # 'Params:' line contains object representations, keep only its presence
    obs['stdout'] = '\n'.join(line if not line.startswith('Params:') else 'Params: ...' for line in obs['stdout'].split('\n'))
    obs['status'] = status_of(out_path)
    obs['bam'] = describe_bam(out_path)
    obs['command'] = norm(command)
    success = obs['status'] == 'Reached end. All ok!\n'
    if success:
        # The property itself
        bam = obs['bam']
        assert bam['exists'] and bam.get('coordinate_sorted') and bam['index'] and 'read_error' not in bam, (name, bam)
    obs['success'] = success
    emit(name, obs)
    shutil.rmtree(workdir, ignore_errors=True)


def stale_status(workdir, out_path):
    # a previous successful status must not survive a failing rerun
    with open(out_path.replace('.bam', '.status.txt'), 'w') as f:
        f.write('Reached end. All ok!\n')


def pipeline_scenarios():
    """Ordered dict: name -> (command, fault, pre)"""
    scenarios = {}

    def add(name, command, fault=None, pre=None):
        assert name not in scenarios
        scenarios[name] = (command, fault, pre)

    single = {
        'nla': f'{NLA} -method nla -o {{OUT}}',
        'nla_cs': f'{NLA} --allow_cycle_shift -method nla -o {{OUT}}',
        'nla_norej': f'{NLA} --no_rejects --allow_cycle_shift -method nla -skip_contig chr1,chrMT -o {{OUT}}',
        'nla_contig': f'{NLA} -method nla -contig chr1 -o {{OUT}}',
        'nla_nosource': f'{NLA} -method nla --no_source_reads -o {{OUT}}',
        'chic': f'{CHIC} -method chic -o {{OUT}}',
        'chic_contig': f'{CHIC} -method chic -contig 8 -o {{OUT}}',
        'chic_NESTED': f'{CHIC} -method chic -o {{OUT}}',
    }
    for name, command in single.items():
        add(f'B_{name}', command)
    for method, command in (('nla', single['nla']), ('chic', single['chic'])):
        for head in (0, 1, 2, 7, 100000):
            add(f'B_{method}_head{head}', command + f' -head {head}')
        faults = {
            'tags1': ('write_tags', nth(1), Injected),
            'tags2': ('write_tags', nth(2), Injected),
            'tags9': ('write_tags', nth(9), Injected),
            'tags_kbd': ('write_tags', nth(3), KeyboardInterrupt),
            'tags_exit': ('write_tags', nth(3), SystemExit),
            'pysam1': ('write_pysam', nth(1), Injected),
            'pysam8': ('write_pysam', nth(8), Injected),
            'pysam_oserror': ('write_pysam', nth(4), OSError),
            'rehead': ('add_readgroups_to_header', nth(1), Injected),
            'rehead_inner': ('replace_bam_header', nth(1), Injected),
            'rename': ('os.rename', nth(1), OSError),
            'sort1': ('pysam.sort', nth(1), Injected),
            'sort12': ('pysam.sort', nth(1, 2), Injected),
            'sort123': ('pysam.sort', nth(1, 2, 3), Injected),
            'sort_partial': ('pysam.sort', nth(1, 2, 3), Injected, write_garbage_at_sorted_path),
            'sort_kbd': ('pysam.sort', nth(1), KeyboardInterrupt),
            'sort_and_index': ('sort_and_index', nth(1), Injected),
            'index': ('pysam.index', nth(1), Injected),
            'remove': ('os.remove', nth(1), OSError),
            'status_open1': ('open', nth(1), OSError),
            'status_open2': ('open', nth(2), OSError),
            'status_write2': ('write_status', nth(2), Injected),
        }
        for fault_name, fault in faults.items():
            add(f'B_{method}_F_{fault_name}', command, fault)
        # fault during iteration combined with head
        add(f'B_{method}_F_tags_and_head', command + ' -head 3', ('write_tags', nth(4), Injected))
        add(f'B_{method}_F_tags_after_head', command + ' -head 1', ('write_tags', nth(30), Injected))

    add('B_stale_tags', single['chic'], ('write_tags', nth(2), Injected), stale_status)
    add('B_stale_sort', single['chic'], ('pysam.sort', nth(1, 2, 3), Injected), stale_status)
    add('B_stale_kbd', single['chic'], ('write_tags', nth(2), KeyboardInterrupt), stale_status)

    multi = {
        'chic': f'{CHIC} -contig 8 -method chic --multiprocess -tagthreads 1 -temp_folder {{TMP}} -o {{OUT}}',
        'nla': f'{NLA} --multiprocess --no_rejects --allow_cycle_shift -method nla -skip_contig chr1,chrMT -tagthreads 1 -temp_folder {{TMP}} -o {{OUT}}',
    }
    for method, command in multi.items():
        add(f'M_{method}', command)
        add(f'M_{method}_head', command + ' -head 1')
        add(f'M_{method}_onecontig', command + ' --one_contig_per_process')
        add(f'M_{method}_jobbed', command + ' -jobbed {WORK}/jobs.bed')
        add(f'M_{method}_notemp', command.replace('{TMP}', '{TMP}/does/not/exist'))
        faults = {
            'worker_tags1': ('write_tags', nth(1), Injected),
            'worker_tags3': ('write_tags', nth(3), Injected),
            'worker_pysam': ('write_pysam', nth(2), Injected),
            'worker_sort': ('pysam.sort', nth(1, 2, 3), Injected),
            'header_index': ('pysam.index', lambda n, a, k: a[0].endswith('_header.bam'), Injected),
            'final_index': ('pysam.index', lambda n, a, k: a[0].endswith('tagged.bam'), Injected),
            'merge_bams': ('merge_bams', nth(1), Injected),
            'merge_bams_kbd': ('merge_bams', nth(1), KeyboardInterrupt),
            'pysam_merge': ('pysam.merge', nth(1), Injected),
            'merge_remove': ('os.remove', lambda n, a, k: a[0].endswith('.bam'), OSError),
            'merge_remove_bai': ('os.remove', lambda n, a, k: a[0].endswith('.bai'), OSError),
            'rmtree': ('shutil.rmtree', nth(1), OSError),
            'rmtree_kbd': ('shutil.rmtree', nth(1), KeyboardInterrupt),
            'sleep': ('sleep', nth(1), Injected),
            'makedirs': ('os.makedirs', nth(1), OSError),
            'status_open1': ('open', nth(1), OSError),
            'status_open2': ('open', nth(2), OSError),
            'status_write2': ('write_status', nth(2), Injected),
        }
        for fault_name, fault in faults.items():
            add(f'M_{method}_F_{fault_name}', command, fault)
    add('M_stale_merge', multi['chic'], ('merge_bams', nth(1), Injected), stale_status)
    return scenarios


def run_isolated(name):
    """Multiprocess scenarios fork a worker pool; each gets a fresh interpreter"""
    import subprocess
    try:
        done = subprocess.run([sys.executable, os.path.abspath(__file__), '--scenario', name],
                              capture_output=True, text=True, timeout=600,
                              env=dict(os.environ, PYTHONPATH=REPO))
    except subprocess.TimeoutExpired:
        return name, 'TIMEOUT'
    for line in done.stdout.split('\n'):
        if line.startswith('RESULT '):
            _, result_name, value = line.split(' ')
            assert result_name == name
            return name, value
    return name, 'NO RESULT ' + done.stdout[-2000:] + done.stderr[-2000:]


def part_b():
    from concurrent.futures import ThreadPoolExecutor
    scenarios = pipeline_scenarios()
    isolated = []
    for name, (command, fault, pre) in scenarios.items():
        if name.startswith('M_'):
            isolated.append(name)
        else:
            scenario_pipeline(name, command, fault=fault, pre=pre)
    with ThreadPoolExecutor(4) as pool:
        for name, value in pool.map(run_isolated, isolated):
            RESULTS.append((name, value))
    return len(scenarios)


def main():
    if len(sys.argv) == 3 and sys.argv[1] == '--scenario':
        name = sys.argv[2]
        command, fault, pre = pipeline_scenarios()[name]
        try:
            scenario_pipeline(name, command, fault=fault, pre=pre)
        finally:
            shutil.rmtree(ROOT, ignore_errors=True)
        print(f'RESULT {RESULTS[-1][0]} {RESULTS[-1][1]}')
        sys.stdout.flush()
        os._exit(0)  # do not wait for left over pool workers
    total = 0
    try:
        total += part_a()
        total += part_a2()
        total += part_b()
    finally:
        shutil.rmtree(ROOT, ignore_errors=True)
    digest = hashlib.sha256()
    for name, value in RESULTS:
        digest.update(f'{name}:{value}\n'.encode())
    if os.environ.get('C20_PER_SCENARIO'):
        for name, value in RESULTS:
            print(name, value)
    successes = sum(1 for name, _ in RESULTS if name)
    print(f'scenarios: {total} recorded: {successes}')
    print(f'DIGEST {digest.hexdigest()}')


if __name__ == '__main__':
    main()
