#!/usr/bin/env python3
# Differential script for the barcodeFileParser refactoring (property C03).
# Builds its own barcode directories, runs many lookups / histories / faults
# and prints a sha256 digest over every observed output as the last line.
import gzip
import hashlib
import io
import itertools
import logging
import os
import random
import shutil
import sys
import tempfile
import contextlib

import singlecellmultiomics
from singlecellmultiomics.barcodeFileParser import barcodeFileParser as bfp

H = hashlib.sha256()
N_RECORDS = 0
TMP = tempfile.mkdtemp(prefix='c03demo_')


def rec(*items):
    global N_RECORDS
    N_RECORDS += 1
    text = repr(items).replace(TMP, '<TMP>')
    H.update(text.encode('utf-8'))
    H.update(b'\n')


class ListHandler(logging.Handler):
    def __init__(self):
        super().__init__(level=logging.DEBUG)
        self.lines = []

    def emit(self, record):
        self.lines.append((record.levelname, record.getMessage()))


LOG = ListHandler()
root_logger = logging.getLogger()
root_logger.addHandler(LOG)
root_logger.setLevel(logging.DEBUG)


def flush_log(tag):
    rec('log', tag, tuple(LOG.lines))
    LOG.lines.clear()


def call(tag, f, *a, **k):
    """Record result or exception type + message"""
    try:
        r = f(*a, **k)
        rec(tag, 'ok', r)
        return r
    except BaseException as e:  # noqa
        rec(tag, 'exc', type(e).__name__, str(e))
        return None


def state(tag, parser):
    rec(tag, 'barcodes', [(a, list(m.items())) for a, m in parser.barcodes.items()])
    rec(tag, 'extended', [(a, list(m.items())) for a, m in parser.extendedBarcodes.items()])
    rec(tag, 'pending', sorted(parser.pending_files.items()))
    rec(tag, 'mapping_is_barcodes', parser.getBarcodeMapping() is parser.barcodes)


def write_file(directory, name, lines, gz=False, newline='\n'):
    path = os.path.join(directory, name)
    data = ''.join(l + newline for l in lines)
    if gz:
        with gzip.open(path, 'wt') as f:
            f.write(data)
    else:
        with open(path, 'w') as f:
            f.write(data)
    return path


def newdir(name):
    d = os.path.join(TMP, name)
    os.makedirs(d)
    return d


def all_strings(length, alphabet='ACGTN'):
    return [''.join(t) for t in itertools.product(alphabet, repeat=length)]


def query_all(tag, parser, alias, queries):
    out = []
    for q in queries:
        try:
            out.append(parser.getIndexCorrectedBarcodeAndHammingDistance(q, alias))
        except BaseException as e:  # noqa
            out.append(('exc', type(e).__name__, str(e)))
    rec(tag, alias, out)


# ---------------------------------------------------------------------------
# 1. hamming_circle itself
# ---------------------------------------------------------------------------
for s in ['', 'A', 'N', 'ACGT', 'NNAN', 'AXCa', 'GGGGG', 'ACGTNA']:
    for n in range(0, 5):
        for alphabet in ['ACTGN', 'ACGTN', 'AC', 'A', 'NACGT', 'ACTGX', list('ACTGN'), tuple('TGCAN'), 'AACN']:
            call(('hc', s, n, repr(alphabet)), lambda: list(bfp.hamming_circle(s, n, alphabet)))
call('hc-empty-alphabet-0', lambda: list(bfp.hamming_circle('ACG', 0, '')))
call('hc-empty-alphabet-1', lambda: list(bfp.hamming_circle('ACG', 1, '')))
call('hc-list-input', lambda: list(bfp.hamming_circle(['A', 'C', 'G'], 2, 'ACTGN')))
call('hc-tuple-input', lambda: list(bfp.hamming_circle(('A', 'N'), 1, 'ACTGN')))
call('hc-int-input', lambda: list(bfp.hamming_circle(5, 1, 'ACTGN')))
call('hc-negative-n', lambda: list(bfp.hamming_circle('ACG', -1, 'ACTGN')))
g = bfp.hamming_circle(5, 1, 'ACTGN')  # lazy: nothing raised yet
rec('hc-lazy', type(g).__name__)
flush_log('hc')

# ---------------------------------------------------------------------------
# 2. Random short whitelists, every file layout, k = 0..2, exhaustive queries
# ---------------------------------------------------------------------------
rng = random.Random(20260928)


def random_whitelist(length, n, alphabet, near_dup):
    seen = []
    while len(seen) < n:
        if near_dup and seen and rng.random() < 0.5:
            base = list(rng.choice(seen))
            for _ in range(rng.choice([1, 1, 2])):
                base[rng.randrange(length)] = rng.choice(alphabet)
            bc = ''.join(base)
        else:
            bc = ''.join(rng.choice(alphabet) for _ in range(length))
        if bc not in seen:
            seen.append(bc)
    return seen


LAYOUTS = ['one_column', 'barcode_first_tab', 'barcode_first_space', 'index_first_tab',
           'index_first_named', 'index_first_space', 'zero_based_index_first', 'gz_barcode_first',
           'gz_one_column', 'crlf_barcode_first', 'padded_one_column']


def layout_lines(layout, whitelist):
    if layout in ('one_column', 'gz_one_column'):
        return list(whitelist)
    if layout == 'padded_one_column':
        return [(' ' + b + ' ') if i % 2 else (b + ' ') for i, b in enumerate(whitelist)]
    if layout in ('barcode_first_tab', 'gz_barcode_first', 'crlf_barcode_first'):
        return [f'{b}\t{i + 1}' for i, b in enumerate(whitelist)]
    if layout == 'barcode_first_space':
        return [f'{b} {i + 1}' for i, b in enumerate(whitelist)]
    if layout == 'index_first_tab':
        return [f'{i + 1}\t{b}' for i, b in enumerate(whitelist)]
    if layout == 'index_first_named':
        return [f'cell_{i:03d}\t{b}' for i, b in enumerate(whitelist)]
    if layout == 'index_first_space':
        return [f'{i + 5}  {b}' for i, b in enumerate(whitelist)]
    if layout == 'zero_based_index_first':
        return [f'{i:02d}\t{b}' for i, b in enumerate(whitelist)]
    raise ValueError(layout)


case = 0
for length in (1, 2, 3, 4, 5):
    for alphabet, near_dup in (('ACGT', False), ('ACGT', True), ('ACGTN', True)):
        for n in (1, 2, 5, 12):
            if n > len(alphabet) ** length:
                continue
            case += 1
            d = newdir(f'rand_{case}')
            whitelist = random_whitelist(length, n, alphabet, near_dup)
            aliases = []
            for j, layout in enumerate(rng.sample(LAYOUTS, 4)):
                gz = layout.startswith('gz_')
                name = f'wl{j}_{layout}.bc' + ('.gz' if gz else '')
                write_file(d, name, layout_lines(layout, whitelist), gz=gz,
                           newline='\r\n' if layout.startswith('crlf') else '\n')
                aliases.append(f'wl{j}_{layout}')
            queries = all_strings(length)
            for k in (0, 1, 2):
                for lazy in (None, '*', [aliases[0], aliases[2]]):
                    tag = ('rand', case, k, repr(lazy))
                    parser = bfp.BarcodeParser(d, hammingDistanceExpansion=k, lazyLoad=lazy)
                    state(tag + ('state0',), parser)
                    for alias in sorted(aliases):
                        rec(tag, 'count-before', alias, alias in parser.pending_files or parser.getTargetCount(alias))
                        query_all(tag, parser, alias, queries)
                        rec(tag, 'count-after', alias, parser.getTargetCount(alias))
                    # queries of a different length and unknown alias
                    query_all(tag + ('odd',), parser, aliases[0], ['', 'A' * (length + 1), 'acgtn'[:length]])
                    query_all(tag + ('unknown',), parser, 'no_such_alias', queries[:3])
                    rec(tag, 'getitem', [(a, None if parser[a] is None else list(parser[a].items())) for a in sorted(aliases) + ['nope']])
                    state(tag + ('state1',), parser)
            flush_log(('rand', case))

# ---------------------------------------------------------------------------
# 3. Planted ties / near ties / exact members / N-containing entries
# ---------------------------------------------------------------------------
d = newdir('planted')
write_file(d, 'pairs.bc', ['AAAA\t1', 'AAAT\t2', 'TTTT\t3', 'TTAA\t4', 'NNNN\t5', 'ANAA\t6', 'GGGC\t0'])
write_file(d, 'single.bc', ['ACGTAC'])
write_file(d, 'zero.bc', ['0\tAAC', '1\tAAG', '2\tCCC'])
for k in (0, 1, 2, 3):
    parser = bfp.BarcodeParser(d, hammingDistanceExpansion=k)
    state(('planted', k), parser)
    query_all(('planted', k), parser, 'pairs', all_strings(4))
    query_all(('planted', k), parser, 'zero', all_strings(3))
    query_all(('planted', k), parser, 'single', ['ACGTAC', 'ACGTAA', 'NCGTAN', 'NNGTAC', 'NNNTAC', 'TTTTTT'])
    # expanding twice / larger expansion afterwards on the same parser
    call(('planted', k, 'expand-again'), parser.expand, k, 'pairs')
    state(('planted', k, 'again'), parser)
    call(('planted', k, 'expand-more'), parser.expand, min(k + 1, 2), alias='zero', reportCollisions=False, spaceFill=True)
    state(('planted', k, 'more'), parser)
    call(('planted', k, 'expand-unknown'), parser.expand, 1, 'never_seen')
    call(('planted', k, 'expand-negative'), parser.expand, -1, 'pairs')
    state(('planted', k, 'end'), parser)
    buf = io.StringIO()
    with contextlib.redirect_stdout(buf):
        parser.list()
        parser.list(showBarcodes=2)
        parser.list(showBarcodes=None)
    rec(('planted', k, 'list'), buf.getvalue())
flush_log('planted')

# addBarcode API directly + expand on hand made aliases
parser = bfp.BarcodeParser(newdir('empty_dir'), hammingDistanceExpansion=2)
state('manual0', parser)
call('manual-add', parser.addBarcode, 'man', 'ACG', 7)
call('manual-add', parser.addBarcode, 'man', barcode='ACT', index='x')
call('manual-add-bad', parser.addBarcode, 'man', 'AAA', 1, hammingDistance=1)
call('manual-add-ext', parser.addBarcode, 'man', 'AAA', 1, hammingDistance=1, originBarcode='ACG')
state('manual1', parser)
call('manual-expand', parser.expand, 2, 'man')
state('manual2', parser)
query_all('manual', parser, 'man', all_strings(3))
flush_log('manual')

# ---------------------------------------------------------------------------
# 4. Odd files, faults and retries
# ---------------------------------------------------------------------------
d = newdir('faults')
write_file(d, 'empty.bc', [])
write_file(d, 'emptygz.bc.gz', [], gz=True)
open(os.path.join(d, 'zerobytes.bc.gz'), 'wb').close()
write_file(d, 'good.bc', ['ACG\t1', 'ACT\t2', 'TTT\t3'])
write_file(d, 'mixed.bc', ['ACG', 'TTT\t9', 'CCC'])
write_file(d, 'dup.bc', ['ACG\t1', 'ACG\t2', 'ACC\t3'])
for k in (0, 1, 2):
    for lazy in (None, '*'):
        parser = bfp.BarcodeParser(d, hammingDistanceExpansion=k, lazyLoad=lazy)
        state(('faults-ok', k, lazy), parser)
        for alias in ('empty', 'emptygz', 'zerobytes', 'good', 'mixed', 'dup'):
            query_all(('faults-ok', k, lazy), parser, alias, all_strings(3))
        state(('faults-ok', k, lazy, 'after'), parser)
        flush_log(('faults-ok', k, lazy))

write_file(d, 'threecol.bc', ['ACG\t1', 'ACT\t2', 'TTT\t3\textra', 'GGG\t4'])
write_file(d, 'blankline.bc', ['ACG\t1', '', 'TTT\t3'])
write_file(d, 'spacesline.bc', ['ACG', '   ', 'TTT'])
for k in (0, 1, 2):
    call(('faults-eager', k), lambda: bfp.BarcodeParser(d, hammingDistanceExpansion=k))
    flush_log(('faults-eager', k))
    parser = bfp.BarcodeParser(d, hammingDistanceExpansion=k, lazyLoad='*')
    for alias in ('threecol', 'blankline', 'spacesline'):
        for attempt in range(2):
            query_all(('faults-lazy', k, attempt), parser, alias, ['ACG', 'ACC', 'TTT', 'GGG', 'NNN'])
            state(('faults-lazy', k, alias, attempt), parser)
    # repair one of the files and retry
    good_lines = ['ACG\t1', 'ACT\t2', 'TTT\t3', 'GGG\t4']
    write_file(d, 'threecol.bc', good_lines)
    query_all(('faults-lazy-repaired', k), parser, 'threecol', all_strings(3))
    state(('faults-lazy-repaired', k), parser)
    write_file(d, 'threecol.bc', ['ACG\t1', 'ACT\t2', 'TTT\t3\textra', 'GGG\t4'])
    # missing file at lazy load time, then restored
    shutil.move(os.path.join(d, 'good.bc'), os.path.join(d, 'good.moved'))
    query_all(('faults-missing', k), parser, 'good', ['ACG', 'ACC'])
    call(('faults-missing-getitem', k), lambda: parser['good'])
    state(('faults-missing', k), parser)
    shutil.move(os.path.join(d, 'good.moved'), os.path.join(d, 'good.bc'))
    query_all(('faults-restored', k), parser, 'good', all_strings(3))
    call(('faults-restored-getitem', k), lambda: list(parser['good'].items()))
    # no lazy loading allowed
    call(('faults-norecursion', k), parser.getIndexCorrectedBarcodeAndHammingDistance, 'ACG', 'dup', try_lazy_load_pending=False)
    call(('faults-norecursion-loaded', k), parser.getIndexCorrectedBarcodeAndHammingDistance, 'ACC', 'good', False)
    call(('faults-pending-unknown', k), parser.parse_pending_barcode_file_of_alias, 'whatever')
    call(('faults-pending-twice', k), parser.parse_pending_barcode_file_of_alias, 'good')
    call(('faults-pending-dup', k), parser.parse_pending_barcode_file_of_alias, 'dup')
    state(('faults-end', k), parser)
    flush_log(('faults-lazy', k))
call('parse-missing-file', bfp.BarcodeParser(newdir('e2')).parse_barcode_file, os.path.join(d, 'does_not_exist.bc'))
call('parse-missing-gz', bfp.BarcodeParser(newdir('e3')).parse_barcode_file, os.path.join(d, 'does_not_exist.bc.gz'))
call('parse-not-gz', bfp.BarcodeParser(newdir('e4')).parse_barcode_file, write_file(d, 'fake.bc.gz', ['ACG']))
call('missing-dir', lambda: (lambda p: (dict(p.barcodes), p.getIndexCorrectedBarcodeAndHammingDistance('A', 'x')))(bfp.BarcodeParser(os.path.join(TMP, 'nodir'), 1)))
for p in ['a/b/foo.bc', 'foo.bc.gz', 'x.barcodes.tsv', 'plain', '/q/w.e.bc', 'a.gz.bc.gz']:
    rec('alias', p, bfp.BarcodeParser.path_to_barcode_alias(None, p))
flush_log('faults-misc')

# ---------------------------------------------------------------------------
# 5. Shipped whitelists, sampled queries
# ---------------------------------------------------------------------------
pkg = os.path.dirname(singlecellmultiomics.__file__)
for sub, aliases in (('modularDemultiplexer/barcodes', ['celseq2', 'celseq1', 'maya_384NLA', 'lennart96NLA', 'DamID2_8bp',
                                                         'DamID2_384_CelSeq2.barcodes', 'illumina_RP_indices', 'lk_virus1',
                                                         '10x_3M-february-2018']),
                     ('modularDemultiplexer/indices', ['illumina_i7_indices', 'illumina_merged_ThruPlex48S_RP',
                                                       'illumina_TruSeq_indices'])):
    for k in (0, 1, 2):
        if k == 2:
            aliases = [a for a in aliases if a not in ('DamID2_384_CelSeq2.barcodes',)]
        parser = bfp.BarcodeParser(os.path.join(pkg, sub), hammingDistanceExpansion=k, lazyLoad='*')
        rec('shipped', sub, k, sorted(os.path.basename(p) for p in parser.pending_files.values()))
        for alias in aliases:
            whitelist = list(parser[alias].keys()) if parser[alias] is not None else []
            rec('shipped', sub, k, alias, parser.getTargetCount(alias), whitelist[:5])
            queries = list(whitelist[:40])
            r2 = random.Random(f'{sub}/{alias}')
            for bc in whitelist[:120]:
                for nmut in (1, 2, 3):
                    m = list(bc)
                    for pos in r2.sample(range(len(bc)), min(nmut, len(bc))):
                        m[pos] = r2.choice('ACGTN')
                    queries.append(''.join(m))
            if whitelist:
                L = len(whitelist[0])
                queries += [''.join(r2.choice('ACGTN') for _ in range(L)) for _ in range(200)]
            query_all(('shipped', sub, k), parser, alias, queries)
            ext = parser.extendedBarcodes[alias]
            eh = hashlib.sha256(repr(list(ext.items())).encode()).hexdigest()
            rec('shipped-ext', sub, k, alias, len(ext), eh)
        flush_log(('shipped', sub, k))

shutil.rmtree(TMP, ignore_errors=True)
print(f'{N_RECORDS} records')
print(H.hexdigest())
