#!/usr/bin/env python3
# Differential script for C04 (read name encoding round trip).
# Prints a deterministic sha256 digest over all observed outputs as last line.
import hashlib
import random
import string
import sys
import tempfile
import os

import pysam

import singlecellmultiomics.modularDemultiplexer.baseDemultiplexMethods as bdm
from singlecellmultiomics.modularDemultiplexer.baseDemultiplexMethods import (
    TaggedRecord, TagDefinitions, NonMultiplexable, UmiBarcodeDemuxMethod,
    ScatteredUmiBarcodeDemuxMethod, IlluminaBaseDemultiplexer,
    phredToFastqHeaderSafeQualities, fastqHeaderSafeQualitiesToPhred)
from singlecellmultiomics.modularDemultiplexer.demultiplexModules.CELSeq2 import (
    CELSeq2_c8_u6, CELSeq2_c8_u6_NH)
from singlecellmultiomics.fastqProcessing.fastqIterator import FastqRecord, FastqIterator
from singlecellmultiomics.universalBamTagger.universalBamTagger import QueryNameFlagger

rng = random.Random(20240404)
sha = hashlib.sha256()
n_lines = 0
DUMP = open(os.environ['C04_DUMP'], 'w') if os.environ.get('C04_DUMP') else None


def emit(*parts):
    global n_lines
    line = '\t'.join(repr(p) for p in parts)
    sha.update(line.encode('utf-8', 'backslashreplace'))
    sha.update(b'\n')
    n_lines += 1
    if DUMP is not None:
        DUMP.write(line + '\n')


def attempt(f, *args, **kwargs):
    try:
        return ('ok', f(*args, **kwargs))
    except BaseException as e:  # noqa
        return ('exc', type(e).__name__, str(e))


# ---------------------------------------------------------------- A: phred
def section_phred():
    codepoints = list(range(0, 400)) + [0x3b1, 0x4e2d, 0x1f600, 0x10ffff]
    for rep in range(2):  # second pass runs on warm caches
        for method in (3, 0, 1):
            for cp in codepoints:
                emit('enc', rep, method, cp, attempt(
                    phredToFastqHeaderSafeQualities, chr(cp), method=method))
        for cp in codepoints:
            emit('dec', rep, cp, attempt(fastqHeaderSafeQualitiesToPhred, chr(cp)))
        for cp in range(33, 127):
            enc = phredToFastqHeaderSafeQualities(chr(cp))
            emit('rt', cp, enc, fastqHeaderSafeQualitiesToPhred(enc))
    # strings
    for i in range(200):
        n = rng.choice([0, 1, 2, 6, 8, 14, 40])
        q = ''.join(chr(rng.randint(33, 126)) for _ in range(n))
        e = phredToFastqHeaderSafeQualities(q)
        emit('encs', q, e, fastqHeaderSafeQualitiesToPhred(e), phredToFastqHeaderSafeQualities(q, method=0),
             phredToFastqHeaderSafeQualities(q, 1))
    # odd inputs
    for odd in ('', [], ['I', 'J'], ('!', '~'), ['ab'], [''], b'II', [1], [None], 'a b', 'a;b', 'a1', ['ab', 'c'],
                iter('IJK')):
        emit('odd-enc', attempt(phredToFastqHeaderSafeQualities, odd)[:2])
    for odd in ('', [], ['a', 'Z'], ['ab'], [''], b'ab', [1], [None], 'a b', 'a;b', 'a1', '!', ['yz', 'A'],
                iter('abc')):
        emit('odd-dec', attempt(fastqHeaderSafeQualitiesToPhred, odd)[:2])
    for odd in ('abc1', 'ab~', ' '):
        emit('odd-dec-msg', attempt(fastqHeaderSafeQualitiesToPhred, odd))


# ------------------------------------------------------- fake barcode files
class FakeParser:
    def __init__(self, mapping, extended=None):
        self.mapping = mapping
        self.extended = extended or {}

    def getIndexCorrectedBarcodeAndHammingDistance(self, barcode, alias, **kw):
        if barcode in self.mapping:
            return (self.mapping[barcode], barcode, 0)
        if barcode in self.extended:
            return self.extended[barcode]
        return (None, None, None)


def rand_seq(n, alphabet='ACGT'):
    return ''.join(rng.choice(alphabet) for _ in range(n))


def mutate(seq):
    i = rng.randrange(len(seq))
    return seq[:i] + rng.choice([b for b in 'ACGT' if b != seq[i]]) + seq[i + 1:]


barcodes = {}
while len(barcodes) < 24:
    b = rand_seq(8)
    if b not in barcodes:
        barcodes[b] = len(barcodes)   # zero-based cell index, includes 0
barcode_ext = {}
for b, i in list(barcodes.items()):
    m = mutate(b)
    if m not in barcodes and m not in barcode_ext:
        barcode_ext[m] = (i, b, 1)
barcode_parser = FakeParser(barcodes, barcode_ext)

indices = {}
while len(indices) < 8:
    b = rand_seq(8)
    if b not in indices:
        indices[b] = 'idx%d' % len(indices)
index_ext = {}
for b, i in list(indices.items()):
    m = mutate(b)
    if m not in indices:
        index_ext[m] = (i, b, 1)
dual = rand_seq(8) + '+' + rand_seq(8)
indices[dual] = 'dual0'
index_parser = FakeParser(indices, index_ext)

HEADER_SAFE = string.ascii_letters + string.digits + '-_+'


def strategies():
    s = [
        CELSeq2_c8_u6(barcodeFileParser=barcode_parser, indexFileParser=index_parser, indexFileAlias='x'),
        CELSeq2_c8_u6_NH(barcodeFileParser=barcode_parser, indexFileParser=index_parser, indexFileAlias='x'),
        CELSeq2_c8_u6_NH(barcodeFileParser=barcode_parser, indexFileParser=None, indexFileAlias=None),
        UmiBarcodeDemuxMethod(umiRead=0, umiStart=0, umiLength=0, barcodeRead=0, barcodeStart=0, barcodeLength=8,
                              barcodeFileParser=barcode_parser, barcodeFileAlias='bc', indexFileParser=index_parser,
                              indexFileAlias='x'),
        UmiBarcodeDemuxMethod(umiRead=0, umiStart=8, umiLength=3, barcodeRead=0, barcodeStart=0, barcodeLength=8,
                              barcodeFileParser=barcode_parser, barcodeFileAlias='bc', indexFileParser=index_parser,
                              indexFileAlias='x', random_primer_read=1, random_primer_length=6, random_primer_end=True),
        ScatteredUmiBarcodeDemuxMethod(
            barcode_slices=([slice(0, 4), slice(7, 11)], []), umi_slices=([slice(4, 7)], [slice(0, 2)]),
            capture_slices=(slice(11, None), slice(2, None)),
            barcodeFileParser=barcode_parser, barcodeFileAlias='bc', indexFileParser=index_parser, indexFileAlias='x'),
        ScatteredUmiBarcodeDemuxMethod(
            barcode_slices=([slice(0, 8)], []), umi_slices=([], []),
            capture_slices=(slice(8, None), slice(None)),
            barcodeFileParser=barcode_parser, barcodeFileAlias='bc', indexFileParser=index_parser, indexFileAlias='x'),
    ]
    s[3].shortName = 'BCONLY'
    s[4].shortName = 'BCUMI3'
    s[5].shortName = 'SCAT'
    s[6].shortName = 'SCATNOUMI'
    return s


def illumina_header(variant, index, mate):
    inst = rng.choice(['NS500413', 'M01', 'A00-12_x', 'NB+1'])
    run = str(rng.choice([0, 1, 32, 530]))
    fc = rng.choice(['H14TKBGXX', 'HXXXXXX', 'AAAA-BB', '0'])
    lane = str(rng.choice([0, 1, 2, 8]))
    tile = str(rng.choice([0, 11101, 2304]))
    x = str(rng.choice([0, 1, 16448, 99999]))
    y = str(rng.choice([0, 7, 1664, 123456]))
    base = f'@{inst}:{run}:{fc}:{lane}:{tile}:{x}:{y}'
    if variant == 'full':
        return f'{base} {mate}:N:0:{index}'
    if variant == 'noindex':
        return f'{base} {mate}:N:0::'
    if variant == 'filtered':
        return f'{base} {mate}:Y:18:{index}'
    if variant == 'short':
        return base
    if variant == 'numeric':
        return f'{base} {mate}:N:0:{rng.choice([0, 1, 7, 12])}'
    if variant == '3dec':
        return f'@Cluster_s_{lane}_{tile}_{mate}'
    if variant == 'junk':
        return rng.choice(['@foo', '@a:b:c', '@Cluster_x_1_2_3', '@', '@a b c', '@a:b:c:d:e:f:g:h'])
    raise KeyError(variant)


def make_pair(strategy_i):
    bc = rng.choice(list(barcodes) + list(barcode_ext) + [rand_seq(8)])
    r1_len = rng.choice([11, 14, 20, 40])
    r2_len = rng.choice([0, 2, 6, 8, 30])
    if strategy_i in (0, 1, 2):
        s1 = rand_seq(6, 'ACGTN') + bc + rand_seq(r1_len)
    elif strategy_i in (3, 4, 6):
        s1 = bc + rand_seq(r1_len, 'ACGTN')
    else:
        s1 = bc[:4] + rand_seq(3, 'ACGTN') + bc[4:] + rand_seq(r1_len)
    s2 = rand_seq(r2_len, 'ACGTN')

    def quals(n):
        mode = rng.randrange(4)
        if mode == 0:
            return ''.join(chr(rng.randint(33, 126)) for _ in range(n))
        if mode == 1:
            return ''.join(rng.choice('!~I#F,:') for _ in range(n))
        if mode == 2:
            return ''.join(chr(rng.randint(33, 84)) for _ in range(n))
        return rng.choice('!~TUS') * n

    return s1, quals(len(s1)), s2, quals(len(s2))


def dump_read(read):
    if read is None:
        return None
    return (read.query_name, read.get_tags(with_value_type=True))


def new_segment(name, seq, qual, is_r1=True):
    seg = pysam.AlignedSegment()
    seg.query_name = name
    seg.query_sequence = seq if seq else None
    if seq:
        seg.query_qualities = pysam.qualitystring_to_array(qual)
    seg.flag = (77 if is_r1 else 141)
    return seg


def section_roundtrip():
    strat = strategies()
    variants = ['full', 'noindex', 'filtered', 'short', 'numeric', '3dec', 'junk']
    for it in range(420):
        si = it % len(strat)
        st = strat[si]
        variant = variants[(it // len(strat)) % len(variants)] if it % 5 else rng.choice(variants)
        index = rng.choice(list(indices) + list(index_ext) + [rand_seq(8), 'N', ''])
        s1, q1, s2, q2 = make_pair(si)
        single = (it % 11 == 0)
        lib_len = rng.choice([0, 1, 5, 20, 60, 100])
        library = ''.join(rng.choice(HEADER_SAFE) for _ in range(lib_len))
        if it % 13 == 0:
            library = None
        records = [FastqRecord(illumina_header(variant, index, 1), s1, '+', q1)]
        if not single:
            # both mates share the coordinates in reality, but any accepted header is fine here
            records.append(FastqRecord(records[0].header.replace(' 1:', ' 2:'), s2, '+', q2))
        kwargs = {'library': library}
        if it % 17 == 0:
            kwargs['reason'] = 'some reason!'
        res = attempt(st.demultiplex, records, **kwargs)
        if res[0] != 'ok':
            emit('demux-fail', it, si, variant, res)
            continue
        tagged = res[1]
        emit('demux', it, si, variant, [sorted(tr.tags.items(), key=repr) for tr in tagged],
             [list(tr.tags) for tr in tagged])

        # boundary: pad the library so that the header becomes exactly 252..256 characters
        if it % 3 == 0 and library is not None:
            base_len = len(tagged[0].asFastq().split('\n')[0]) - 1 if attempt(tagged[0].asFastq)[0] == 'ok' else None
            if base_len is not None:
                target = rng.choice([252, 253, 254, 255, 256, 300])
                pad = target - base_len
                if pad > 0:
                    for tr in tagged:
                        tr.tags['LY'] = tr.tags['LY'] + 'L' * pad
        fastqs = [attempt(tr.asFastq) for tr in tagged]
        emit('asfastq', it, fastqs, [attempt(repr, tr) for tr in tagged])
        emit('asfastq-args', it, attempt(tagged[0].asFastq, 'ACGT', '-', 'IIII'))
        if any(f[0] != 'ok' for f in fastqs):
            continue
        emit('hdrlen', it, [len(f[1].split('\n')[0]) - 1 for f in fastqs])

        # to alignment and through the tagger
        reads = []
        for ri, f in enumerate(fastqs):
            hdr, seq, plus, qual = f[1].split('\n')[:4]
            reads.append(new_segment(hdr[1:], seq, qual, ri == 0))
        if single and it % 2:
            reads.append(None)
        flagger = QueryNameFlagger()
        emit('digest', it, attempt(flagger.digest, reads), [dump_read(r) for r in reads],
             sorted(flagger.assignedReadGroups))
        # a second digest must leave everything as it is (already tagged)
        emit('digest2', it, attempt(flagger.digest, reads), [dump_read(r) for r in reads],
             sorted(flagger.assignedReadGroups))

        # field by field comparison against what went in
        for ri, r in enumerate(reads):
            if r is None:
                continue
            t = dict(r.get_tags())
            src = tagged[ri].tags
            emit('fields', it, ri,
                 t.get('BC') == src.get('BC'), t.get('bc') == src.get('bc'), str(t.get('bi')) == str(src.get('bi')),
                 t.get('RX') == src.get('RX'),
                 t.get('RQ'), t.get('LY') == src.get('LY'), t.get('MX') == src.get('MX'), t.get('aa'), t.get('aA'),
                 t.get('SM'), t.get('MI'), t.get('QM'), t.get('RG'), r.query_name)

        # and back from the fastq file
        for f in fastqs:
            hdr, seq, plus, qual = f[1].split('\n')[:4]
            tr = TaggedRecord(TagDefinitions)
            emit('fromTaggedFastq', it, attempt(tr.fromTaggedFastq, FastqRecord(hdr, seq, plus, qual)),
                 list(tr.tags.items()))
            tr2 = TaggedRecord(TagDefinitions, rawRecord=FastqRecord(hdr, seq, plus, qual))
            emit('scmo-header', it, list(tr2.tags.items()), attempt(tr2.asFastq))


# ----------------------------------------------------- C: handcrafted names
def section_names():
    names = [
        'Is:NS5;RN:32;Fc:HXX;La:2;Ti:111;CX:16;CY:17;Fi:N;CN:0;aa:ACGT;aA:ACGT;aI:3;LY:lib;RX:ACG;RQ:abZ;bi:0;bc:AAAA;MX:CS2;BC:AAAT',
        'Is:NS5;RN:32;Fc:HXX;La:2;Ti:111;CX:16;CY:17;Fi:N;CN:0;aa:ACGT;aA:ACGA;aI:3;LY:lib;RX:ACG;RQ:abZ;BI:7;bc:AAAA;MX:CS2;BC:AAAT;QT:abcd',
        'Is:NS5;RN:32;Fc:HXX;La:2;Ti:111;CX:16;CY:17;Fi:N;CN:0;aa:ACGT;LY:lib;RX:ACG;RQ:abZ;bi:1;bc:AAAA;MX:CS2;BC:AAAT',
        'Is:NS5;RN:32;Fc:HXX;La:2;Ti:111;CX:16;CY:17;Fi:N;CN:0;aa:ACGT;LY:lib;RX:ACG;RQ:abZ;bc:AAAA;MX:CS2;BC:AAAT',
        'Is:NS5;RN:32;Fc:HXX;La:2;Ti:111;CX:16;CY:17;Fi:N;CN:0;aa:N;LY:lib',
        'Is:NS5;RN:32;Fc:HXX;La:2;Ti:111;CX:16;CY:17;aA:ACGT;RX:ACG;RQ:abZ;bi:5;BC:AAAT',
        'Is:NS5;RN:32;Fc:HXX;La:2;Ti:111;CX:16;CY:17;aA:ACGT;RX:ACG;RQ:abZ;BC:AAAT',
        'Is:NS5;RN:32;Fc:HXX;La:2;Ti:111;CX:16;CY:17;aA:ACGT;LY:l;RX:ACG;RQ:ab;BC:AAAT;QT:abcd',
        'Is:NS5;RN:32;Fc:HXX;La:2;Ti:111;CX:16;CY:17;aA:ACGT;LY:l;RX:ACG;RQ:ab1;BC:AAAT;QT:abcd',
        'Is:NS5;RN:32;Fc:HXX;La:2;Ti:111;CX:16;CY:17;aA:ACGT;LY:l;RX:ACG;BC:AAAT;QT:abcd',
        'Is:NS5;RN:32;Fc:HXX;La:2;Ti:111;CX:16;CY:17;LY:l;MI:AAAA;QM:ab;BC:AAAT',
        'Is:NS5;RN:32;Fc:HXX;La:2;Ti:111;CX:16;CY:17;aA:AC;LY:l;MI:AAAA;QM:ab;BC:AAAT;QT:zzzz',
        'Is:NS5;RN:32;Fc:HXX;La:2;Ti:111;CX:16;CY:17;aA:;LY:l;BC:;QT:',
        'Is:a b;RN:3!2;Fc:H.X;La:2;Ti:111;CX:16;CY:17;LY:l*b;bi:03',
        'RN:32;Fc:HXX;La:2;Ti:111;CX:16;CY:17;LY:l',
        'Is:NS5;RN:32;Fc:HXX;La:2;Ti:111;CX:16;CY:17;LY:l;xx:a:b;bi:4',
        'Is:NS5;RN:32;Fc:HXX;LY:l;novalue;bi:4',
        'NB501:530:HXXXXXX:2:2:17:6;SS:GTCATTAG;CB:GTCATTAG;QT:eeeeeeee;RX:CTGAAC;RQ:aaaaae;SM:SAMPLE_NAME',
        'NB501:530:HXXXXXX:2:2:17:6;SS:GTCATTAG;CB:GTCATTAG;BC:GTCATTAG;QT:eeeeeeee;RX:CTGAAC;RQ:aaaaae;LY:scd;bi:12',
        'NB501:530:HXXXXXX:2:2:17:6 1:N:0:ACGT;BC:GTCATTAG;RX:CTGAAC;RQ:aaaaae;LY:scd;bi:12',
        'NB501:530:HXXXXXX:2:2:17:6;BC:GT:CA',
        'NB501:530:HXXXXXX:2:2:17:6',
        'NB501:530;BC:GTCA',
        'plainname',
        ' Is:NS5;RN:32;Fc:HXX;La:2;Ti:111;CX:16;CY:17;LY:l;bi:1 ',
        'UMI:ACGT;old',
        '',
        ';',
        ':',
    ]
    for ni, name in enumerate(names):
        for with_sm in (False, True):
            seg = attempt(new_segment, name, 'ACGT', 'IIII')
            if seg[0] != 'ok':
                emit('name-seg-fail', ni, seg[:2])
                continue
            seg = seg[1]
            if with_sm:
                seg.set_tag('SM', 'present')
            flagger = QueryNameFlagger()
            emit('name', ni, with_sm, attempt(flagger.digest, [None, seg]), dump_read(seg),
                 sorted(flagger.assignedReadGroups))
        # the record itself, to observe partial side effects
        tr = TaggedRecord(TagDefinitions)
        seg = pysam.AlignedSegment()
        seg.query_name = name if name else None
        emit('name-tr', ni, attempt(tr.fromTaggedBamRecord, seg), list(tr.tags.items()))
        emit('name-hdr', ni, attempt(tr.asIlluminaHeader))
        seg2 = pysam.AlignedSegment()
        emit('name-tag', ni, attempt(tr.tagPysamRead, seg2), list(tr.tags.items()), seg2.get_tags(with_value_type=True))
        # tagging twice (history)
        emit('name-tag2', ni, attempt(tr.tagPysamRead, seg2), list(tr.tags.items()),
             seg2.get_tags(with_value_type=True))

    flagger = QueryNameFlagger()
    emit('empty', attempt(flagger.digest, []), attempt(flagger.digest, [None, None]),
         sorted(flagger.assignedReadGroups))

    # direct manipulation of the record
    tr = TaggedRecord(TagDefinitions, library='LIB', reason='r')
    emit('direct0', attempt(tr.asFastq), attempt(tr.asFastq, 'A', '+', 'I'), list(tr.tags.items()))
    tr.tags['aA'] = None
    tr.tags['BC'] = 'ACGT'
    seg = pysam.AlignedSegment()
    emit('direct1', attempt(tr.tagPysamRead, seg), [(k, v) for k, v in tr.tags.items()])
    tr = TaggedRecord(TagDefinitions)
    tr.tags.update({'BC': 5, 'aA': 'AC'})
    emit('direct2', attempt(tr.tagPysamRead, pysam.AlignedSegment())[:2], list(tr.tags.items()))
    tr = TaggedRecord(TagDefinitions)
    tr.tags.update({'zz': 'unknown'})
    emit('direct3', attempt(tr.asFastq, 'A', '+', 'I')[:2])
    for n in (253, 254, 255):
        tr = TaggedRecord(TagDefinitions)
        tr.tags['LY'] = 'x' * (n - 3)
        tr.tags['RP'] = 'notwritten'
        emit('direct-len', n, attempt(tr.asFastq, 'A', '+', 'I'))
    # addTagByTag variants
    tr = TaggedRecord(TagDefinitions)
    for args, kw in [(('RQ', 'II~!'), {}), (('RQ', 'abZ'), {'decodePhred': True}), (('QT', 'I' * 3), {'isPhred': True}),
                     (('LY', 'a b;c:d'), {}), (('LY', 'a b;c:d'), {'make_safe': False}), (('ah', '3'), {'cast_type': int}),
                     (('bi', 7), {}), (('zz', 'q'), {}), (('RQ', 'a1'), {'decodePhred': True})]:
        emit('addTag', args, kw, attempt(tr.addTagByTag, *args, **kw), list(tr.tags.items()))


# ------------------------------------------- D: files on disk, full pipeline
def section_files():
    with tempfile.TemporaryDirectory() as tmp:
        r1p, r2p = os.path.join(tmp, 'R1.fastq'), os.path.join(tmp, 'R2.fastq')
        st = CELSeq2_c8_u6(barcodeFileParser=barcode_parser, indexFileParser=index_parser, indexFileAlias='x')
        with open(r1p, 'w') as h1, open(r2p, 'w') as h2:
            for i in range(60):
                s1, q1, s2, q2 = make_pair(0)
                s2 = s2 + rand_seq(8)
                q2 = q2 + 'I' * 8
                idx = rng.choice(list(indices))
                hdr = illumina_header('full', idx, 1)
                h1.write(f'{hdr}\n{s1}\n+\n{q1}\n')
                h2.write(f'{hdr.replace(" 1:", " 2:")}\n{s2}\n+\n{q2}\n')
        out = os.path.join(tmp, 'out.sam')
        header = pysam.AlignmentHeader.from_dict({'HD': {'VN': '1.6'}, 'SQ': [{'SN': 'chr1', 'LN': 1000}]})
        n = 0
        with pysam.AlignmentFile(out, 'w', header=header) as o:
            for records in FastqIterator(r1p, r2p):
                res = attempt(st.demultiplex, records, library='file_lib')
                if res[0] != 'ok':
                    emit('file-fail', res)
                    continue
                segs = []
                for ri, tr in enumerate(res[1]):
                    hdr, seq, plus, qual = tr.asFastq().split('\n')[:4]
                    seg = pysam.AlignedSegment(header)
                    seg.query_name = hdr[1:]
                    seg.query_sequence = seq
                    seg.query_qualities = pysam.qualitystring_to_array(qual)
                    seg.flag = 77 if ri == 0 else 141
                    segs.append(seg)
                fl = QueryNameFlagger()
                fl.digest(segs)
                for seg in segs:
                    o.write(seg)
                    n += 1
        with open(out) as h:
            for line in h:
                if not line.startswith('@PG'):
                    emit('sam', line)
        emit('nwritten', n)


section_phred()
section_roundtrip()
section_names()
section_files()
section_phred()  # once more, after everything else ran
print('lines', n_lines, file=sys.stderr)
print(sha.hexdigest())
