#!/usr/bin/env python
"""Differential script for the consensus code path (fragment / molecule consensus).

Builds a few hundred random molecules (paired, single-end, dove-tailed, with N calls,
quality ties between mates, indels, soft clips, IUPAC bases, missing MD tags, missing
qualities) and prints a sha256 digest over every output of
  pick_best_base_call, read_to_consensus_dict, get_consensus_dictionaries,
  Fragment.get_consensus and Molecule.get_consensus
The last line printed is the digest.
"""
import os
import sys

if os.environ.get('PYTHONHASHSEED') != '0':
    # dictionary / set iteration orders are part of the digest, pin the string hashing
    os.environ['PYTHONHASHSEED'] = '0'
    os.execv(sys.executable, [sys.executable] + sys.argv)

import hashlib
import itertools
import random
import tempfile

import numpy as np
import pysam

from singlecellmultiomics.fragment import Fragment
from singlecellmultiomics.molecule import Molecule
from singlecellmultiomics.utils.sequtils import (
    pick_best_base_call, read_to_consensus_dict, get_consensus_dictionaries)

rng = random.Random(1313)
digest = hashlib.sha256()
n_records = 0
stats = {}


def emit(*parts):
    global n_records
    n_records += 1
    if len(parts) > 1 and isinstance(parts[0], tuple) and parts[1] in ('OK', 'EXC'):
        key = (parts[0][0], parts[1]) + ((parts[2],) if parts[1] == 'EXC' else ())
        stats[key] = stats.get(key, 0) + 1
    digest.update(('\x1f'.join(repr(p) for p in parts) + '\n').encode())


def attempt(label, function, render):
    try:
        result = function()
    except Exception as e:  # exception type and message are part of the behaviour
        emit(label, 'EXC', type(e).__name__, str(e))
        return None
    emit(label, 'OK', render(result))
    return result


def norm(x):
    """Turn any result in something with a stable repr"""
    if isinstance(x, dict):
        return ('dict', type(x).__name__, [(norm(k), norm(v)) for k, v in x.items()])
    if isinstance(x, (list, tuple)):
        return (type(x).__name__, [norm(v) for v in x])
    if isinstance(x, np.ndarray):
        return ('nd', str(x.dtype), x.tolist())
    if isinstance(x, (np.integer,)):
        return ('npint', int(x))
    if isinstance(x, (np.floating,)):
        return ('npfloat', float(x))
    if isinstance(x, (np.bool_,)):
        return ('npbool', bool(x))
    return (type(x).__name__, x)


# ---------------------------------------------------------------- reference
CONTIGS = {'chr1': 400, 'chrB': 300}
reference = {c: ''.join(rng.choice('ACGT') for _ in range(l)) for c, l in CONTIGS.items()}
# sprinkle some lower-case / N bases into the reference
for c in reference:
    s = list(reference[c])
    for i in rng.sample(range(len(s)), 25):
        s[i] = rng.choice(['N', s[i].lower()])
    reference[c] = ''.join(s)

header = pysam.AlignmentHeader.from_dict({
    'HD': {'VN': '1.6', 'SO': 'unsorted'},
    'SQ': [{'SN': c, 'LN': l} for c, l in CONTIGS.items()]})

tmpdir = tempfile.mkdtemp(prefix='pC13_demo_')


def make_read(name, contig, start, length, is_reverse, is_read1, paired=True, mismatch_rate=0.05,
              n_rate=0.03, indels=False, softclip=False, iupac=False, with_md=True, with_quals=True,
              qual_choices=(2, 10, 20, 30, 30, 37, 37, 40), template=None):
    """Create an aligned segment; returns (read, {refpos:(base,qual)})"""
    ref = reference[contig]
    ops = []  # list of (op, len)
    query = []
    md = []
    match_run = 0
    refpos = start
    remaining = length
    calls = {}
    if softclip and rng.random() < 0.5:
        n = rng.randint(1, 4)
        ops.append((4, n))
        query.extend(rng.choice('ACGT') for _ in range(n))
    first = True
    while remaining > 0 and refpos < len(ref) - 1:
        r = rng.random()
        if indels and not first and r < 0.04 and remaining > 2:
            n = rng.randint(1, 3)
            ops.append((1, n))
            query.extend(rng.choice('ACGT') for _ in range(n))
            remaining -= n
            first = True  # an insertion must be followed by a match
            continue
        if indels and not first and r < 0.08 and refpos + 4 < len(ref):
            n = rng.randint(1, 3)
            ops.append((2, n))
            md.append(str(match_run))
            match_run = 0
            md.append('^' + ref[refpos:refpos + n].upper())
            refpos += n
            first = True
            continue
        first = False
        refbase = ref[refpos]
        if template is not None and refpos in template and rng.random() < 0.9:
            base = template[refpos]
        elif rng.random() < n_rate:
            base = 'N'
        elif rng.random() < mismatch_rate:
            base = rng.choice([b for b in 'ACGT' if b != refbase.upper()])
        elif iupac and rng.random() < 0.05:
            base = rng.choice('RYKM')
        else:
            base = refbase.upper() if refbase.upper() in 'ACGT' else rng.choice('ACGT')
        if ops and ops[-1][0] == 0:
            ops[-1] = (0, ops[-1][1] + 1)
        else:
            ops.append((0, 1))
        if base == refbase.upper():
            match_run += 1
        else:
            md.append(str(match_run))
            match_run = 0
            md.append(refbase.upper())
        calls[refpos] = base
        query.append(base)
        refpos += 1
        remaining -= 1
    md.append(str(match_run))
    if softclip and rng.random() < 0.5:
        n = rng.randint(1, 4)
        ops.append((4, n))
        query.extend(rng.choice('ACGT') for _ in range(n))

    read = pysam.AlignedSegment(header)
    read.query_name = name
    read.reference_name = contig
    read.reference_start = start
    read.query_sequence = ''.join(query)
    if with_quals:
        read.query_qualities = pysam.qualitystring_to_array(
            ''.join(chr(33 + rng.choice(qual_choices)) for _ in query))
    read.cigartuples = ops
    read.mapping_quality = 60
    flag_paired = paired
    read.is_paired = flag_paired
    read.is_reverse = is_reverse
    if paired:
        read.is_read1 = is_read1
        read.is_read2 = not is_read1
        read.is_proper_pair = True
        read.mate_is_reverse = not is_reverse
    else:
        read.is_read1 = True
    if with_md:
        read.set_tag('MD', ''.join(md))
    read.set_tag('SM', 'cell_1')
    read.set_tag('RX', 'ACG')
    read.set_tag('MX', 'NLA')
    return read, calls


def make_pair(name, contig, start, kind, **kwargs):
    """kind: inward / dove / outward-same / single / r2only"""
    l1 = rng.randint(12, 40)
    l2 = rng.randint(12, 40)
    r1_reverse = rng.random() < 0.5
    if kind == 'single':
        r1, _ = make_read(name, contig, start, l1, r1_reverse, True, paired=False, **kwargs)
        return [r1] if rng.random() < 0.04 else [r1, None]
    if kind == 'same_strand':
        r1, c = make_read(name, contig, start, l1, r1_reverse, True, **kwargs)
        r2, _ = make_read(name, contig, start + rng.randint(0, 10), l2, r1_reverse, False, template=c, **kwargs)
        r2.mate_is_reverse = r1_reverse
        r1.mate_is_reverse = r1_reverse
        return [r1, r2]
    gap = rng.randint(-30, 12)  # negative: overlap between the mates
    if kind == 'dove':
        # the reverse mate starts before the forward mate
        fw_start = start + rng.randint(3, 10)
        rv_start = start
    else:
        fw_start = start
        rv_start = max(0, start + l1 + gap) if gap >= 0 else max(0, start + max(0, l1 + gap))
    share_quals = rng.random() < 0.35  # provoke quality ties between mates
    kw = dict(kwargs)
    if share_quals:
        kw['qual_choices'] = (30,)
    if r1_reverse:
        r1, c = make_read(name, contig, rv_start, l1, True, True, **kw)
        r2, _ = make_read(name, contig, fw_start, l2, False, False, template=c, **kw)
    else:
        r1, c = make_read(name, contig, fw_start, l1, False, True, **kw)
        r2, _ = make_read(name, contig, rv_start, l2, True, False, template=c, **kw)
    if kind == 'r2only':
        return [None, r2]
    return [r1, r2]


def render_plain(x):
    return norm(x)


def render_molecule_result(result):
    if isinstance(result, tuple):
        consensus, phreds, obs = result
        if obs is not None:
            stats[('positions observed',)] = stats.get(('positions observed',), 0) + len(obs)
            stats[('positions called',)] = stats.get(('positions called',), 0) + len(consensus)
            stats[('positions tied',)] = stats.get(('positions tied',), 0) + sum(
                1 for k, v in obs.items() if (v == v.max()).sum() > 1)
        return (norm(consensus),
                None if phreds is None else (type(phreds).__name__,
                                             [(k, type(v).__name__, [(b, list(q)) for b, q in v.items()]) for k, v in phreds.items()]),
                None if obs is None else (type(obs).__name__, [(k, norm(v)) for k, v in obs.items()]))
    return norm(result)


# ---------------------------------------------------------------- 1. pick_best_base_call
quals = [-3, -1, 0, 1, 2, 30, 30.0, 37, 0.5]
bases = ['A', 'C', 'N', 'a']
pool = [None] + [(b, q) for b in bases for q in quals] + [('G', 30, 'g'), ('T', 30, 'T')]
emit('pick', 'empty', norm(pick_best_base_call()))
for a in pool:
    attempt(('pick1', a), lambda: pick_best_base_call(a), render_plain)
for a, b in itertools.product(pool, repeat=2):
    attempt(('pick2', a, b), lambda: pick_best_base_call(a, b), render_plain)
for _ in range(400):
    calls = [rng.choice(pool) for _ in range(rng.randint(3, 6))]
    attempt(('pickn', calls), lambda: pick_best_base_call(*calls), render_plain)

# ---------------------------------------------------------------- 2. reads / fragments / molecules
KW_VARIANTS = [
    {},
    {'min_phred_score': 20},
    {'min_phred_score': 30},
    {'min_phred_score': 0},
    {'skip_first_n_cycles_R1': 3},
    {'skip_last_n_cycles_R1': 4},
    {'skip_first_n_cycles_R2': 2},
    {'skip_last_n_cycles_R2': 5},
    {'skip_first_n_cycles_R1': 0, 'skip_last_n_cycles_R1': 0, 'skip_last_n_cycles_R2': 0},
    {'skip_first_n_cycles_R1': 2, 'skip_last_n_cycles_R1': 3, 'skip_first_n_cycles_R2': 4, 'skip_last_n_cycles_R2': 1, 'min_phred_score': 10},
    {'dove_R1_distance': 2, 'dove_R2_distance': 3},
    {'dove_R1_distance': 0, 'dove_R2_distance': 40},
    {'bogus_argument': 1},
]

all_fragments = []
n_molecules = 260
for m_index in range(n_molecules):
    contig = rng.choice(list(CONTIGS))
    anchor = rng.randint(5, CONTIGS[contig] - 120)
    n_fragments = rng.randint(1, 12)
    style = rng.random()
    read_kwargs = dict(
        indels=rng.random() < 0.3,
        softclip=rng.random() < 0.3,
        iupac=rng.random() < 0.12,
        mismatch_rate=rng.choice([0.0, 0.05, 0.3]),
        n_rate=rng.choice([0.0, 0.03, 0.4]))
    fragments = []
    for f_index in range(n_fragments):
        r = rng.random()
        if style < 0.1:
            kind = 'single'
        elif r < 0.55:
            kind = 'inward'
        elif r < 0.70:
            kind = 'dove'
        elif r < 0.82:
            kind = 'single'
        elif r < 0.90:
            kind = 'same_strand'
        else:
            kind = 'r2only'
        kw = dict(read_kwargs)
        if rng.random() < 0.04:
            kw['with_md'] = False
        if rng.random() < 0.02:
            kw['with_quals'] = False
        f_contig = contig if rng.random() < 0.95 else rng.choice(list(CONTIGS))
        reads = make_pair(f'm{m_index}_f{f_index}', f_contig, anchor + rng.randint(-4, 4), kind, **kw)
        fragment = attempt(('fragment_init', m_index, f_index, kind),
                           lambda: Fragment(reads, single_end=(kind == 'single' and len(reads) == 1)),
                           lambda f: (f.has_R1(), f.has_R2()))
        if fragment is not None:
            fragments.append(fragment)
    if not fragments:
        continue
    all_fragments.extend(fragments)

    # --- reads and fragments
    for f_index, fragment in enumerate(fragments[:4]):
        R1 = fragment.reads[0] if len(fragment.reads) > 0 else None
        R2 = fragment.reads[1] if len(fragment.reads) > 1 else None
        for read in (R1, R2):
            for args in ({}, {'start': anchor + 3, 'end': anchor + 20}, {'start': anchor + 10},
                         {'end': anchor + 10}, {'only_include_refbase': 'C'}, {'min_phred_score': 30},
                         {'skip_first_n_cycles': 3}, {'skip_last_n_cycles': 3},
                         {'skip_first_n_cycles': 0, 'skip_last_n_cycles': 50},
                         {'start': anchor + 30, 'end': anchor + 2}):
                attempt(('rtc', m_index, f_index, sorted(args.items())),
                        lambda: read_to_consensus_dict(read, **args), render_plain)
        kw = rng.choice(KW_VARIANTS)
        for dove_safe in (False, True):
            for refbase in (None, 'C', 'G', 'N'):
                attempt(('gcd', m_index, f_index, dove_safe, refbase, sorted(kw.items())),
                        lambda: get_consensus_dictionaries(R1, R2, only_include_refbase=refbase, dove_safe=dove_safe, **kw)
                        if R1 is not None or R2 is not None else None, render_plain)
                if len(fragment.reads) > 1:
                    attempt(('frag_cons', m_index, f_index, dove_safe, refbase, sorted(kw.items())),
                            lambda: fragment.get_consensus(only_include_refbase=refbase, dove_safe=dove_safe, **kw),
                            render_plain)

    # --- molecule, in several insertion orders and duplicated
    orders = [list(fragments), list(reversed(fragments))]
    for _ in range(2):
        shuffled = list(fragments)
        rng.shuffle(shuffled)
        orders.append(shuffled)
    orders.append(list(fragments) + list(fragments))
    kws = [{}] + rng.sample(KW_VARIANTS, 3)
    for o_index, order in enumerate(orders):
        molecule = Molecule()
        for fragment in order:
            molecule._add_fragment(fragment)
        for dove_safe in (False, True):
            for with_probs in (False, True):
                for kw in kws:
                    refbase = rng.choice([None, None, 'C', 'G'])
                    attempt(('mol_cons', m_index, o_index, dove_safe, with_probs, refbase, sorted(kw.items())),
                            lambda: molecule.get_consensus(dove_safe=dove_safe, only_include_refbase=refbase,
                                                           with_probs_and_obs=with_probs, **kw),
                            render_molecule_result)
        attempt(('mol_cons_allowN', m_index, o_index), lambda: molecule.get_consensus(allow_N=True), render_plain)

# ---------------------------------------------------------------- 3. corner cases
empty = Molecule()
attempt(('empty_molecule',), lambda: empty.get_consensus(), render_plain)
attempt(('empty_molecule_probs',), lambda: empty.get_consensus(with_probs_and_obs=True), render_molecule_result)
attempt(('empty_molecule_bogus',), lambda: empty.get_consensus(bogus=1), render_plain)
attempt(('rtc_none',), lambda: read_to_consensus_dict(None, 1, 2, min_phred_score=3), render_plain)
attempt(('gcd_none_none',), lambda: get_consensus_dictionaries(None, None), render_plain)
attempt(('gcd_none_none_dove',), lambda: get_consensus_dictionaries(None, None, dove_safe=True), render_plain)

# exact two-fragment ties, three-fragment majorities and N-only positions on a fixed window
for case in range(60):
    contig = 'chr1'
    start = 50 + case
    fragments = []
    n = rng.choice([2, 2, 3, 4, 6])
    for i in range(n):
        r1, _ = make_read(f'tie{case}_{i}', contig, start, 10, False, True, paired=False,
                          mismatch_rate=rng.choice([0.0, 0.5, 1.0]), n_rate=rng.choice([0.0, 0.5, 1.0]))
        fragments.append(Fragment([r1, None], single_end=rng.random() < 0.5))
    for order in (fragments, fragments[::-1], fragments + fragments):
        molecule = Molecule()
        for fragment in order:
            molecule._add_fragment(fragment)
        attempt(('tie_case', case, len(order)), lambda: molecule.get_consensus(), render_plain)
        attempt(('tie_case_probs', case, len(order)), lambda: molecule.get_consensus(with_probs_and_obs=True),
                render_molecule_result)

for key in sorted(stats):
    print('  ', *key, stats[key])
print(f'{n_records} records')
print(digest.hexdigest())
