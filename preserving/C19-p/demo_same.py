#!/usr/bin/env python3
"""Differential driver for HandleLimiter / FastqHandle.

Runs a few hundred randomised (fixed seed) write histories with injected
open() faults, fake clocks with ties, extreme maxHandles / pruneEvery values
and failing close() calls. Everything observable (open calls, exceptions,
terminal output, internal public state, resulting files) goes into one sha256.
"""
import builtins
import contextlib
import errno
import gzip as real_gzip
import hashlib
import io
import os
import random
import shutil
import sys
import tempfile
import zlib

import singlecellmultiomics.pyutils.handlelimiter as hl
from singlecellmultiomics.pyutils.handlelimiter import HandleLimiter
import singlecellmultiomics.fastqProcessing.fastqHandle as fh

DIGEST = hashlib.sha256()
N_SCENARIOS = 0


def emit(*parts):
    DIGEST.update(repr(parts).encode())
    DIGEST.update(b'\n')


class FakeClock:
    """time module stand-in; coarse ticks so that lastw ties happen"""

    def __init__(self, granularity):
        self.n = 0
        self.granularity = granularity

    def time(self):
        self.n += 1
        return self.n // self.granularity


class BadCloseHandle:
    """Proxy of which close() closes the file and then raises"""

    def __init__(self, real, exc):
        self._real = real
        self._exc = exc

    def write(self, data):
        return self._real.write(data)

    @property
    def closed(self):
        return self._real.closed

    def close(self):
        self._real.close()
        raise self._exc


class Injector:
    """Replaces open and gzip.open inside the handlelimiter module"""

    def __init__(self, root, log, emfile_k=None, fail_calls=(), dead_paths=(),
                 bad_close=None):
        self.root = root
        self.log = log
        self.emfile_k = emfile_k
        self.fail_calls = set(fail_calls)
        self.dead_paths = set(dead_paths)
        self.bad_close = bad_close or {}  # call index -> exception
        self.calls = 0
        self.handed_out = []

    def n_open(self):
        return sum(1 for h in self.handed_out if not h.closed)

    def _gate(self, kind, path, args, kwargs):
        self.calls += 1
        name = os.path.basename(path)
        n_open = self.n_open()
        self.log.append(('open', kind, name, args, sorted(kwargs.items()), n_open))
        if name in self.dead_paths:
            self.log.append(('fail', 'dead'))
            raise PermissionError(errno.EACCES, 'injected permanent failure', name)
        if self.calls in self.fail_calls:
            self.log.append(('fail', 'transient'))
            raise OSError(errno.EIO, 'injected transient failure', name)
        if self.emfile_k is not None and n_open >= self.emfile_k:
            self.log.append(('fail', 'emfile'))
            raise OSError(errno.EMFILE, 'Too many open files', name)

    def _hand_out(self, handle):
        exc = self.bad_close.get(self.calls)
        if exc is not None:
            handle = BadCloseHandle(handle, exc)
        self.handed_out.append(handle)
        return handle

    def open(self, path, *args, **kwargs):
        self._gate('plain', path, args, kwargs)
        return self._hand_out(builtins.open(path, *args, **kwargs))

    def gzip_open(self, path, *args, **kwargs):
        self._gate('gzip', path, args, kwargs)
        return self._hand_out(real_gzip.open(path, *args, **kwargs))


class GzipProxy:
    def __init__(self, injector):
        self.open = injector.gzip_open


@contextlib.contextmanager
def patched(injector, clock):
    old_gzip, old_time = hl.gzip, hl.time
    had_open = 'open' in hl.__dict__
    old_open = hl.__dict__.get('open')
    hl.gzip = GzipProxy(injector)
    hl.time = clock
    hl.open = injector.open
    try:
        yield
    finally:
        hl.gzip, hl.time = old_gzip, old_time
        if had_open:
            hl.open = old_open
        else:
            del hl.open


def gzip_members(raw):
    """Decompress all members, return (n_members, data) or an error marker"""
    n, out = 0, b''
    try:
        while raw:
            d = zlib.decompressobj(16 + zlib.MAX_WBITS)
            out += d.decompress(raw) + d.flush()
            if not d.eof:
                return ('truncated', n, out)
            raw = d.unused_data
            n += 1
    except zlib.error as e:
        return ('corrupt', n, out)
    return (n, out)


def snapshot_dir(root):
    res = []
    for name in sorted(os.listdir(root)):
        raw = open(os.path.join(root, name), 'rb').read()
        if name.endswith('.gz'):
            res.append((name, gzip_members(raw)))
        else:
            res.append((name, raw))
    return res


def state_of(limiter, root):
    entries = []
    for path, entry in limiter.openHandles.items():
        h = entry.get('handle')
        entries.append((os.path.basename(path), sorted(entry.keys()),
                        entry.get('lastw'), None if h is None else bool(h.closed)))
    return (entries, sorted(os.path.basename(p) for p in limiter.seen),
            limiter.pruneIntervalCounter)


def run_limiter_scenario(rng, label, n_files, n_writes, maxHandles, pruneEvery,
                         methods, emfile_k=None, fail_calls=(), n_dead=0,
                         granularity=1, force_append_p=0.0, bad_close=None,
                         pre_existing=False, empty_p=0.0, mid_close_p=0.0,
                         manual_prune_p=0.0, none_method_p=0.0):
    global N_SCENARIOS
    N_SCENARIOS += 1
    root = tempfile.mkdtemp(prefix='pc19_')
    log = []
    out = io.StringIO()
    try:
        names = ['cell_%03d' % i for i in range(n_files)]
        kinds = {n: rng.choice(methods) for n in names}
        paths = {n: os.path.join(root, n + ('.txt.gz' if kinds[n] == 1 else '.txt'))
                 for n in names}
        dead = set(os.path.basename(paths[n]) for n in rng.sample(names, min(n_dead, n_files)))
        if pre_existing:
            for n in names[::2]:
                if kinds[n] == 1:
                    with real_gzip.open(paths[n], 'wb') as f:
                        f.write(b'OLD %s\n' % n.encode())
                else:
                    with builtins.open(paths[n], 'w') as f:
                        f.write('OLD %s\n' % n)
        inj = Injector(root, log, emfile_k=emfile_k, fail_calls=fail_calls,
                       dead_paths=dead, bad_close=bad_close)
        clock = FakeClock(granularity)
        limiter = HandleLimiter(maxHandles=maxHandles, pruneEvery=pruneEvery,
                                compressionLevel=rng.choice([1, 1, 6, 9]))
        expected = {}
        with patched(inj, clock), contextlib.redirect_stdout(out):
            for w in range(n_writes):
                # skewed choice so that some files are hot, some are cold
                n = names[min(int(rng.expovariate(3.0 / max(1, n_files))), n_files - 1)] \
                    if rng.random() < 0.5 else rng.choice(names)
                payload = '' if rng.random() < empty_p else \
                    '@%s w%d %s\n' % (n, w, 'ACGT'[w % 4] * rng.randint(0, 12))
                method = kinds[n]
                if rng.random() < none_method_p:
                    method = None
                force = rng.random() < force_append_p
                try:
                    limiter.write(paths[n], payload, method=method, forceAppend=force)
                    log.append(('w', n, method, force, 'ok'))
                    expected.setdefault(n, []).append(payload)
                except BaseException as e:
                    log.append(('w', n, method, force, type(e).__name__,
                                str(e).replace(root, '<ROOT>')))
                log.append(state_of(limiter, root))
                if rng.random() < manual_prune_p:
                    try:
                        limiter.prune()
                        log.append(('prune', 'ok'))
                    except BaseException as e:
                        log.append(('prune', type(e).__name__, str(e)))
                    log.append(state_of(limiter, root))
                if rng.random() < mid_close_p:
                    limiter.close()
                    log.append(('close',) + state_of(limiter, root))
            try:
                limiter.close()
                log.append(('final close', 'ok'))
            except BaseException as e:
                log.append(('final close', type(e).__name__, str(e)))
            log.append(state_of(limiter, root))
            limiter.close()  # closing twice is harmless
            log.append(state_of(limiter, root))
        # make sure nothing stays open behind the back of the limiter
        leaked = 0
        for h in inj.handed_out:
            if not h.closed:
                leaked += 1
                try:
                    h.close()
                except BaseException:
                    pass
        emit(label, 'leaked', leaked, 'opens', inj.calls)
        emit(label, 'log', log)
        emit(label, 'stdout', out.getvalue().replace(root, '<ROOT>'))
        emit(label, 'files', snapshot_dir(root))
        emit(label, 'expected', sorted(expected.items()))
    finally:
        shutil.rmtree(root, ignore_errors=True)


class FakeRecord:
    def __init__(self, tags, text):
        self.tags = tags
        self.text = text

    def __str__(self):
        return self.text


def run_fastq_scenario(rng, label, paired, single_cell, n_cells, n_reads,
                       maxHandles, pruneEvery=None, emfile_k=None):
    global N_SCENARIOS
    N_SCENARIOS += 1
    root = tempfile.mkdtemp(prefix='pc19_')
    log = []
    out = io.StringIO()
    try:
        inj = Injector(root, log, emfile_k=emfile_k)
        clock = FakeClock(2)
        with patched(inj, clock), contextlib.redirect_stdout(out):
            handle = fh.FastqHandle(os.path.join(root, 'lib'), pairedEnd=paired,
                                    single_cell=single_cell, maxHandles=maxHandles)
            if single_cell and pruneEvery is not None:
                handle.handles.pruneEvery = pruneEvery
            for i in range(n_reads):
                c = rng.randrange(n_cells) if n_cells else 0
                tags = {}
                if rng.random() < 0.9:
                    tags['bi'] = c
                if rng.random() < 0.8:
                    tags['MX'] = rng.choice(['CS2C8U6', 'NLAIII384C8U3'])
                recs = [FakeRecord(tags, '@r%d/%d\n%s\n+\n%s\n' % (
                    i, m + 1, 'ACGT' * (1 + i % 3), 'IIII' * (1 + i % 3)))
                    for m in range(2 if (paired or rng.random() < 0.2) else 1)]
                try:
                    handle.write(recs)
                    log.append(('fq', i, 'ok'))
                except BaseException as e:
                    log.append(('fq', i, type(e).__name__, str(e).replace(root, '<ROOT>')))
            handle.close()
            if single_cell:
                log.append(state_of(handle.handles, root))
            else:
                log.append([type(h).__name__ for h in handle.handles])
        emit(label, 'log', log)
        emit(label, 'stdout', out.getvalue().replace(root, '<ROOT>'))
        emit(label, 'files', snapshot_dir(root))
    finally:
        shutil.rmtree(root, ignore_errors=True)


def main():
    rng = random.Random(190019)

    # 1. plain random histories, no faults
    for i in range(90):
        n_files = rng.choice([1, 2, 3, 5, 8, 13, 40, 200])
        run_limiter_scenario(
            rng, 'plain%d' % i, n_files, rng.choice([0, 1, 2, 30, 150, 400]),
            maxHandles=rng.choice([-1, 0, 1, 2, 3, 7, 32, 500]),
            pruneEvery=rng.choice([0, 1, 2, 3, 10, 57, 10000]),
            methods=rng.choice([[1], [1], [0], [0, 1]]),
            granularity=rng.choice([1, 2, 5, 1000]),
            force_append_p=rng.choice([0, 0, 0.2, 1.0]),
            pre_existing=rng.random() < 0.3,
            empty_p=rng.choice([0, 0.1, 1.0]),
            mid_close_p=rng.choice([0, 0, 0.02]),
            manual_prune_p=rng.choice([0, 0, 0.05]))

    # 2. EMFILE above k open descriptors
    for i in range(90):
        n_files = rng.choice([1, 2, 4, 9, 30, 200])
        run_limiter_scenario(
            rng, 'emfile%d' % i, n_files, rng.choice([1, 5, 60, 300]),
            maxHandles=rng.choice([0, 1, 2, 5, 32, 500]),
            pruneEvery=rng.choice([1, 2, 7, 50, 10000]),
            methods=rng.choice([[1], [1], [0, 1]]),
            emfile_k=rng.choice([1, 1, 2, 3, 5, 17]),
            granularity=rng.choice([1, 3, 1000]),
            force_append_p=rng.choice([0, 0, 0.3]),
            pre_existing=rng.random() < 0.2,
            manual_prune_p=rng.choice([0, 0.05]))

    # 3. transient single failures, alone and on top of EMFILE
    for i in range(70):
        n_files = rng.choice([1, 2, 3, 6, 25, 120])
        n_fail = rng.choice([1, 1, 2, 3, 6])
        fails = set(rng.randint(1, 40) for _ in range(n_fail))
        if i % 7 == 0:  # two failures in a row: second try fails too
            first = rng.randint(1, 10)
            fails = {first, first + 1}
        run_limiter_scenario(
            rng, 'transient%d' % i, n_files, rng.choice([1, 3, 40, 200]),
            maxHandles=rng.choice([1, 2, 5, 32]),
            pruneEvery=rng.choice([1, 3, 20, 10000]),
            methods=rng.choice([[1], [0, 1]]),
            emfile_k=rng.choice([None, None, 1, 4]),
            fail_calls=fails, granularity=rng.choice([1, 4]),
            force_append_p=rng.choice([0, 0.2]))

    # 4. permanent failure of one or more paths
    for i in range(50):
        n_files = rng.choice([1, 2, 3, 6, 25, 120])
        run_limiter_scenario(
            rng, 'dead%d' % i, n_files, rng.choice([1, 3, 40, 200]),
            maxHandles=rng.choice([1, 2, 5, 32]),
            pruneEvery=rng.choice([1, 3, 20, 10000]),
            methods=rng.choice([[1], [0, 1]]),
            emfile_k=rng.choice([None, 1, 3]),
            n_dead=rng.choice([1, 1, 2]), granularity=rng.choice([1, 4]),
            pre_existing=rng.random() < 0.3)

    # 5. handles whose close() raises, method=None writes (TypeError on a
    #    text handle leaves an entry without lastw behind)
    for i in range(40):
        n_files = rng.choice([2, 3, 6, 25])
        excs = [OSError(errno.ENOSPC, 'injected close failure'),
                ValueError('injected close failure'),
                KeyboardInterrupt('injected interrupt on close')]
        bad = {rng.randint(1, 12): rng.choice(excs) for _ in range(rng.choice([0, 1, 2, 3]))}
        run_limiter_scenario(
            rng, 'odd%d' % i, n_files, rng.choice([5, 40, 120]),
            maxHandles=rng.choice([0, 1, 2, 5]),
            pruneEvery=rng.choice([1, 2, 5, 10000]),
            methods=rng.choice([[1], [0, 1], [0]]),
            emfile_k=rng.choice([None, 2]),
            bad_close=bad, granularity=rng.choice([1, 3]),
            none_method_p=rng.choice([0, 0.05, 0.2]),
            manual_prune_p=rng.choice([0, 0.1]),
            mid_close_p=rng.choice([0, 0.05]))

    # 6. FastqHandle on top of the limiter and the bulk writers
    for i in range(40):
        sc = i % 4 != 0
        run_fastq_scenario(
            rng, 'fastq%d' % i, paired=rng.random() < 0.6, single_cell=sc,
            n_cells=rng.choice([1, 2, 10, 96, 200]),
            n_reads=rng.choice([0, 1, 25, 200]),
            maxHandles=rng.choice([1, 2, 8, 500]),
            pruneEvery=rng.choice([None, 1, 2, 9]),
            emfile_k=rng.choice([None, None, 1, 2, 6]) if sc else None)

    print('scenarios: %d' % N_SCENARIOS)
    print(DIGEST.hexdigest())


if __name__ == '__main__':
    main()
