#!/usr/bin/env python
# Differential script for the blacklist-aware tiling code (C17).
# Prints a sha256 digest over all outputs as the last line.
import gzip
import hashlib
import itertools
import os
import random
import tempfile

import numpy as np
import pysam

from singlecellmultiomics.bamProcessing import bamBinCounts as bbc
from singlecellmultiomics.bamProcessing.bamBinCounts import (
    fill_range, trim_rangelist, range_contains_overlap, merge_overlapping_ranges,
    blacklisted_binning, blacklisted_binning_contigs, get_bins_from_bed_iter,
    get_bins_from_bed_dict, invert_ranges)
from singlecellmultiomics.utils.binning import bp_chunked
import singlecellmultiomics.utils as scmo_utils

H = hashlib.sha256()
N_CASES = 0
SCRUB = []  # temporary paths, removed from the recorded text


def record(label, fn):
    """Run fn, record repr of its result or of the raised exception"""
    global N_CASES
    N_CASES += 1
    try:
        out = fn()
        txt = 'OK ' + repr(out)
    except Exception as exc:  # noqa
        txt = 'EXC ' + type(exc).__name__ + ' ' + str(exc)
    line = label + ' => ' + txt
    for scrub in SCRUB:
        line = line.replace(scrub, '<TMP>')
    H.update((line + '\n').encode())
    return txt


def partial_list(gen_fn):
    """Consume a generator, keep what was produced before an exception"""
    def run():
        out = []
        try:
            for x in gen_fn():
                out.append((type(x).__name__, tuple(x), tuple(type(v).__name__ for v in x)))
        except Exception as exc:  # noqa
            out.append(('EXC', type(exc).__name__, str(exc)))
        return out
    return run


rng = random.Random(1717)

# 1. fill_range, all small combinations incl. zero / negative steps and reversed ranges
for start, end, step in itertools.product(range(-2, 9), range(-2, 13), range(-3, 8)):
    record(f'fill_range {start} {end} {step}', partial_list(lambda: fill_range(start, end, step)))

# 2. trim_rangelist / range_contains_overlap / merge_overlapping_ranges
coords = range(0, 7)
all_ranges = [(a, b) for a in coords for b in coords]  # includes empty and inverted ranges
for n in range(0, 3):
    for combo in itertools.product(all_ranges, repeat=n):
        cl = list(combo)
        record(f'overlap {cl}', lambda: range_contains_overlap(cl))
        record(f'merge {cl}', lambda: merge_overlapping_ranges(cl))
wellformed = [(a, b) for a in range(0, 9) for b in range(a, 10)]
for i in range(1500):
    n = rng.randint(0, 7)
    cl = [rng.choice(wellformed if i % 3 else all_ranges) for _ in range(n)]
    record(f'overlap-r {cl}', lambda: range_contains_overlap(cl))
    record(f'merge-r {cl}', lambda: merge_overlapping_ranges(cl))
    s, e = rng.randint(0, 6), rng.randint(0, 10)
    record(f'trim-r {cl} {s} {e}', lambda: list(trim_rangelist(cl, s, e)))
    record(f'trim-sorted {cl} {s} {e}', lambda: list(trim_rangelist(sorted(cl), s, e)))
# list (not tuple) elements, generators
record('merge lists', lambda: merge_overlapping_ranges([[5, 9], [0, 2]]))
record('merge lists overlap', lambda: merge_overlapping_ranges([[5, 9], [0, 6]]))
record('merge lists mixed', lambda: merge_overlapping_ranges([[0, 5], [3, 8], [10, 12]]))
record('merge generator', lambda: merge_overlapping_ranges((a, a + 3) for a in (0, 2, 10)))
record('overlap generator', lambda: range_contains_overlap((a, a + 3) for a in (0, 2, 10)))
record('overlap bad element', lambda: range_contains_overlap([(1, 2), (3,)]))
record('overlap overlap-then-bad', lambda: range_contains_overlap([(1, 5), (2, 6), (7,)]))

# 3. blacklisted_binning, exhaustive for small regions
small_intervals = [(0, 1), (0, 3), (2, 4), (3, 5), (4, 4), (4, 6), (5, 9), (8, 9), (9, 12), (-2, 1)]
small_blacklists = [None, []]
for n in (1, 2, 3):
    for combo in itertools.combinations(small_intervals, n):
        small_blacklists.append(list(combo))
for length in range(0, 10):
    for bin_size in (1, 2, 3, 4, 7, 9, 10, 50):
        for fragment_size in (None, 0, 1, 3, 100):
            for bl in small_blacklists:
                record(f'bb 0 {length} {bin_size} {fragment_size} {bl}',
                       partial_list(lambda: blacklisted_binning(0, length, bin_size, bl, fragment_size)))

# non-zero start coordinate, unsorted / overlapping / adjacent / inverted blacklists, odd bin sizes
for i in range(4000):
    start_coord = rng.choice([0, 0, 1, 3, 10])
    end_coord = start_coord + rng.choice([0, 1, 2, 5, 17, 40, 99, 100, 101, 1000])
    if i % 50 == 0:
        end_coord = start_coord - rng.randint(1, 9)  # reversed region
    bin_size = rng.choice([1, 2, 3, 5, 10, 16, 33, 100, 101, 250, 5000])
    if i % 40 == 1:
        bin_size = rng.choice([0, -1, -3, -10])
    fragment_size = rng.choice([None, 0, 1, 2, 7, 50, 10000])
    pool = all_ranges if i % 10 == 0 else None
    bl = []
    for _ in range(rng.choice([0, 1, 1, 2, 3, 5, 8])):
        if pool is not None:
            a, b = rng.choice(pool)
            a, b = a + start_coord, b + start_coord
        else:
            a = rng.randint(start_coord - 5, max(start_coord, end_coord) + 5)
            b = a + rng.choice([0, 1, 2, 3, 10, 30, 400])
        bl.append((a, b))
    if i % 7 == 0 and bl:
        # adjacent interval and interval touching the region ends
        bl.append((bl[0][1], bl[0][1] + 4))
        bl.append((start_coord, start_coord + 2))
        bl.append((end_coord - 2, end_coord))
    if i % 11 == 0:
        bl = sorted(bl)
    record(f'bb-r {start_coord} {end_coord} {bin_size} {fragment_size} {bl}',
           partial_list(lambda: blacklisted_binning(start_coord, end_coord, bin_size, bl, fragment_size)))

# large coordinates, numpy integers, keyword arguments
for length, bin_size, fs in [(248956422, 500000, 1000), (248956421, 1000000, None), (10 ** 9 + 7, 99999989, 5),
                             (2 ** 40 + 3, 2 ** 33 + 1, 1000)]:
    bl = [(10000, 20000), (length // 2, length // 2 + 123457), (length - 5000, length + 5000)]
    record(f'bb-large {length} {bin_size} {fs}',
           partial_list(lambda: blacklisted_binning(start_coord=0, end_coord=length, bin_size=bin_size,
                                                    blacklist=bl, fragment_size=fs)))
record('bb numpy', partial_list(lambda: blacklisted_binning(np.int64(0), np.int64(103), np.int64(10),
                                                            [(np.int64(5), np.int64(9))], np.int64(4))))
record('bb float bin', partial_list(lambda: blacklisted_binning(0, 100, 10.0, [(5, 9)], 4)))
record('bb none bin', partial_list(lambda: blacklisted_binning(0, 100, None, [(5, 9)], 4)))
record('bb float coords', partial_list(lambda: blacklisted_binning(0, 100.0, 10, [(5, 9)], 4)))
record('bb early stop', lambda: list(itertools.islice(blacklisted_binning(0, 1000, 7, [(50, 60)], 3), 5)))
record('bb generator type', lambda: type(blacklisted_binning(0, 10, 0)).__name__)  # lazy: no error yet

# invert_ranges on merged blacklists (neighbouring code, shares the merged list)
for i in range(200):
    cl = [rng.choice(wellformed) for _ in range(rng.randint(1, 5))]
    record(f'invert {cl}', partial_list(lambda: invert_ranges(merge_overlapping_ranges(cl), 12)))

# 4. BED reading and blacklisted_binning_contigs
with tempfile.TemporaryDirectory() as tmp:
    SCRUB.append(tmp)
    bed = os.path.join(tmp, 'blacklist.bed')
    lines = ['chr1\t100\t200\tx\n', 'chr1\t150\t260\n', 'chr1 0 10 extra cols here\n', 'chr2\t990\t1000\n',
             'chr2\t400\t400\n', 'chr1\t260\t300\n', 'chrUn\t5\t6\n', 'chr3\t0\t77\n']
    with open(bed, 'w') as f:
        f.writelines(lines)
    bed_gz = os.path.join(tmp, 'blacklist.bed.gz')
    with gzip.open(bed_gz, 'wt') as f:
        f.writelines(lines)
    empty_bed = os.path.join(tmp, 'empty.bed')
    open(empty_bed, 'w').close()
    bad_bed = os.path.join(tmp, 'bad.bed')
    with open(bad_bed, 'w') as f:
        f.write('chr1\t5\t9\nchr1\tx\t9\n')

    bam = os.path.join(tmp, 'lengths.bam')
    header = {'HD': {'VN': '1.0', 'SO': 'coordinate'},
              'SQ': [{'SN': 'chr1', 'LN': 1003}, {'SN': 'chr2', 'LN': 1000}, {'SN': 'chr3', 'LN': 77},
                     {'SN': 'chr4', 'LN': 1}, {'SN': 'chrUn', 'LN': 300}]}
    with pysam.AlignmentFile(bam, 'wb', header=header):
        pass
    pysam.index(bam)

    for p in (bed, bed_gz, empty_bed, bad_bed, os.path.join(tmp, 'missing.bed')):
        tag = os.path.basename(p)
        for contig in (None, 'chr1', 'chr9'):
            record(f'bed_iter {tag} {contig}', partial_list(lambda: get_bins_from_bed_iter(p, contig=contig)))
            record(f'bed_dict {tag} {contig}', lambda: get_bins_from_bed_dict(p, contig=contig))

    length_list = [('chr1', 1003), ('chr2', 1000), ('chr3', 77), ('chr4', 1), ('chr5', 0)]
    for resource_name, resource in (('bam', bam), ('list', length_list)):
        for bl_path in (None, bed, bed_gz, empty_bed, bad_bed):
            for bin_size in (1000, 250, 99, 7, 0):
                for fragment_size in (None, 0, 30, 5000):
                    for whitelist in (None, ['chr1', 'chr3'], set(), ('chr2',)):
                        record(f'contigs {resource_name} {bl_path and os.path.basename(bl_path)} {bin_size} '
                               f'{fragment_size} {whitelist}',
                               partial_list(lambda: blacklisted_binning_contigs(
                                   contig_length_resource=resource, bin_size=bin_size, fragment_size=fragment_size,
                                   blacklist_path=bl_path, contig_whitelist=whitelist)))

    # 5. bp_chunked on tiling output and on synthetic jobs
    for bp_per_job in (1, 50, 99, 100, 250, 1000, 10 ** 9, 0):
        for bin_size in (100, 33):
            record(f'bp_chunked tiling {bp_per_job} {bin_size}',
                   lambda: list(bp_chunked(blacklisted_binning_contigs(bam, bin_size, 20, bed, ['chr1', 'chr3']),
                                           bp_per_job)))
            record(f'bp_chunked utils alias {bp_per_job} {bin_size}',
                   lambda: list(scmo_utils.bp_chunked(blacklisted_binning_contigs(length_list, bin_size, None),
                                                      bp_per_job)))

for i in range(400):
    jobs = []
    pos = 0
    for _ in range(rng.randint(0, 12)):
        size = rng.choice([0, 1, 5, 10, 10, 25, 100])
        job = ('c', pos, pos + size, i) if rng.random() < 0.8 else ['c', pos + size, pos]  # reversed job: abs()
        jobs.append(job)
        pos += size
    bp = rng.choice([1, 10, 20, 25, 100, 1000])
    record(f'bp_chunked {jobs} {bp}', lambda: list(bp_chunked(iter(jobs), bp)))
record('bp_chunked empty', lambda: list(bp_chunked([], 10)))
record('bp_chunked short job', partial_list(lambda: bp_chunked([('c', 0, 10), ('c', 1)], 100)))
record('bp_chunked none job', partial_list(lambda: bp_chunked([('c', 0, 10), ('*', None, None)], 100)))


def chunk_identity():
    # every yielded chunk is a fresh list
    chunks = list(bp_chunked([('c', 0, 10), ('c', 10, 20), ('c', 20, 25)], 10))
    return [len(c) for c in chunks], len({id(c) for c in chunks})


record('bp_chunked identity', chunk_identity)

print('cases', N_CASES)
print(H.hexdigest())
